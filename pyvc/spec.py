"""Spec helper functions visible in contract expressions."""
import z3
from .kinds import safe_forall
from .kinds import (V, NONE, VTuple, VList, VFunc, Kind, INT, BOOL, STR, REAL, Ref, Seq, SetK, Map, Arr, Opt,
                    RefSort, NULL, const, concrete, fresh, fresh_name)
from .engine import SpecError


def handler(fn, name):
    return VFunc("handler", fn=fn, name=name)


def wf_map_term(m):
    """Well-formedness of a dict value: the key sequence is duplicate-free and agrees with the domain."""
    k = m.kind
    keys, dom = k.keys(m.term), k.dom(m.term)
    ks = Seq(k.key)
    idx = z3.Function(f"map_idx<{k!r}>", k.sort(), k.key.sort(), z3.IntSort())
    x = z3.Const(fresh_name("wk"), k.key.sort())
    i = z3.Const(fresh_name("wi"), z3.IntSort())
    j = z3.Const(fresh_name("wj"), z3.IntSort())
    n = ks.len(keys)
    at = lambda q: ks.at(keys, q)
    return z3.And(
        n >= 0,
        safe_forall([i], z3.Implies(z3.And(0 <= i, i < n), z3.Select(dom, at(i))), patterns=[at(i)]),
        safe_forall([x], z3.Implies(z3.Select(dom, x), z3.And(0 <= idx(m.term, x), idx(m.term, x) < n,
                                                            at(idx(m.term, x)) == x)),
                  patterns=[z3.Select(dom, x)]),
        safe_forall([i, j], z3.Implies(z3.And(0 <= i, i < j, j < n), at(i) != at(j)), patterns=[z3.MultiPattern(at(i), at(j))]),
    )


def _wf_map(eng, st, args, kw, node):
    yield st, V(BOOL, wf_map_term(args[0]))


def _keys_of(eng, st, args, kw, node):
    m = args[0]
    yield st, V(Seq(m.kind.key), m.kind.keys(m.term))


def _ref(eng, st, args, kw, node):
    ok, c = concrete(args[0])
    yield st, Ref(c)


def _seq(eng, st, args, kw, node):
    yield st, Seq(args[0])


def _setk(eng, st, args, kw, node):
    yield st, SetK(args[0])


def _mapk(eng, st, args, kw, node):
    yield st, Map(args[0], args[1])


def _ite(eng, st, args, kw, node):
    c, a, b = args
    yield st, V(a.kind, z3.If(eng.truth(c, st), a.term, eng.coerce(b, a.kind, st).term))


def _allocated(eng, st, args, kw, node):
    yield st, V(BOOL, z3.Select(st.alloc, args[0].term))


def _null(eng, st, args, kw, node):
    yield st, V(args[0] if isinstance(args[0], Kind) else Ref("object"), NULL)


def _str_is_int(eng, st, args, kw, node):
    from .models import str_is_int
    a = args[0]
    ok, c = concrete(a)
    if ok:
        try:
            int(c)
            yield st, const(True)
        except ValueError:
            yield st, const(False)
        return
    yield st, V(BOOL, str_is_int(a.term))


def _str_int(eng, st, args, kw, node):
    from .models import str_int
    a = args[0]
    ok, c = concrete(a)
    if ok:
        yield st, const(int(c))
        return
    yield st, V(INT, str_int(a.term))


def _ghost(eng, st, args, kw, node):
    from .contract import ghost_reader
    yield from ghost_reader(eng, st, args, kw, node)


def _policy_overridden(eng, st, args, kw, node):
    """policy_overridden(obj, "slot"): has the function-valued slot been assigned on this path?"""
    obj, slot = args
    ok, name = concrete(slot)
    owner, kind = eng.field_kind(obj.kind.cls, name)
    yield st, const((f"{owner}.{name}", obj.term.get_id()) in st.pyheap)


def default_names():
    return {
        "STR": STR, "INT": INT, "BOOL": BOOL, "REAL": REAL,
        "Ref": handler(_ref, "Ref"), "SeqOf": handler(_seq, "SeqOf"), "SetOf": handler(_setk, "SetOf"),
        "MapOf": handler(_mapk, "MapOf"),
        "wf_map": handler(_wf_map, "wf_map"), "keys_of": handler(_keys_of, "keys_of"),
        "ite": handler(_ite, "ite"), "allocated": handler(_allocated, "allocated"),
        "str_is_int": handler(_str_is_int, "str_is_int"), "str_int": handler(_str_int, "str_int"),
        "ghost": handler(_ghost, "ghost"), "policy_overridden": handler(_policy_overridden, "policy_overridden"),
    }
