"""Loops (unrolling / invariant rule), with-statements and comprehensions."""
import ast
import z3

from .kinds import safe_forall
from .kinds import (V, VNone, NONE, VTuple, VList, VDict, VFunc, VClass, VModule, VExc, Kind,
                    INT, BOOL, STR, REAL, Ref, Seq, SetK, Map, Opt, PyKind, RefSort, NULL,
                    const, concrete, fresh, fresh_name)
from .engine import Untranslatable, SpecError, Flow, NORMAL


def loop_ordinal(eng, node):
    fs = eng.func_stack[-1]
    cache = getattr(fs, "_loop_ordinals", None)
    if cache is None:
        loops = [n for n in ast.walk(fs.node) if isinstance(n, (ast.For, ast.While, ast.AsyncFor))]
        loops.sort(key=lambda n: (n.lineno, n.col_offset))
        cache = {id(n): i for i, n in enumerate(loops)}
        fs._loop_ordinals = cache
    return cache.get(id(node))


def loop_spec(eng, node):
    fs = eng.func_stack[-1]
    return eng.loop_specs.get((fs.qualname, loop_ordinal(eng, node)))


def assigned_names(stmts):
    names = set()

    def targets(t):
        if isinstance(t, ast.Name):
            names.add(t.id)
        elif isinstance(t, (ast.Tuple, ast.List)):
            for x in t.elts:
                targets(x)
        elif isinstance(t, ast.Starred):
            targets(t.value)

    class Vis(ast.NodeVisitor):
        def visit_Assign(self, n):
            for t in n.targets:
                targets(t)
            self.generic_visit(n)

        def visit_AugAssign(self, n):
            targets(n.target)
            self.generic_visit(n)

        def visit_AnnAssign(self, n):
            targets(n.target)
            self.generic_visit(n)

        def visit_For(self, n):
            targets(n.target)
            self.generic_visit(n)

        def visit_With(self, n):
            for it in n.items:
                if it.optional_vars is not None:
                    targets(it.optional_vars)
            self.generic_visit(n)

        def visit_NamedExpr(self, n):
            targets(n.target)
            self.generic_visit(n)

        def visit_ExceptHandler(self, n):
            if n.name:
                names.add(n.name)
            self.generic_visit(n)

        def visit_Call(self, n):
            # mutating method on a local name: x.append(...), x.add(...), x.update(...)
            f = n.func
            if isinstance(f, ast.Attribute) and isinstance(f.value, ast.Name) and f.attr in (
                    "append", "extend", "add", "update", "remove", "discard", "pop", "insert", "clear"):
                names.add(f.value.id)
            self.generic_visit(n)

        def visit_FunctionDef(self, n):
            names.add(n.name)

        def visit_Lambda(self, n):
            pass

    v = Vis()
    for s in stmts:
        v.visit(s)
    return names


# ---------------------------------------------------------------------- iteration helpers
def concrete_items(eng, it, st):
    """Return a python list of element values if the iterable has a concrete shape, else None."""
    from .models import VRange, VIter, VGen
    if isinstance(it, (VList, VTuple)):
        return list(it.items)
    if isinstance(it, VRange):
        okl, lo = concrete(it.lo)
        okh, hi = concrete(it.hi)
        if okl and okh and hi - lo <= 64:
            return [const(i) for i in range(lo, hi)]
        return None
    if isinstance(it, VIter):
        if it.how == "enumerate":
            inner = concrete_items(eng, it.parts[0], st)
            if inner is None:
                return None
            return [VTuple([const(i), x]) for i, x in enumerate(inner)]
        if it.how == "zip":
            inners = [concrete_items(eng, p, st) for p in it.parts]
            if any(x is None for x in inners):
                return None
            return [VTuple(list(t)) for t in zip(*inners)]
        return None
    if isinstance(it, VDict):
        return [const(k) for k in it.items if not isinstance(k, tuple)]
    if isinstance(it, VGen):
        return None
    return None


def sym_sequence(eng, it, st):
    """View a symbolic iterable as (length term, element accessor, kind tag)."""
    from .models import VRange, VIter
    if isinstance(it, V) and isinstance(it.kind, Seq):
        return it.kind.len(it.term), (lambda i: V(it.kind.elem, it.kind.at(it.term, i))), "seq"
    if isinstance(it, V) and it.kind == STR:
        return z3.Length(it.term), (lambda i: V(STR, z3.SubString(it.term, i, 1))), "seq"
    if isinstance(it, V) and isinstance(it.kind, Map):
        keys = it.kind.keys(it.term)
        ks = Seq(it.kind.key)
        return ks.len(keys), (lambda i: V(it.kind.key, ks.at(keys, i))), "seq"
    if isinstance(it, VRange):
        lo, hi = it.lo.term, it.hi.term
        n = z3.If(hi - lo < 0, 0, hi - lo)
        return n, (lambda i: V(INT, lo + i)), "seq"
    if isinstance(it, VIter):
        if it.how == "mapkeys":
            return sym_sequence(eng, it.parts[0], st)
        if it.how in ("mapitems", "mapvalues"):
            m = it.parts[0]
            keys = m.kind.keys(m.term)
            va = m.kind.valarr(m.term)
            ks = Seq(m.kind.key)
            if it.how == "mapvalues":
                return ks.len(keys), (lambda i: V(m.kind.val, z3.Select(va, ks.at(keys, i)))), "seq"
            return ks.len(keys), (lambda i: VTuple([V(m.kind.key, ks.at(keys, i)), V(m.kind.val, z3.Select(va, ks.at(keys, i)))])), "seq"
        if it.how == "enumerate":
            n, acc, _ = sym_sequence(eng, eng.to_smt(it.parts[0], st), st)
            return n, (lambda i: VTuple([V(INT, i), acc(i)])), "seq"
        if it.how == "zip":
            subs = [sym_sequence(eng, eng.to_smt(p, st), st) for p in it.parts]
            n = subs[0][0]
            for s in subs[1:]:
                n = z3.If(s[0] < n, s[0], n)
            return n, (lambda i: VTuple([s[1](i) for s in subs])), "seq"
    return None


# ---------------------------------------------------------------------- for loops
def for_loop(models, eng, s, it, st):
    from .models import VGen
    if isinstance(it, VGen):
        it = realize_gen(models, eng, it, st, "list")
    items = concrete_items(eng, it, st)
    if items is not None:
        yield from unrolled_for(eng, s, items, 0, st)
        return
    spec = loop_spec(eng, s)
    if spec is None:
        fs = eng.func_stack[-1]
        raise Untranslatable(
            f"loop #{loop_ordinal(eng, s)} of {fs.qualname} over a symbolic iterable needs an invariant", s)
    if isinstance(it, V) and isinstance(it.kind, SetK):
        yield from invariant_for_set(eng, s, it, spec, st)
        return
    seq = sym_sequence(eng, it, st)
    if seq is None:
        raise Untranslatable(f"iteration over {it!r}", s)
    yield from invariant_for_seq(eng, s, seq, spec, st)


def unrolled_for(eng, s, items, i, st):
    if i == len(items):
        yield from eng.ex_block(s.orelse, st)
        return
    for st1 in eng.assign(s.target, items[i], st):
        for st2, flow in eng.ex_block(s.body, st1):
            if flow.kind in ("normal", "continue"):
                yield from unrolled_for(eng, s, items, i + 1, st2)
            elif flow.kind == "break":
                yield st2, NORMAL
            else:
                yield st2, flow


def eval_invariants(eng, spec, st, label, node, establish):
    # locals first assigned inside the loop are undefined (arbitrary) before the first iteration
    for nm, k in spec.get("kinds", {}).items():
        if nm not in st.locals and hasattr(k, "sort"):
            fs = eng.func_stack[-1]
            stored = getattr(fs, "_stored_names", None)
            if stored is None:
                stored = {n.id for n in ast.walk(fs.node) if isinstance(n, ast.Name) and isinstance(n.ctx, ast.Store)}
                stored |= {a.arg for a in ast.walk(fs.node) if isinstance(a, ast.arg)}
                fs._stored_names = stored
            used = set()
            for inv in spec.get("invariants", []):
                tree = inv if isinstance(inv, ast.AST) else ast.parse(inv, mode="eval").body
                used |= {n.id for n in ast.walk(tree) if isinstance(n, ast.Name)}
            if nm not in stored and nm not in used:
                continue
            if nm not in stored:
                # the loop specification names a local the function does not have (e.g. renamed by an edit): the
                # specification cannot be evaluated - undecided, never a failed obligation
                raise Untranslatable(f"{label}: the loop specification names the local '{nm}' which {fs.qualname} does not assign", node)
            st.locals[nm] = fresh(k, nm + "_undef")
    for n, inv in enumerate(spec.get("invariants", [])):
        tree = inv if isinstance(inv, ast.AST) else ast.parse(inv, mode="eval").body
        t = eng.ev_merged(tree, st, want_bool=True)
        if establish:
            eng.oblige(st, f"{label}.inv{n}", t.term, node, kind="invariant")
        else:
            st.assume(t.term)


def havoc(eng, st, names, heap_fields, kinds_hint):
    for n in names:
        cur = st.locals.get(n)
        k = None
        if isinstance(cur, V):
            k = cur.kind
        elif n in kinds_hint:
            k = kinds_hint[n]
        if k is not None:
            st.locals[n] = fresh(k, n)
        elif cur is not None and not isinstance(cur, V):
            # python-level value (None / tuple / function): keep only if the hint says so
            if n in kinds_hint and kinds_hint[n] == "keep":
                continue
            raise Untranslatable(f"loop modifies python-level local {n}; declare its kind in the loop spec")
    for f in heap_fields:
        if f == "alloc":
            st.alloc = z3.Const(fresh_name("alloc"), st.alloc.sort())
            continue
        if f in st.heap:
            st.heap[f] = z3.Const(fresh_name("H_" + f), st.heap[f].sort())
        else:
            owner, field = f.split(".")
            _, kind = eng.field_kind(owner, field)
            if kind is not None and kind.smt:
                st.heap[f] = z3.Const(fresh_name("H_" + f), z3.ArraySort(RefSort, kind.sort()))
    for g in kinds_hint.get("__ghost__", []):
        if g in st.ghost and isinstance(st.ghost[g], V):
            st.ghost[g] = fresh(st.ghost[g].kind, g)


def invariant_for_seq(eng, s, seq, spec, st):
    n, elem_at, _ = seq
    fs = eng.func_stack[-1]
    label = f"{fs.qualname}.loop{loop_ordinal(eng, s)}"
    names = assigned_names(s.body) | assigned_names([ast.Assign(targets=[s.target], value=ast.Constant(0))])
    heap_fields = spec.get("modifies", [])
    hints = dict(spec.get("kinds", {}))
    hints["__ghost__"] = spec.get("ghost", [])
    # 1. establishment
    ordn = loop_ordinal(eng, s)
    saved_i = st.locals.get("_i")

    def set_i(stx, v):
        stx.locals["_i"] = v
        stx.locals[f"_i{ordn}"] = v

    def restore_i(stx):
        if saved_i is not None:
            stx.locals["_i"] = saved_i
        else:
            stx.locals.pop("_i", None)
    set_i(st, const(0))
    st.locals["_n"] = V(INT, n)
    eval_invariants(eng, spec, st, label + ".establish", s, True)
    # 2. arbitrary iteration
    st_it = st.copy()
    havoc(eng, st_it, names - {"_i"}, heap_fields, hints)
    i = fresh(INT, "_i")
    set_i(st_it, i)
    st_it.assume(z3.And(i.term >= 0, i.term < n))
    eval_invariants(eng, spec, st_it, label, s, False)
    writes_before = set(st_it.writes)
    collected_kinds = {}
    if eng.feasible(st_it):
        for st1 in eng.assign(s.target, elem_at(i.term), st_it):
            for st2, flow in eng.ex_block(s.body, st1):
                undeclared = {w for w in st2.writes - writes_before if w not in heap_fields}
                if undeclared:
                    raise Untranslatable(f"{label}: loop body writes {sorted(undeclared)} not declared in modifies", s)
                for nm in names:
                    v = st2.locals.get(nm)
                    if isinstance(v, V):
                        collected_kinds.setdefault(nm, v.kind)
                if flow.kind in ("normal", "continue"):
                    set_i(st2, V(INT, i.term + 1))
                    eval_invariants(eng, spec, st2, label + ".preserve", s, True)
                elif flow.kind == "break":
                    restore_i(st2)
                    yield st2, NORMAL
                else:
                    restore_i(st2)
                    yield st2, flow
    # 3. exit
    st_ex = st
    for k, v in collected_kinds.items():
        hints.setdefault(k, v)
    havoc(eng, st_ex, names - {"_i"}, heap_fields, hints)
    set_i(st_ex, V(INT, n))
    eval_invariants(eng, spec, st_ex, label, s, False)
    restore_i(st_ex)
    if eng.feasible(st_ex):
        yield from eng.ex_block(s.orelse, st_ex)


def invariant_for_set(eng, s, it, spec, st):
    fs = eng.func_stack[-1]
    label = f"{fs.qualname}.loop{loop_ordinal(eng, s)}"
    names = assigned_names(s.body) | assigned_names([ast.Assign(targets=[s.target], value=ast.Constant(0))])
    heap_fields = spec.get("modifies", [])
    hints = dict(spec.get("kinds", {}))
    hints["__ghost__"] = spec.get("ghost", [])
    kind = it.kind
    st.locals["_seen"] = V(kind, z3.EmptySet(kind.elem.sort()))
    st.locals["_all"] = it
    eval_invariants(eng, spec, st, label + ".establish", s, True)
    st_it = st.copy()
    havoc(eng, st_it, names, heap_fields, hints)
    seen = fresh(kind, "_seen")
    x = fresh(kind.elem, "_x")
    st_it.locals["_seen"] = seen
    st_it.assume(kind.subset(seen.term, it.term))
    st_it.assume(z3.Select(it.term, x.term))
    st_it.assume(z3.Not(z3.Select(seen.term, x.term)))
    eval_invariants(eng, spec, st_it, label, s, False)
    writes_before = set(st_it.writes)
    collected_kinds = {}
    if eng.feasible(st_it):
        for st1 in eng.assign(s.target, x, st_it):
            for st2, flow in eng.ex_block(s.body, st1):
                undeclared = {w for w in st2.writes - writes_before if w not in heap_fields}
                if undeclared:
                    raise Untranslatable(f"{label}: loop body writes {sorted(undeclared)} not declared in modifies", s)
                for nm in names:
                    v = st2.locals.get(nm)
                    if isinstance(v, V):
                        collected_kinds.setdefault(nm, v.kind)
                if flow.kind in ("normal", "continue"):
                    st2.locals["_seen"] = V(kind, z3.SetAdd(seen.term, x.term))
                    eval_invariants(eng, spec, st2, label + ".preserve", s, True)
                elif flow.kind == "break":
                    yield st2, NORMAL
                else:
                    yield st2, flow
    st_ex = st
    for k, v in collected_kinds.items():
        hints.setdefault(k, v)
    havoc(eng, st_ex, names, heap_fields, hints)
    st_ex.locals["_seen"] = it
    eval_invariants(eng, spec, st_ex, label, s, False)
    if eng.feasible(st_ex):
        yield from eng.ex_block(s.orelse, st_ex)


def while_loop(models, eng, s, st):
    spec = loop_spec(eng, s)
    fs = eng.func_stack[-1]
    label = f"{fs.qualname}.loop{loop_ordinal(eng, s)}"
    if spec is None:
        raise Untranslatable(f"while loop #{loop_ordinal(eng, s)} of {fs.qualname} needs an invariant", s)
    names = assigned_names(s.body)
    heap_fields = spec.get("modifies", [])
    hints = dict(spec.get("kinds", {}))
    hints["__ghost__"] = spec.get("ghost", [])
    eval_invariants(eng, spec, st, label + ".establish", s, True)
    st_h = st
    havoc(eng, st_h, names, heap_fields, hints)
    eval_invariants(eng, spec, st_h, label, s, False)
    if not eng.feasible(st_h):
        return
    for st1, c in eng.ev(s.test, st_h):
        for st2, b in eng.fork(st1, eng.truth(c, st1), f"while@{s.lineno}"):
            if b:
                hook = spec.get("on_iteration")
                if hook is not None:
                    hook(eng, st2)
                for st3, flow in eng.ex_block(s.body, st2):
                    if flow.kind in ("normal", "continue"):
                        eval_invariants(eng, spec, st3, label + ".preserve", s, True)
                    elif flow.kind == "break":
                        yield st3, NORMAL
                    else:
                        yield st3, flow
            else:
                yield from eng.ex_block(s.orelse, st2)


# ---------------------------------------------------------------------- with
def with_stmt(models, eng, s, st):
    if len(s.items) != 1:
        raise Untranslatable("with statement with several items", s)
    item = s.items[0]
    ctx = item.context_expr
    # repository generator-based context managers are inlined
    if isinstance(ctx, ast.Call):
        fname = ast.unparse(ctx.func).split(".")[-1]
        fs = None
        cur = eng.func_stack[-1] if eng.func_stack else None
        if cur is not None:
            fs = eng.index.funcs.get(f"{cur.file}::{fname}")
        h = eng.overrides.get(f"with:{fname}")
        if h is not None:
            yield from h(eng, s, st)
            return
        if fs is not None and "contextmanager" in " ".join(fs.decorators):
            yield from inline_contextmanager(eng, fs, ctx, item, s, st)
            return
    raise Untranslatable(f"with statement on {ast.unparse(ctx)}", s)


def inline_contextmanager(eng, fs, call, item, s, st):
    for st1, args in eng.ev_list(call.args, st):
        for st2, kwvals in eng.ev_list([k.value for k in call.keywords], st1):
            kwargs = {k.arg: v for k, v in zip(call.keywords, kwvals)}
            frame = eng.bind_args(fs, args, kwargs, st2, call)
            caller_frames = None

            def hook(stg, yielded, _item=item, _s=s):
                # run the with-body in the caller's frame (the generator frame is temporarily removed)
                gframe = stg.frames.pop()
                if _item.optional_vars is not None:
                    for _ in eng.assign(_item.optional_vars, yielded, stg):
                        pass
                sink = []
                eng.sinks.append(sink)
                try:
                    outs = list(eng.ex_block(_s.body, stg))
                finally:
                    eng.sinks.pop()
                for stx, exc in sink:
                    stx.frames.append(gframe)
                    eng.sinks[-1].append((stx, exc))      # re-raised at the yield point inside the generator
                for stx, flow in outs:
                    stx.frames.append(gframe)
                    if flow.kind == "normal":
                        yield stx, NORMAL
                    else:
                        yield stx, Flow("outer", flow)

            st2.frames.append(frame)
            eng.func_stack.append(fs)
            eng.yield_hooks.append(hook)
            sink = []
            eng.sinks.append(sink)
            try:
                outs = list(eng.ex_block(fs.node.body, st2))
            finally:
                eng.sinks.pop()
                eng.yield_hooks.pop()
                eng.func_stack.pop()
            for stx, exc in sink:
                stx.frames.pop()
                eng.sinks[-1].append((stx, exc))
            for stx, flow in outs:
                stx.frames.pop()
                if flow.kind == "outer":
                    yield stx, flow.value
                elif flow.kind in ("normal", "return"):
                    yield stx, NORMAL
                else:
                    raise Untranslatable(f"flow {flow.kind} escaping context manager {fs.qualname}")


# ---------------------------------------------------------------------- comprehensions
def comprehension(models, eng, e, st, how):
    from .models import VGen
    # {k: v for k, v in X.items()} on a schema object with a `dictcopy` handler: a plain copy of the mapping
    if how == "dict" and len(e.generators) == 1 and not e.generators[0].ifs:
        g0 = e.generators[0]
        if (isinstance(g0.iter, ast.Call) and isinstance(g0.iter.func, ast.Attribute) and g0.iter.func.attr == "items"
                and isinstance(g0.target, ast.Tuple) and len(g0.target.elts) == 2
                and isinstance(e.key, ast.Name) and isinstance(e.value, ast.Name)
                and e.key.id == g0.target.elts[0].id and e.value.id == g0.target.elts[1].id):
            for st1, src in eng.ev(g0.iter.func.value, st):
                if isinstance(src, V) and isinstance(src.kind, Ref):
                    h = eng.schema.get(src.kind.cls, {}).get("dictcopy")
                    if h is not None:
                        yield st1, h(eng, st1, src)
                        continue
                raise Untranslatable("dict comprehension copy of an unsupported mapping", e)
            return
    # {k: v for k, v in P.items() if cond(k, v)} on a parameter object: the sub-mapping of the entries that satisfy cond
    if how == "dict" and len(e.generators) == 1:
        g0 = e.generators[0]
        if (isinstance(g0.iter, ast.Call) and isinstance(g0.iter.func, ast.Attribute) and g0.iter.func.attr == "items"
                and isinstance(g0.target, ast.Tuple) and len(g0.target.elts) == 2
                and all(isinstance(x, ast.Name) for x in g0.target.elts)
                and isinstance(e.key, ast.Name) and isinstance(e.value, ast.Name)
                and e.key.id == g0.target.elts[0].id and e.value.id == g0.target.elts[1].id):
            srcs = list(eng.ev(g0.iter.func.value, st))
            if len(srcs) == 1 and isinstance(srcs[0][1], V) and isinstance(srcs[0][1].kind, Ref) and srcs[0][1].kind.cls == "Params":
                st1, src = srcs[0]
                from contracts.schema import P_HAS, P_VAL
                has = eng.read_field(st1, src, "Params", "p_has", P_HAS).term
                val = eng.read_field(st1, src, "Params", "p_val", P_VAL).term
                k = z3.Const(fresh_name("ck"), z3.StringSort())
                frame = {"__closure__": st1.frames[-1], g0.target.elts[0].id: V(STR, k),
                         g0.target.elts[1].id: V(STR, z3.Select(val, k))}
                conds = []
                saved = eng.no_prune
                eng.no_prune = True
                try:
                    for c in g0.ifs:
                        st1.frames.append(frame)
                        try:
                            outs = list(eng.ev(c, st1))
                        finally:
                            st1.frames.pop()
                        if len(outs) != 1:
                            raise Untranslatable("dict comprehension filter must be pure and total", e)
                        conds.append(eng.truth(outs[0][1], st1))
                finally:
                    eng.no_prune = saved
                keep = z3.And(z3.Select(has, k), *conds) if conds else z3.Select(has, k)
                newp = eng.new_object(st1, "Params", "subparams")
                eng.write_field(st1, newp, "Params", "p_has", P_HAS, V(P_HAS, z3.Lambda([k], keep)))
                eng.write_field(st1, newp, "Params", "p_val", P_VAL, V(P_VAL, val))
                yield st1, newp
                return
    gens = e.generators
    if any(g.is_async for g in gens):
        raise Untranslatable("async comprehension", e)
    # evaluate the first iterable eagerly to decide between unrolling and symbolic treatment
    if how == "gen":
        yield st, VGen(e, st.frames[-1])
        return
    g = VGen(e, st.frames[-1])
    yield st, realize_gen(models, eng, g, st, how)


def _eval_pure(eng, expr, st, frame):
    st.frames.append(frame)
    try:
        outs = list(eng.ev(expr, st))
    finally:
        pass
    if len(outs) != 1:
        st.frames.pop()
        raise Untranslatable("comprehension iterable must be pure and total", expr)
    st1, v = outs[0]
    st1.frames.pop()
    return v


def realize_gen(models, eng, g, st, how):
    """Turn a comprehension into a value: python-level list when shapes are concrete, SMT set/seq otherwise."""
    e = g.node
    gens = e.generators
    frame0 = {"__closure__": g.frame}
    # try concrete unrolling
    res = _unroll_comp(eng, e, gens, 0, st, frame0)
    if res is not None:
        if how == "set":
            if not res:
                return VTuple([])
            return eng.coerce(VList(res), SetK(res[0].kind), st)
        if how == "dict":
            return VDict({concrete(k)[1]: v for k, v in res})
        return VList(res)
    return _symbolic_comp(models, eng, e, st, frame0, how)


def _unroll_comp(eng, e, gens, gi, st, frame):
    """Return list of element values, or None if some iterable is symbolic."""
    if gi == len(gens):
        st.frames.append(frame)
        try:
            if isinstance(e, ast.DictComp):
                k = eng.ev_merged(e.key, st)
                v = eng.ev_merged(e.value, st)
                return [(k, v)]
            return [eng.ev_merged(e.elt, st)]
        finally:
            st.frames.pop()
    gen = gens[gi]
    it = _eval_pure(eng, gen.iter, st, frame)
    items = concrete_items(eng, it, st)
    if items is None:
        return None
    out = []
    for item in items:
        fr = dict(frame)
        st.frames.append(fr)
        try:
            for _ in eng.assign(gen.target, item, st):
                pass
            keep = True
            for cond in gen.ifs:
                c = eng.ev_merged(cond, st, want_bool=True)
                ct = z3.simplify(c.term)
                if z3.is_false(ct):
                    keep = False
                    break
                if not z3.is_true(ct):
                    # symbolic filter over a concrete shape: decide with the solver, else give up unrolling
                    if not eng.feasible(st, ct):
                        keep = False
                        break
                    if eng.feasible(st, z3.Not(ct)):
                        return None
        finally:
            st.frames.pop()
        if not keep:
            continue
        sub = _unroll_comp(eng, e, gens, gi + 1, st, fr)
        if sub is None:
            return None
        out += sub
    return out


def _bind_generators(eng, gens, st, frame):
    """Bind each generator variable to a fresh constant; return (bound vars, guard, frame).

    While later generators / filters are evaluated, the guards of the earlier ones are temporarily part of the
    path condition (so that e.g. `d[k]` for `k in d` is not reported as a possible KeyError)."""
    guards = []
    bound = []
    fr = dict(frame)
    temp = []
    pushed = []

    def push(g):
        guards.append(g)
        st.pc.append(g)
        temp.append(g)

    try:
        for gen in gens:
            it = _eval_pure(eng, gen.iter, st, fr)
            it = eng.to_smt(it, st)
            items = concrete_items(eng, it, st)
            if items is not None:
                it = eng.to_smt(VList(items), st)
            tname = ast.unparse(gen.target).replace(" ", "")
            if isinstance(it, V) and isinstance(it.kind, SetK):
                # canonical bound-variable names make alpha-equivalent comprehensions syntactically equal
                x = V(it.kind.elem, z3.Const(f"cv!{tname}!{len(bound)}", it.kind.elem.sort()))
                push(z3.Select(it.term, x.term))
                val = x
                bound.append(x.term)
                eng.bound_stack.append((x.term, z3.Select(it.term, x.term)))
                pushed.append(1)
            else:
                seq = sym_sequence(eng, it, st)
                if seq is None:
                    raise Untranslatable(f"comprehension over {it!r}", gen.iter)
                n, acc, _ = seq
                idx = V(INT, z3.Const(f"ci!{tname}!{len(bound)}", z3.IntSort()))
                push(z3.And(idx.term >= 0, idx.term < n))
                val = acc(idx.term)
                bound.append(idx.term)
                eng.bound_stack.append((idx.term, z3.And(idx.term >= 0, idx.term < n)))
                pushed.append(1)
            st.frames.append(fr)
            try:
                for _ in eng.assign(gen.target, val, st):
                    pass
                for cond in gen.ifs:
                    c = eng.ev_merged(cond, st, want_bool=True)
                    push(c.term)
            finally:
                st.frames.pop()
    finally:
        ids = {g.get_id() for g in temp}
        st.pc[:] = [c for c in st.pc if not (c.get_id() in ids and c.get_id() not in st.facts)]
        for _ in pushed:
            eng.bound_stack.pop()
    return bound, z3.And(guards) if guards else z3.BoolVal(True), fr


def _symbolic_comp(models, eng, e, st, frame, how):
    gens = e.generators
    if isinstance(e, ast.DictComp):
        raise Untranslatable("symbolic dict comprehension", e)
    bound, guard, fr = _bind_generators(eng, gens, st, frame)
    st.frames.append(fr)
    for b in bound:
        eng.bound_stack.append((b, guard))
    try:
        elt = eng.ev_merged(e.elt, st)
    finally:
        for b in bound:
            eng.bound_stack.pop()
        st.frames.pop()
    if not isinstance(elt, V):
        raise Untranslatable("comprehension element is not an SMT value", e)
    es = elt.kind.sort()
    if how == "set":
        K = SetK(elt.kind)
        if len(bound) == 1 and elt.term.eq(bound[0]):
            # {x for x in S if cond(x)}: definition by the guard itself
            b0 = bound[0]
            src = []
            g0 = guard.arg(0) if z3.is_and(guard) and guard.num_args() > 0 else guard
            if z3.is_app(g0) and g0.decl().kind() == z3.Z3_OP_SELECT:
                src = [g0.arg(0)]
            C = K.define(st, lambda x: z3.substitute(guard, (b0, x)), "setcomp", src)
            return V(K, C)
        C = z3.Const(fresh_name("setcomp"), K.sort())
        y = z3.Const(fresh_name("y"), es)
        st.assume(safe_forall([y], z3.Select(C, y) == z3.Exists(bound, z3.And(guard, elt.term == y)), patterns=[z3.Select(C, y)]))
        st.assume(safe_forall(bound, z3.Implies(guard, z3.Select(C, elt.term))))
        return V(K, C)
    # list: order-preserving map when there is a single unfiltered sequence generator
    single = len(gens) == 1 and not gens[0].ifs and bound[0].sort() == z3.IntSort() and not isinstance(
        eng.to_smt(_eval_pure(eng, gens[0].iter, st, dict(frame)), st).kind if isinstance(eng.to_smt(_eval_pure(eng, gens[0].iter, st, dict(frame)), st), V) else None, SetK)
    K = Seq(elt.kind)
    r = fresh(K, "comp")
    if single:
        it = eng.to_smt(_eval_pure(eng, gens[0].iter, st, dict(frame)), st)
        n = sym_sequence(eng, it, st)[0]
        st.assume(K.len(r.term) == n)
        i = bound[0]
        src_elem = sym_sequence(eng, it, st)[1](i)
        pats = [K.at(r.term, i)]
        body1 = z3.Implies(z3.And(i >= 0, i < n), z3.And(K.at(r.term, i) == elt.term, K.contains(r.term, elt.term)))
        st.assume(safe_forall([i], body1, patterns=[K.at(r.term, i)]))
        if isinstance(src_elem, V):
            try:
                st.assume(safe_forall([i], body1, patterns=[src_elem.term]))
            except z3.Z3Exception:
                pass
        src = z3.Function(fresh_name("mapsrc"), es, z3.IntSort())
        y = z3.Const(fresh_name("y"), es)
        elt_at_src = z3.substitute(elt.term, (i, src(y)))
        st.assume(safe_forall([y], z3.Implies(K.contains(r.term, y), z3.And(src(y) >= 0, src(y) < n, elt_at_src == y)),
                            patterns=[K.contains(r.term, y)]))
        return r
    # filtered / nested: characterise membership only (order and multiplicity abstracted)
    y = z3.Const(fresh_name("y"), es)
    n = K.len(r.term)
    st.assume(safe_forall([y], K.contains(r.term, y) == z3.Exists(bound, z3.And(guard, elt.term == y)),
                        patterns=[K.contains(r.term, y)]))
    st.assume(safe_forall(bound, z3.Implies(guard, K.contains(r.term, elt.term))))
    return r


def quantify_gen(models, eng, g, st, exists):
    e = g.node
    frame0 = {"__closure__": g.frame}
    res = _unroll_comp(eng, e, e.generators, 0, st, frame0)
    if res is not None:
        terms = [eng.truth(x, st) for x in res]
        return V(BOOL, (z3.Or if exists else z3.And)(terms or [z3.BoolVal(not exists)]))
    bound, guard, fr = _bind_generators(eng, e.generators, st, frame0)
    st.frames.append(fr)
    for b in bound:
        eng.bound_stack.append((b, guard))
    try:
        elt = eng.ev_merged(e.elt, st, want_bool=True)
    finally:
        for b in bound:
            eng.bound_stack.pop()
        st.frames.pop()
    if exists:
        return V(BOOL, z3.Exists(bound, z3.And(guard, elt.term)))
    return V(BOOL, safe_forall(bound, z3.Implies(guard, elt.term)))


def next_of_gen(models, eng, g, default, st, node):
    """next(<generator over a sequence with filters>): first matching element or StopIteration/default."""
    e = g.node
    if len(e.generators) != 1:
        raise Untranslatable("next() over nested generator", node)
    frame0 = {"__closure__": g.frame}
    gen = e.generators[0]
    it = eng.to_smt(_eval_pure(eng, gen.iter, st, frame0), st)
    items = concrete_items(eng, it, st)
    if items is not None:
        it = eng.to_smt(VList(items), st) if items else None
        if it is None or not isinstance(it, V):
            if default is not None:
                yield st, default
            else:
                eng.raise_exc(st, "StopIteration", node)
            return
    seq = sym_sequence(eng, it, st)
    if seq is None:
        raise Untranslatable("next() over non-sequence", node)
    n, acc, _ = seq

    def cond_at(idx_term, stx):
        fr = dict(frame0)
        stx.frames.append(fr)
        try:
            for _ in eng.assign(gen.target, acc(idx_term), stx):
                pass
            cs = [eng.ev_merged(c, stx, want_bool=True).term for c in gen.ifs]
            elt = eng.ev_merged(e.elt, stx)
        finally:
            stx.frames.pop()
        return (z3.And(cs) if cs else z3.BoolVal(True)), elt

    j = z3.Const(fresh_name("j"), z3.IntSort())
    cj, _ = cond_at(j, st)
    some = z3.Exists([j], z3.And(j >= 0, j < n, cj))
    for st1, found in eng.fork(st, some, f"next@{getattr(node, 'lineno', '?')}"):
        if found:
            k = fresh(INT, "first")
            ck, eltk = cond_at(k.term, st1)
            st1.assume(z3.And(k.term >= 0, k.term < n, ck))
            j2 = z3.Const(fresh_name("j"), z3.IntSort())
            cj2, _ = cond_at(j2, st1)
            st1.assume(safe_forall([j2], z3.Implies(z3.And(j2 >= 0, j2 < k.term), z3.Not(cj2))))
            yield st1, eltk
        elif default is not None:
            yield st1, default
        else:
            eng.raise_exc(st1, "StopIteration", node)
