"""Symbolic executor over the Python AST of the real repository functions.

The state is pure SMT: object fields are arrays indexed by references (component heap),
collections are SMT sequences / sets (arrays to Bool) / maps; scalars are Int/Bool/String/Real.
Paths fork at symbolic branches; exceptions of the analysed program are collected in sinks.
"""
import ast
import os
import z3

from .kinds import (V, VNone, NONE, VTuple, VList, VDict, VFunc, VClass, VModule, VExc, Kind,
                    INT, BOOL, STR, REAL, Ref, Seq, SetK, Map, Opt, PyKind, ANY, RefSort, NULL,
                    const, concrete, fresh, fresh_name)


class Untranslatable(Exception):
    """The function uses a construct outside the supported subset."""

    def __init__(self, msg, node=None):
        self.node = node
        line = getattr(node, "lineno", "?")
        super().__init__(f"{msg} (line {line})")


class SpecError(Exception):
    pass


class Flow:
    __slots__ = ("kind", "value")

    def __init__(self, kind, value=None):
        self.kind, self.value = kind, value

    def __repr__(self):
        return f"Flow<{self.kind}>"


NORMAL = Flow("normal")

EXC_PARENTS = {
    "Exception": "BaseException", "ValueError": "Exception", "KeyError": "LookupError",
    "IndexError": "LookupError", "LookupError": "Exception", "RuntimeError": "Exception",
    "AssertionError": "Exception", "TypeError": "Exception", "AttributeError": "Exception",
    "NotImplementedError": "RuntimeError", "StopIteration": "Exception", "OSError": "Exception",
    "IOError": "Exception", "FileNotFoundError": "OSError", "ZeroDivisionError": "ArithmeticError",
    "ArithmeticError": "Exception", "ParamNotFound": "TestSkipError", "TestSkipError": "TestBaseException",
    "TestBaseException": "Exception", "TestError": "TestBaseException", "TestAbortError": "TestBaseException",
    "TestFail": "TestBaseException", "ShellCmdError": "ShellError", "ShellError": "Exception",
    "EmptyCartesianProduct": "Exception", "KeyboardInterrupt": "BaseException",
    "UnicodeDecodeError": "ValueError", "TimeoutError": "OSError", "LoginError": "Exception",
    "CalledProcessError": "Exception", "CmdError": "Exception",
}
# python aliases
EXC_ALIAS = {"IOError": "OSError", "EnvironmentError": "OSError"}


def exc_isinstance(cls, target):
    cls = EXC_ALIAS.get(cls, cls)
    target = EXC_ALIAS.get(target, target)
    seen = 0
    while cls is not None and seen < 20:
        if cls == target:
            return True
        cls = EXC_PARENTS.get(cls)
        cls = EXC_ALIAS.get(cls, cls)
        seen += 1
    return False


RLIMIT_PER_MS = int(os.environ.get("VERIF_RLIMIT_PER_MS", "600"))


class State:
    def __init__(self):
        self.frames = [{}]
        self.heap = {}
        self.pyheap = {}
        self.pc = []
        self.ghost = {}
        self.alloc = z3.Const("alloc0", z3.ArraySort(RefSort, z3.BoolSort()))
        self.writes = set()
        self.trace = []
        self.depth = 0
        self.memo = {}
        self.facts = set()
        self.fresh_refs = frozenset()
        self.local_fields = {}      # id of a fresh reference constant -> {"Owner.field": value term}; until it escapes
        self.fresh_terms = {}       # id -> z3 constant of the fresh reference

    def heap_sig(self):
        """Signature of the heap contents (initial arrays, created lazily on first read, do not count)."""
        def pristine(k, v):
            return z3.is_const(v) and v.decl().kind() == z3.Z3_OP_UNINTERPRETED and v.decl().name() == f"H0_{k}"
        return hash(tuple(sorted((k, v.get_id()) for k, v in self.heap.items() if not pristine(k, v)))
                    + tuple(sorted((k, v.term.get_id()) for k, v in self.ghost.items()
                                   if isinstance(v, V) and not str(v.term).endswith("0")))
                    + (self.ghost.get("__params_version__", 0),)
                    + tuple(sorted((rid, k, t.get_id()) for rid, fs in self.local_fields.items() for k, t in fs.items())))

    def copy(self):
        s = State.__new__(State)
        s.frames = [dict(f) for f in self.frames]
        s.heap = dict(self.heap)
        s.pyheap = dict(self.pyheap)
        s.pc = list(self.pc)
        s.ghost = dict(self.ghost)
        s.alloc = self.alloc
        s.writes = set(self.writes)
        s.trace = list(self.trace)
        s.depth = self.depth
        s.memo = dict(self.memo)
        s.facts = set(self.facts)
        s.fresh_refs = self.fresh_refs
        s.local_fields = {k: dict(v) for k, v in self.local_fields.items()}
        s.fresh_terms = dict(self.fresh_terms)
        return s

    @property
    def locals(self):
        return self.frames[-1]

    def assume(self, c):
        """Add a fact (definitional axiom, contract post-condition, invariant assumption) to the path."""
        if isinstance(c, bool):
            c = z3.BoolVal(c)
        if not z3.is_true(c):
            self.pc.append(c)
            self.facts.add(c.get_id())

    def guard(self, c):
        """Add a branch condition to the path."""
        if isinstance(c, bool):
            c = z3.BoolVal(c)
        if not z3.is_true(c):
            self.pc.append(c)


class Engine:
    def __init__(self, index, schema, models):
        self.index = index
        self.schema = schema        # class name -> {"fields": {name: Kind}, "bases": [..], "methods": {...}, "props": {...}}
        self.models = models        # Models instance (library handlers)
        self.overrides = {}         # "Class.method" / "module.func" / "func" -> handler(engine, st, recv, args, kwargs, node)
        self.obligations = []       # dicts: name, pc, cond, where, kind
        self.sinks = []
        self.loop_specs = {}        # (func qualname, loop ordinal) -> dict(invariants=[...], modifies=[...])
        self.func_stack = []        # FuncSrc being executed (inlining stack)
        self.max_depth = 12
        self.max_paths = 4000
        self.stats = {"feas_checks": 0, "paths": 0, "forks": 0}
        self.spec_mode = 0
        self.entry_state = None
        self.result_value = None
        self.suspend_hook = None
        self.yield_hooks = []
        self.extra_names = {}       # names visible in spec expressions (ghost helpers)
        self.feas_timeout = 400
        self.no_prune = 0
        self._ground_cache = {}
        self.accessed_param_keys = set()
        self.accessed_key_terms = []
        self.numeric_param_keys = set()
        self.bound_stack = []       # z3 constants currently bound by an enclosing quantifier / comprehension
        self.loop_counter = {}
        self.current_file = None

    # ------------------------------------------------------------------ helpers
    def field_kind(self, cls, field):
        seen = set()
        todo = [cls]
        while todo:
            c = todo.pop(0)
            if c in seen or c not in self.schema:
                continue
            seen.add(c)
            sc = self.schema[c]
            if field in sc.get("fields", {}):
                return c, sc["fields"][field]
            todo += sc.get("bases", [])
        return None, None

    def schema_lookup(self, cls, section, name):
        seen = set()
        todo = [cls]
        while todo:
            c = todo.pop(0)
            if c in seen:
                continue
            seen.add(c)
            sc = self.schema.get(c, {})
            if name in sc.get(section, {}):
                return sc[section][name]
            todo += sc.get("bases", [])
            info = self.index.classes.get(c)
            if info:
                todo += [b.split(".")[-1] for b in info["bases"]]
        return None

    def heap_array(self, st, owner, field, kind):
        key = f"{owner}.{field}"
        if key not in st.heap:
            st.heap[key] = z3.Const(f"H0_{key}", z3.ArraySort(RefSort, kind.sort()))
        return st.heap[key]

    def mentions_fresh(self, st, term):
        """Ids of not yet escaped fresh references occurring in a term."""
        if not st.local_fields:
            return []
        found, seen, todo = [], set(), [term]
        while todo:
            x = todo.pop()
            if x.get_id() in seen:
                continue
            seen.add(x.get_id())
            if x.get_id() in st.local_fields:
                found.append(x.get_id())
            todo.extend(x.children())
        return found

    def escape(self, st, rid):
        """A fresh object becomes reachable from the heap: move its fields into the heap arrays."""
        fields = st.local_fields.pop(rid, None)
        if not fields:
            return
        r = st.fresh_terms[rid]
        for key, term in fields.items():
            owner, field = key.split(".")
            _, kind = self.field_kind(owner, field)
            arr = self.heap_array(st, owner, field, kind)
            st.heap[key] = z3.Store(arr, r, term)
            for sub in self.mentions_fresh(st, term):
                self.escape(st, sub)

    def read_field(self, st, ref, owner, field, kind):
        loc = st.local_fields.get(ref.term.get_id())
        if loc is not None:
            key = f"{owner}.{field}"
            if key in loc:
                return V(kind, loc[key])
            # field of a fresh object that was never written: arbitrary but fixed value
            loc[key] = z3.Const(fresh_name(f"init_{field}"), kind.sort())
            return V(kind, loc[key])
        arr = self.heap_array(st, owner, field, kind)
        # peephole: read of a location that was just written
        if z3.is_app(arr) and arr.decl().kind() == z3.Z3_OP_STORE and arr.arg(1).eq(ref.term):
            return V(kind, arr.arg(2))
        val = z3.Select(arr, ref.term)
        if isinstance(kind, Ref):
            # heap typing: a reference stored in the heap is null or an object that exists; for the initial heap
            # it existed initially (so it differs from every object allocated during the function)
            key = ("alloc-fact", val.get_id())
            if key not in st.memo and not self.bound_stack:
                st.memo[key] = True
                if self._pristine(f"{owner}.{field}", arr):
                    st.assume(z3.Or(val == NULL, z3.Select(z3.Const("alloc0", st.alloc.sort()), val)))
                else:
                    st.assume(z3.Or(val == NULL, z3.Select(st.alloc, val)))
        return V(kind, val)

    def write_field(self, st, ref, owner, field, kind, val):
        term = self.coerce(val, kind, st).term
        loc = st.local_fields.get(ref.term.get_id())
        if loc is not None:
            loc[f"{owner}.{field}"] = term
            return
        for rid in self.mentions_fresh(st, term):
            self.escape(st, rid)
        arr = self.heap_array(st, owner, field, kind)
        if z3.is_app(term) and term.decl().kind() == z3.Z3_OP_ITE:
            term = z3.simplify(term)
        # peepholes keep heap terms canonical (memoised getter results are keyed by the heap term):
        # overwrite of the location written last, and writing back the value a location already has
        if z3.is_app(arr) and arr.decl().kind() == z3.Z3_OP_STORE and arr.arg(1).eq(ref.term):
            arr = arr.arg(0)
        if z3.is_app(term) and term.decl().kind() == z3.Z3_OP_SELECT and term.arg(0).eq(arr) and term.arg(1).eq(ref.term):
            st.heap[f"{owner}.{field}"] = arr
        else:
            st.heap[f"{owner}.{field}"] = z3.Store(arr, ref.term, term)
        if ref.term.get_id() not in st.fresh_refs:
            st.writes.add(f"{owner}.{field}")

    def new_object(self, st, cls, base="obj"):
        r = z3.Const(fresh_name(base), RefSort)
        st.assume(r != NULL)
        st.assume(z3.Not(z3.Select(st.alloc, r)))
        st.alloc = z3.Store(st.alloc, r, z3.BoolVal(True))
        st.fresh_refs = st.fresh_refs | {r.get_id()}
        st.local_fields[r.get_id()] = {}
        st.fresh_terms[r.get_id()] = r
        return V(Ref(cls), r)

    def escape_value(self, st, v):
        """Objects put into an SMT collection become reachable through terms other than their own constant."""
        if st is None or not st.local_fields:
            return
        if isinstance(v, V):
            for rid in self.mentions_fresh(st, v.term):
                self.escape(st, rid)
        elif isinstance(v, (VList, VTuple)):
            for x in v.items:
                self.escape_value(st, x)

    def coerce(self, val, kind, st=None):
        """Convert a value to a given SMT kind."""
        if isinstance(val, (VList, VTuple)) and isinstance(kind, (Seq, SetK)):
            self.escape_value(st, val)
        if isinstance(val, V):
            if val.kind == kind:
                return val
            if isinstance(kind, Ref) and isinstance(val.kind, Ref):
                return V(kind, val.term)
            if kind == REAL and val.kind == INT:
                return V(REAL, z3.ToReal(val.term))
            if isinstance(kind, Opt):
                if val.kind == kind.base:
                    return V(kind, kind.sort().some(val.term))
            if isinstance(val.kind, Opt) and val.kind.base == kind:
                return V(kind, val.kind.sort().get(val.term))
            if isinstance(kind, SetK) and isinstance(val.kind, SetK):
                return V(kind, val.term)
            if isinstance(kind, Seq) and isinstance(val.kind, Seq):
                return V(kind, val.term)
            if val.kind.sort() == kind.sort():
                return V(kind, val.term)
        if isinstance(val, VNone):
            if isinstance(kind, Ref):
                return V(kind, NULL)
            if isinstance(kind, Opt):
                return V(kind, kind.sort().none)
        if type(val).__name__ == "VEmptySet" and isinstance(kind, SetK):
            return V(kind, z3.EmptySet(kind.elem.sort()))
        if isinstance(val, VDict) and isinstance(kind, Map):
            t = kind.mk(z3.K(kind.key.sort(), z3.BoolVal(False)),
                        z3.Const(fresh_name("emptyval"), z3.ArraySort(kind.key.sort(), kind.val.sort())),
                        Seq(kind.key).empty())
            for k, v in val.items.items():
                if isinstance(k, tuple):
                    k, v = v
                else:
                    k = const(k)
                t = self.models.map_store(kind, t, self.coerce(k, kind.key, st).term, self.coerce(v, kind.val, st).term)
            return V(kind, t)
        if isinstance(val, (VList, VTuple)) and isinstance(kind, Seq):
            terms = [self.coerce(x, kind.elem, st).term for x in val.items]
            new = kind.from_terms(terms)
            if st is not None:
                mkey = ("literal", repr(kind), tuple(t.get_id() for t in terms))
                if mkey in st.memo:
                    return st.memo[mkey]
                c = z3.Const(f"lst!{abs(hash(mkey)) % (10 ** 12)}", kind.sort())
                st.assume(c == new)
                new = c
                st.assume(kind.lemma_literal(new, terms))
                st.memo[mkey] = V(kind, new)
            return V(kind, new)
        if isinstance(val, (VList, VTuple)) and isinstance(kind, SetK):
            terms = [self.coerce(x, kind.elem, st).term for x in val.items]
            if st is None:
                t = z3.EmptySet(kind.elem.sort())
                for x in terms:
                    t = z3.SetAdd(t, x)
                return V(kind, t)
            mkey = ("setliteral", repr(kind), tuple(t.get_id() for t in terms))
            if mkey not in st.memo:
                st.memo[mkey] = V(kind, kind.literal(st, terms))
            return st.memo[mkey]
        raise Untranslatable(f"cannot coerce {val!r} to {kind!r}")

    def to_smt(self, val, st=None):
        """Best-effort conversion of python-level lists to SMT sequences."""
        if isinstance(val, V):
            return val
        if isinstance(val, (VList, VTuple)) and val.items and all(isinstance(x, V) for x in val.items):
            k = val.items[0].kind
            if all(x.kind == k or (isinstance(k, Ref) and isinstance(x.kind, Ref)) for x in val.items):
                return self.coerce(val, Seq(k), st)
        return val

    # ------------------------------------------------------------------ solver
    def check(self, constraints, timeout=None):
        s = z3.Solver()
        # nominal milliseconds enforced by z3's deterministic resource counter (see contract._solve)
        budget = timeout or self.feas_timeout
        s.set("timeout", int(budget * 30))
        s.set("rlimit", int(budget * RLIMIT_PER_MS))
        for c in constraints:
            s.add(c)
        self.stats["feas_checks"] += 1
        return s.check()

    def is_ground(self, e):
        key = e.get_id()
        r = self._ground_cache.get(key)
        if r is None:
            r = True
            seen, todo = set(), [e]
            while todo:
                x = todo.pop()
                if x.get_id() in seen:
                    continue
                seen.add(x.get_id())
                if z3.is_quantifier(x):
                    r = False
                    break
                todo.extend(x.children())
            self._ground_cache[key] = r
        return r

    def feasible(self, st, cond=None):
        """Path feasibility on the quantifier-free part of the path condition (over-approximation:
        a path kept alive here is still subject to the full hypotheses when obligations are discharged)."""
        cs = [c for c in st.pc if self.is_ground(c)]
        if cond is not None:
            c = z3.simplify(cond)
            if z3.is_false(c):
                return False
            if z3.is_true(c):
                return True
            if self.is_ground(c):
                cs.append(c)
        r = self.check(cs)
        return r != z3.unsat

    def fork(self, st, cond, label=""):
        """Yield (state, bool) for the feasible outcomes of a symbolic condition."""
        c = z3.simplify(cond)
        if z3.is_true(c):
            yield st, True
            return
        if z3.is_false(c):
            yield st, False
            return
        if self.no_prune:
            t_ok = f_ok = True
        else:
            t_ok = self.feasible(st, c)
            f_ok = self.feasible(st, z3.Not(c)) if t_ok else True
        if t_ok and f_ok:
            if not self.no_prune:
                self.stats["forks"] += 1
                if self.stats["forks"] > self.max_paths:
                    raise Untranslatable("path limit exceeded")
            st2 = st.copy()
            st.guard(c)
            st.trace.append(f"{label}:T")
            yield st, True
            st2.guard(z3.Not(c))
            st2.trace.append(f"{label}:F")
            yield st2, False
        elif t_ok:
            st.guard(c)
            yield st, True
        elif f_ok:
            st.guard(z3.Not(c))
            yield st, False
        # both infeasible: dead path

    def oblige(self, st, name, cond, node=None, kind="assert"):
        """Record a proof obligation pc => cond and continue under cond."""
        c = cond if not isinstance(cond, bool) else z3.BoolVal(cond)
        self.obligations.append({
            "name": name, "pc": list(st.pc), "cond": c, "kind": kind,
            "line": getattr(node, "lineno", None), "trace": list(st.trace),
            "func": self.func_stack[-1].qualname if self.func_stack else None,
            "state": st.copy(),
        })
        st.assume(c)

    def raise_exc(self, st, cls, node=None, args=()):
        if not self.sinks:
            raise SpecError(f"exception {cls} outside any sink")
        where = f"{self.func_stack[-1].qualname if self.func_stack else '?'}:{getattr(node, 'lineno', '?')}"
        self.sinks[-1].append((st, VExc(cls, args, where)))

    # ------------------------------------------------------------------ truth / equality
    def truth(self, v, st=None):
        if isinstance(v, V):
            k = v.kind
            if k == BOOL:
                return v.term
            if k == INT:
                return v.term != 0
            if k == REAL:
                return v.term != 0
            if k == STR:
                return z3.Length(v.term) > 0
            if isinstance(k, Ref):
                return v.term != NULL
            if isinstance(k, Seq):
                return k.len(v.term) > 0
            if isinstance(k, SetK):
                return v.term != z3.EmptySet(k.elem.sort())
            if isinstance(k, Map):
                return Seq(k.key).len(k.keys(v.term)) > 0
            if isinstance(k, Opt):
                inner = V(k.base, k.sort().get(v.term))
                return z3.And(k.sort().is_some(v.term), self.truth(inner, st))
        if isinstance(v, VNone):
            return z3.BoolVal(False)
        if type(v).__name__ == "VEmptySet":
            return z3.BoolVal(False)
        if isinstance(v, (VTuple, VList)):
            return z3.BoolVal(len(v.items) > 0)
        if isinstance(v, VDict):
            return z3.BoolVal(len(v.items) > 0)
        if isinstance(v, (VFunc, VClass, VModule, VExc)):
            return z3.BoolVal(True)
        raise Untranslatable(f"truth value of {v!r}")

    def eq(self, a, b, st=None):
        if type(a).__name__ == "VEmptySet":
            a, b = b, a
        if type(b).__name__ == "VEmptySet":
            if type(a).__name__ == "VEmptySet":
                return z3.BoolVal(True)
            if isinstance(a, V) and isinstance(a.kind, SetK):
                return a.term == z3.EmptySet(a.kind.elem.sort())
            return z3.BoolVal(False)
        if isinstance(a, VNone) and isinstance(b, VNone):
            return z3.BoolVal(True)
        if isinstance(a, VNone):
            a, b = b, a
        if isinstance(b, VNone):
            if isinstance(a, V) and isinstance(a.kind, Ref):
                return a.term == NULL
            if isinstance(a, V) and isinstance(a.kind, Opt):
                return a.kind.sort().is_none(a.term)
            return z3.BoolVal(False)
        if isinstance(a, V) and isinstance(b, V):
            if isinstance(a.kind, Opt) and not isinstance(b.kind, Opt):
                return z3.And(a.kind.sort().is_some(a.term), a.kind.sort().get(a.term) == self.coerce(b, a.kind.base).term)
            if isinstance(b.kind, Opt) and not isinstance(a.kind, Opt):
                return self.eq(b, a, st)
            if a.kind == REAL and b.kind == INT:
                return a.term == z3.ToReal(b.term)
            if a.kind == INT and b.kind == REAL:
                return z3.ToReal(a.term) == b.term
            if isinstance(a.kind, Seq) and isinstance(b.kind, Seq) and a.term.sort() == b.term.sort():
                if a.term.eq(b.term):
                    return z3.BoolVal(True)
                return a.kind.equal(a.term, b.term)
            if a.term.sort() == b.term.sort():
                return a.term == b.term
            if a.kind == BOOL and b.kind == INT:
                return z3.If(a.term, 1, 0) == b.term
            if a.kind == INT and b.kind == BOOL:
                return a.term == z3.If(b.term, 1, 0)
            return z3.BoolVal(False)
        if isinstance(a, (VTuple, VList)) and isinstance(b, (VTuple, VList)):
            if type(a) is not type(b) or len(a.items) != len(b.items):
                return z3.BoolVal(False)
            return z3.And([self.eq(x, y, st) for x, y in zip(a.items, b.items)] or [z3.BoolVal(True)])
        if isinstance(a, (VList, VTuple)) and isinstance(b, V) and isinstance(b.kind, Seq):
            a, b = b, a
        if isinstance(a, V) and isinstance(a.kind, Seq) and isinstance(b, (VList, VTuple)):
            conj = [a.kind.len(a.term) == len(b.items)]
            for i, x in enumerate(b.items):
                conj.append(self.eq(V(a.kind.elem, a.kind.at(a.term, i)), x, st))
            return z3.And(conj)
        if isinstance(a, V) and isinstance(a.kind, SetK) and isinstance(b, (VList, VTuple)):
            return a.term == self.coerce(b, a.kind, st).term
        if isinstance(a, VClass) and isinstance(b, VClass):
            return z3.BoolVal(a.name == b.name)
        if isinstance(a, VFunc) and isinstance(b, VFunc):
            return z3.BoolVal(a is b)
        if type(a) is not type(b):
            return z3.BoolVal(False)
        raise Untranslatable(f"equality of {a!r} and {b!r}")

    # ------------------------------------------------------------------ names
    def lookup(self, name, st, node=None):
        frame = st.frames[-1]
        while frame is not None:
            if name in frame:
                return frame[name]
            frame = frame.get("__closure__")
        if name in self.extra_names:
            return self.extra_names[name]
        g = self.models.global_name(self, name, st, node)
        if g is not None:
            return g
        raise Untranslatable(f"unknown name {name}", node)

    # ------------------------------------------------------------------ expressions
    MERGE_AT = (ast.Compare, ast.BoolOp, ast.IfExp, ast.Call, ast.UnaryOp)

    def ev(self, e, st):
        """Generator of (state, value) for the normal outcomes of evaluating e."""
        m = getattr(self, "ev_" + type(e).__name__, None)
        if m is None:
            raise Untranslatable(f"expression {type(e).__name__}", e)
        if isinstance(e, self.MERGE_AT) and not self.no_prune:
            base = len(st.pc)
            outs = list(m(e, st))
            if len(outs) > 1:
                outs = self.try_merge(base, outs)
            yield from outs
            return
        yield from m(e, st)

    def ev_Constant(self, e, st):
        if e.value is Ellipsis:
            raise Untranslatable("ellipsis", e)
        if isinstance(e.value, bytes):
            yield st, fresh(STR, "bytes")
            return
        yield st, const(e.value)

    def ev_Name(self, e, st):
        yield st, self.lookup(e.id, st, e)

    def ev_JoinedStr(self, e, st):
        def rec(i, st, acc):
            if i == len(e.values):
                yield st, acc
                return
            part = e.values[i]
            if isinstance(part, ast.Constant):
                yield from rec(i + 1, st, acc + [z3.StringVal(part.value)])
            else:
                for st1, v in self.ev(part.value, st):
                    if part.format_spec is not None or part.conversion not in (-1, 115):
                        t = fresh(STR, "fmt").term
                    else:
                        t = self.to_str(v, st1).term
                    yield from rec(i + 1, st1, acc + [t])
        for st1, parts in rec(0, st, []):
            if not parts:
                yield st1, const("")
            elif len(parts) == 1:
                yield st1, V(STR, parts[0])
            else:
                yield st1, V(STR, z3.Concat(*parts))

    def to_str(self, v, st):
        if isinstance(v, V):
            if v.kind == STR:
                return v
            if v.kind == INT:
                n = v.term
                return V(STR, z3.If(n < 0, z3.Concat(z3.StringVal("-"), z3.IntToStr(-n)), z3.IntToStr(n)))
            if isinstance(v.kind, Ref):
                f = z3.Function("repr_of", RefSort, z3.StringSort())
                return V(STR, f(v.term))
            if v.kind == BOOL:
                return V(STR, z3.If(v.term, z3.StringVal("True"), z3.StringVal("False")))
        if isinstance(v, VNone):
            return const("None")
        return fresh(STR, "repr")

    def ev_FormattedValue(self, e, st):
        for st1, v in self.ev(e.value, st):
            yield st1, self.to_str(v, st1)

    def ev_Tuple(self, e, st):
        for st1, items in self.ev_list(e.elts, st):
            yield st1, VTuple(items)

    def ev_List(self, e, st):
        for st1, items in self.ev_list(e.elts, st):
            yield st1, VList(items)

    def ev_Set(self, e, st):
        for st1, items in self.ev_list(e.elts, st):
            # {*a, *b} or {x, y}
            flat = []
            sets = []
            for it in items:
                if isinstance(it, tuple) and it[0] == "star":
                    sets.append(it[1])
                else:
                    flat.append(it)
            kind = None
            from .models import VEmptySet as _VE
            sets = [s for s in sets if not ((isinstance(s, (VList, VTuple)) and not s.items) or isinstance(s, _VE))]
            for s in sets:
                s2 = self.as_set(s, st1)
                kind = s2.kind
            if kind is None:
                if not flat:
                    from .models import VEmptySet
                    yield st1, VEmptySet()
                    continue
                kind = SetK(flat[0].kind)
            t = None
            for s in sets:
                sv = self.as_set(s, st1).term
                t = sv if t is None else kind.union(st1, t, sv)
            if flat:
                lit = kind.literal(st1, [self.coerce(x, kind.elem, st1).term for x in flat])
                t = lit if t is None else kind.union(st1, t, lit)
            yield st1, V(kind, t)

    def ev_Dict(self, e, st):
        if not e.keys:
            yield st, VDict({})
            return
        def rec(i, st, acc):
            if i == len(e.keys):
                yield st, acc
                return
            if e.keys[i] is None:
                for st1, v in self.ev(e.values[i], st):
                    if isinstance(v, VDict):
                        yield from rec(i + 1, st1, {**acc, **v.items})
                    else:
                        raise Untranslatable("dict unpacking of symbolic map", e)
                return
            for st1, k in self.ev(e.keys[i], st):
                for st2, v in self.ev(e.values[i], st1):
                    ok, kc = concrete(k)
                    if ok:
                        yield from rec(i + 1, st2, {**acc, kc: v})
                    else:
                        yield from rec(i + 1, st2, {**acc, ("sym", len(acc)): (k, v)})
        for st1, items in rec(0, st, {}):
            hook = getattr(self, "dict_literal_hook", None)
            cls = hook(items) if hook else None
            if cls is not None:
                obj = self.new_object(st1, cls, cls.lower())
                h = self.schema_lookup(cls, "methods", "__setitem__")
                for k, v in items.items():
                    for _ in h(self, st1, obj, [const(k), v], {}, e):
                        pass
                yield st1, obj
            else:
                yield st1, VDict(items)

    def ev_Starred(self, e, st):
        for st1, v in self.ev(e.value, st):
            yield st1, ("star", v)

    def ev_list(self, exprs, st, i=0, acc=None):
        acc = acc or []
        if i == len(exprs):
            yield st, acc
            return
        for st1, v in self.ev(exprs[i], st):
            yield from self.ev_list(exprs, st1, i + 1, acc + [v])

    def as_set(self, v, st):
        if isinstance(v, V):
            if isinstance(v.kind, SetK):
                return v
            if isinstance(v.kind, Seq):
                return self.models.seq_to_set(self, v, st)
            if isinstance(v.kind, Map):
                return V(SetK(v.kind.key), v.kind.dom(v.term))
        from .models import VIter
        if isinstance(v, VIter) and v.how == "mapkeys":
            m = v.parts[0]
            return V(SetK(m.kind.key), m.kind.dom(m.term))
        if isinstance(v, (VList, VTuple)):
            if not v.items:
                raise Untranslatable("set of empty python list (element kind unknown)")
            return self.coerce(v, SetK(v.items[0].kind), st)
        raise Untranslatable(f"cannot view {v!r} as a set")

    def ev_BoolOp(self, e, st):
        is_and = isinstance(e.op, ast.And)
        if self.no_prune:
            # pure (spec) evaluation: merge every operand instead of forking (keeps formulas linear in size)
            vals, truths = [], []
            cur = st
            for operand in e.values:
                v = self.ev_merged(operand, cur)
                t = self.truth(v, cur)
                vals.append(v)
                truths.append(t)
                nxt = cur.copy()
                nxt.guard(t if is_and else z3.Not(t))
                # facts established while evaluating the operand stay valid
                for c in cur.pc[len(st.pc):]:
                    if c.get_id() in cur.facts and c.get_id() not in st.facts:
                        st.assume(c)
                cur = nxt
            if all(isinstance(v, V) and v.kind == BOOL for v in vals):
                yield st, V(BOOL, z3.And(truths) if is_and else z3.Or(truths))
                return
            # value semantics: `a or b` is a if a is truthy else b
            seqk = [v.kind for v in vals if isinstance(v, V) and isinstance(v.kind, Seq)]
            if seqk:
                vals = [self.coerce(v, seqk[0], st) if isinstance(v, (VList, VTuple)) else v for v in vals]
            if not all(isinstance(v, V) for v in vals) or any(v.term.sort() != vals[0].term.sort() for v in vals):
                yield st, V(BOOL, z3.And(truths) if is_and else z3.Or(truths))
                return
            # guards: operand i is the value iff all earlier ones did not decide and it decides (or it is last)
            gs, prev = [], []
            for i, t in enumerate(truths):
                decide = z3.Not(t) if is_and else t
                if i == len(truths) - 1:
                    gs.append(z3.And(prev) if prev else z3.BoolVal(True))
                else:
                    gs.append(z3.And(prev + [decide]))
                    prev.append(z3.Not(decide))
            yield st, self.ite_value(st, gs, vals)
            return

        def rec(i, st):
            for st1, v in self.ev(e.values[i], st):
                if i == len(e.values) - 1:
                    yield st1, v
                    continue
                t = self.truth(v, st1)
                for st2, b in self.fork(st1, t, f"boolop@{e.lineno}"):
                    if b == is_and:
                        yield from rec(i + 1, st2)
                    else:
                        yield st2, v
        yield from rec(0, st)

    def ev_UnaryOp(self, e, st):
        for st1, v in self.ev(e.operand, st):
            if isinstance(e.op, ast.Not):
                yield st1, V(BOOL, z3.Not(self.truth(v, st1)))
            elif isinstance(e.op, ast.USub):
                yield st1, V(v.kind, -v.term)
            elif isinstance(e.op, ast.UAdd):
                yield st1, v
            else:
                raise Untranslatable("unary op", e)

    def ev_IfExp(self, e, st):
        for st1, c in self.ev(e.test, st):
            for st2, b in self.fork(st1, self.truth(c, st1), f"ifexp@{e.lineno}"):
                yield from self.ev(e.body if b else e.orelse, st2)

    def ev_BinOp(self, e, st):
        for st1, a in self.ev(e.left, st):
            for st2, b in self.ev(e.right, st1):
                yield from self.models.binop(self, e.op, a, b, st2, e)

    def ev_Compare(self, e, st):
        def rec(i, st, left, acc):
            if i == len(e.ops):
                yield st, V(BOOL, z3.And(acc) if len(acc) > 1 else acc[0])
                return
            for st1, right in self.ev(e.comparators[i], st):
                for st2, t in self.models.compare(self, e.ops[i], left, right, st1, e):
                    yield from rec(i + 1, st2, right, acc + [t])
        for st1, left in self.ev(e.left, st):
            yield from rec(0, st1, left, [])

    def ev_Attribute(self, e, st):
        for st1, obj in self.ev(e.value, st):
            yield from self.get_attr(obj, e.attr, st1, e)

    def get_attr(self, obj, attr, st, node=None):
        if isinstance(obj, V) and isinstance(obj.kind, Ref):
            cls = obj.kind.cls
            # schema property / method handlers first
            h = self.schema_lookup(cls, "props", attr)
            if h is not None:
                yield from self.nonnull(obj, st, node, lambda st2: h(self, st2, obj, node))
                return
            owner, kind = self.field_kind(cls, attr)
            if kind is not None:
                def rd(st2):
                    if kind.smt:
                        yield st2, self.read_field(st2, obj, owner, attr, kind)
                    elif (f"{owner}.{attr}", obj.term.get_id()) in st2.pyheap:
                        yield st2, st2.pyheap[(f"{owner}.{attr}", obj.term.get_id())]
                    elif self.index.method(cls, attr) is not None or f"{cls}.{attr}" in self.overrides:
                        yield st2, VFunc("bound", recv=obj, name=attr, cls=cls)     # method not overridden on the instance
                    else:
                        yield st2, self.read_pyfield(st2, obj, owner, attr, kind)
                yield from self.nonnull(obj, st, node, rd)
                return
            fs = self.index.method(cls, attr)
            if fs is not None and fs.is_property and f"{cls}.{attr}" not in self.overrides:
                yield from self.nonnull(obj, st, node, lambda st2: self.inline(fs, [obj], {}, st2, node))
                return
            if (fs is None and self.schema.get(cls, {}).get("open_fields") and f"{cls}.{attr}" not in self.overrides
                    and self.schema_lookup(cls, "methods", attr) is None):
                # a field the schema does not know: whatever was written on this path, else None or some opaque string
                key = (f"{cls}.{attr}", obj.term.get_id())
                if key in st.pyheap:
                    yield st, st.pyheap[key]
                    return
                unset = fresh(BOOL, f"{attr}.is_none")
                for st1, isnone in self.fork(st, unset.term, f"open-field@{getattr(node, 'lineno', '?')}"):
                    val = NONE if isnone else fresh(STR, attr)
                    st1.pyheap[key] = val
                    yield st1, val
                return
            if f"{cls}.{attr}" in self.overrides and ((fs is None and self.schema_lookup(cls, "methods", attr) is None)
                                                      or (fs is not None and fs.is_property)):
                yield from self.nonnull(obj, st, node, lambda st2: self.overrides[f"{cls}.{attr}"](self, st2, obj, [], {}, node))
                return
            yield st, VFunc("bound", recv=obj, name=attr, cls=cls)
            return
        if isinstance(obj, VModule):
            yield st, self.models.module_attr(self, obj, attr, st, node)
            return
        if isinstance(obj, VFunc) and obj.how == "super":
            info = self.index.classes.get(obj.cls)
            for base in ([b.split(".")[-1] for b in info["bases"]] if info else []):
                fsm = self.index.method(base, attr)
                if fsm is None:
                    continue
                key = fsm.qualname
                recv = obj.recv
                if key in self.overrides:
                    h = self.overrides[key]
                    yield st, VFunc("handler", fn=lambda e, s, a, k, n: h(e, s, recv, a, k, n), name=key)
                elif fsm.is_staticmethod:
                    yield st, VFunc("repo", fs=fsm, name=key)
                else:
                    yield st, VFunc("handler", fn=lambda e, s, a, k, n: e.inline(fsm, [recv] + a, k, s, n), name=key)
                return
            raise Untranslatable(f"super().{attr} of {obj.cls}", node)
        if isinstance(obj, VClass):
            yield from self.models.class_attr(self, obj, attr, st, node)
            return
        if isinstance(obj, VExc):
            if attr == "output":
                yield st, obj.args[0] if obj.args else fresh(STR, "excout")
                return
            if attr == "errno":
                yield st, obj.args[0] if obj.args else fresh(INT, "errno")
                return
        if isinstance(obj, VNone):
            self.raise_exc(st, "AttributeError", node)
            return
        yield st, VFunc("bound", recv=obj, name=attr, cls=None)

    def read_pyfield(self, st, obj, owner, field, kind):
        key = (f"{owner}.{field}", obj.term.get_id())
        if key in st.pyheap:
            return st.pyheap[key]
        dflt = self.schema_lookup(owner, "pydefaults", field)
        if dflt is None:
            raise Untranslatable(f"python-level field {owner}.{field} without default")
        return dflt(self, st, obj)

    def nonnull(self, obj, st, node, cont):
        if self.no_prune:
            # pure (spec) evaluation: heap arrays are total, dereferencing is not forked
            yield from cont(st)
            return
        for st1, ok in self.fork(st, obj.term != NULL, f"nonnull@{getattr(node, 'lineno', '?')}"):
            if ok:
                yield from cont(st1)
            else:
                self.raise_exc(st1, "AttributeError", node)

    def ev_Subscript(self, e, st):
        for st1, obj in self.ev(e.value, st):
            if isinstance(e.slice, ast.Slice):
                def part(x, st):
                    if x is None:
                        yield st, None
                    else:
                        yield from self.ev(x, st)
                for st2, lo in part(e.slice.lower, st1):
                    for st3, hi in part(e.slice.upper, st2):
                        if e.slice.step is not None:
                            raise Untranslatable("slice step", e)
                        yield from self.models.slice(self, obj, lo, hi, st3, e)
            else:
                for st2, idx in self.ev(e.slice, st1):
                    yield from self.models.getitem(self, obj, idx, st2, e)

    def ev_Lambda(self, e, st):
        yield st, VFunc("lambda", node=e, closure=st.frames[-1], name="<lambda>")

    def ev_Await(self, e, st):
        # `await f(...)` on a repo coroutine is a call; anything else is a suspension point (handled by models)
        yield from self.ev(e.value, st)

    def ev_NamedExpr(self, e, st):
        for st1, v in self.ev(e.value, st):
            st1.locals[e.target.id] = v
            yield st1, v

    def ev_ListComp(self, e, st):
        yield from self.models.comprehension(self, e, st, "list")

    def ev_SetComp(self, e, st):
        yield from self.models.comprehension(self, e, st, "set")

    def ev_GeneratorExp(self, e, st):
        yield from self.models.comprehension(self, e, st, "gen")

    def ev_DictComp(self, e, st):
        yield from self.models.comprehension(self, e, st, "dict")

    # ------------------------------------------------------------------ calls
    def ev_Call(self, e, st):
        # spec builtins
        if isinstance(e.func, ast.Name) and e.func.id in self.models.spec_builtins and e.func.id not in st.locals:
            yield from self.models.spec_builtins[e.func.id](self, e, st)
            return
        # logging: evaluate arguments (they may raise), drop the effect
        if self.models.is_logging_call(e):
            for st1, _ in self.ev_list([a for a in e.args], st):
                for st2, _ in self.ev_list([k.value for k in e.keywords], st1):
                    yield st2, NONE
            return
        # super() inside a method: a proxy that resolves attributes from the bases of the defining class
        if isinstance(e.func, ast.Name) and e.func.id == "super" and not e.args and "super" not in st.locals:
            fs = self.func_stack[-1]
            first = fs.node.args.args[0].arg if fs.node.args.args else None
            if fs.cls is None or first is None:
                raise Untranslatable("super() outside a method", e)
            yield st, VFunc("super", cls=fs.cls, recv=st.locals[first], name="super")
            return
        for st1, f in self.ev_callee(e.func, st):
            for st2, args in self.ev_list(e.args, st1):
                flat = []
                for a in args:
                    if isinstance(a, tuple) and a[0] == "star":
                        if isinstance(a[1], (VList, VTuple)):
                            flat += a[1].items
                        else:
                            raise Untranslatable("star-args of symbolic sequence", e)
                    else:
                        flat.append(a)
                for st3, kwvals in self.ev_list([k.value for k in e.keywords], st2):
                    kwargs = {}
                    for k, v in zip(e.keywords, kwvals):
                        if k.arg is None:
                            if isinstance(v, VDict):
                                kwargs.update(v.items)
                            else:
                                raise Untranslatable("**kwargs of symbolic map", e)
                        else:
                            kwargs[k.arg] = v
                    yield from self.call(f, flat, kwargs, st3, e)

    def ev_callee(self, f, st):
        yield from self.ev(f, st)

    def call(self, f, args, kwargs, st, node=None):
        if isinstance(f, VFunc):
            if f.how == "handler":
                yield from f.fn(self, st, args, kwargs, node)
                return
            if f.how == "lambda":
                yield from self.call_lambda(f, args, kwargs, st, node)
                return
            if f.how == "repo":
                key = f.fs.qualname
                if key in self.overrides:
                    yield from self.overrides[key](self, st, None, args, kwargs, node)
                    return
                yield from self.inline(f.fs, args, kwargs, st, node)
                return
            if f.how == "bound":
                yield from self.call_method(f.recv, f.name, args, kwargs, st, node)
                return
            if f.how == "closure":
                # nested function: executed in a new frame that sees the defining frame's names
                yield from self.inline(f.fs, args, kwargs, st, node, closure=f.closure)
                return
        if isinstance(f, VClass):
            yield from self.models.construct(self, f, args, kwargs, st, node)
            return
        raise Untranslatable(f"call of {f!r}", node)

    def call_lambda(self, f, args, kwargs, st, node):
        lam = f.node
        frame = {"__closure__": f.closure}
        names = [a.arg for a in lam.args.args]
        for n, a in zip(names, args):
            frame[n] = a
        for n in names[len(args):]:
            if n in kwargs:
                frame[n] = kwargs[n]
        for st1, v in self.run_in_frame(st, frame, lambda: self.ev(lam.body, st)):
            yield st1, v

    def run_in_frame(self, st, frame, thunk):
        """Run a generator of outcomes inside a new frame; pop the frame on every outcome."""
        st.frames.append(frame)
        sink = []
        self.sinks.append(sink)
        try:
            outs = list(thunk())
        finally:
            self.sinks.pop()
        for st1, exc in sink:
            st1.frames.pop()
            self.sinks[-1].append((st1, exc))
        for st1, v in outs:
            st1.frames.pop()
        return outs

    def call_method(self, recv, name, args, kwargs, st, node):
        if isinstance(recv, V) and isinstance(recv.kind, Ref):
            cls = recv.kind.cls
            key = f"{cls}.{name}"
            if key in self.overrides:
                yield from self.nonnull(recv, st, node, lambda st2: self.overrides[key](self, st2, recv, args, kwargs, node))
                return
            h = self.schema_lookup(cls, "methods", name)
            if h is not None:
                yield from self.nonnull(recv, st, node, lambda st2: h(self, st2, recv, args, kwargs, node))
                return
            owner0, kind0 = self.field_kind(cls, name)
            if kind0 is not None and not kind0.smt and (f"{owner0}.{name}", recv.term.get_id()) in st.pyheap:
                yield from self.call(st.pyheap[(f"{owner0}.{name}", recv.term.get_id())], args, kwargs, st, node)
                return
            fs = self.index.method(cls, name)
            if fs is not None:
                okey = fs.qualname
                if okey in self.overrides:
                    yield from self.nonnull(recv, st, node, lambda st2: self.overrides[okey](self, st2, recv, args, kwargs, node))
                    return
                if fs.is_staticmethod:
                    yield from self.inline(fs, args, kwargs, st, node)
                elif fs.is_classmethod:
                    yield from self.inline(fs, [VClass(cls)] + args, kwargs, st, node)
                else:
                    yield from self.nonnull(recv, st, node, lambda st2: self.inline(fs, [recv] + args, kwargs, st2, node))
                return
            # function-valued python-level field
            owner, kind = self.field_kind(cls, name)
            if kind is not None and not kind.smt:
                fv = self.read_pyfield(st, recv, owner, name, kind)
                yield from self.call(fv, args, kwargs, st, node)
                return
            raise Untranslatable(f"unknown method {cls}.{name}", node)
        yield from self.models.method(self, recv, name, args, kwargs, st, node)

    def inline(self, fs, args, kwargs, st, node=None, closure=None):
        """Execute a repository function body in a new frame."""
        if fs.is_generator:
            raise Untranslatable(f"generator {fs.qualname} called outside a supported context", node)
        if len(self.func_stack) > self.max_depth:
            raise Untranslatable(f"inlining depth exceeded at {fs.qualname}", node)
        frame = self.bind_args(fs, args, kwargs, st, node)
        if closure is not None:
            frame["__closure__"] = closure
        st.frames.append(frame)
        self.func_stack.append(fs)
        sink = []
        self.sinks.append(sink)
        try:
            outs = list(self.ex_block(fs.node.body, st))
        finally:
            self.sinks.pop()
            self.func_stack.pop()
        for st1, exc in sink:
            st1.frames.pop()
            self.sinks[-1].append((st1, exc))
        for st1, flow in outs:
            st1.frames.pop()
            if flow.kind == "return":
                yield st1, flow.value
            elif flow.kind == "normal":
                yield st1, NONE
            elif flow.kind == "outer":
                yield st1, ("outer", flow.value)
            else:
                raise Untranslatable(f"flow {flow.kind} escaping function {fs.qualname}")

    def bind_args(self, fs, args, kwargs, st, node=None):
        a = fs.node.args
        frame = {}
        names = [x.arg for x in a.posonlyargs + a.args]
        defaults = [None] * (len(names) - len(a.defaults)) + list(a.defaults)
        if len(args) > len(names) and a.vararg is None:
            raise Untranslatable(f"too many arguments for {fs.qualname}", node)
        for i, n in enumerate(names):
            if i < len(args):
                frame[n] = args[i]
            elif n in kwargs:
                frame[n] = kwargs[n]
            elif defaults[i] is not None:
                outs = list(self.ev(defaults[i], st))
                frame[n] = outs[0][1]
            else:
                raise Untranslatable(f"missing argument {n} for {fs.qualname}", node)
        if a.vararg is not None:
            frame[a.vararg.arg] = VTuple(args[len(names):])
        for k, d in zip(a.kwonlyargs, a.kw_defaults):
            if k.arg in kwargs:
                frame[k.arg] = kwargs[k.arg]
            elif d is not None:
                frame[k.arg] = list(self.ev(d, st))[0][1]
        if a.kwarg is not None:
            frame[a.kwarg.arg] = VDict({k: v for k, v in kwargs.items() if k not in names})
        frame["__func__"] = fs
        return frame

    # ------------------------------------------------------------------ statements
    def ex_block(self, stmts, st, i=0):
        """Generator of (state, Flow) for the non-exceptional outcomes of a statement list."""
        if i == len(stmts):
            yield st, NORMAL
            return
        s = stmts[i]
        # skip docstrings
        if isinstance(s, ast.Expr) and isinstance(s.value, ast.Constant) and isinstance(s.value.value, str):
            yield from self.ex_block(stmts, st, i + 1)
            return
        for st1, flow in self.ex(s, st):
            if flow.kind == "normal":
                yield from self.ex_block(stmts, st1, i + 1)
            else:
                yield st1, flow

    def ex(self, s, st):
        m = getattr(self, "ex_" + type(s).__name__, None)
        if m is None:
            raise Untranslatable(f"statement {type(s).__name__}", s)
        yield from m(s, st)

    def ex_Pass(self, s, st):
        yield st, NORMAL

    def ex_Global(self, s, st):
        yield st, NORMAL

    def ex_Nonlocal(self, s, st):
        raise Untranslatable("nonlocal", s)

    def ex_Import(self, s, st):
        for a in s.names:
            st.locals[(a.asname or a.name).split(".")[0]] = VModule(a.name if a.asname else a.name.split(".")[0])
        yield st, NORMAL

    def ex_ImportFrom(self, s, st):
        for a in s.names:
            v = self.models.import_from(self, s.module, a.name, s.level, st, s)
            st.locals[a.asname or a.name] = v
        yield st, NORMAL

    def ex_Expr(self, s, st):
        if isinstance(s.value, (ast.Yield, ast.YieldFrom)):
            yield from self.ex_yield(s.value, st)
            return
        for st1, v in self.ev(s.value, st):
            if isinstance(v, tuple) and v and v[0] == "outer":
                yield st1, Flow("outer", v[1])
            else:
                yield st1, NORMAL

    def ex_yield(self, y, st):
        if not self.yield_hooks:
            raise Untranslatable("yield outside a supported generator context", y)
        if isinstance(y, ast.YieldFrom):
            raise Untranslatable("yield from", y)
        def run(st1, v):
            hook = self.yield_hooks[-1]
            yield from hook(st1, v)
        if y.value is None:
            yield from run(st, NONE)
        else:
            for st1, v in self.ev(y.value, st):
                yield from run(st1, v)

    def ex_Assign(self, s, st):
        for st1, v in self.ev(s.value, st):
            if isinstance(v, tuple) and v and v[0] == "outer":
                yield st1, Flow("outer", v[1])
                continue
            def rec(i, st):
                if i == len(s.targets):
                    yield st, NORMAL
                    return
                for st2 in self.assign(s.targets[i], v, st):
                    yield from rec(i + 1, st2)
            yield from rec(0, st1)

    def ex_AnnAssign(self, s, st):
        if s.value is None:
            yield st, NORMAL
            return
        for st1, v in self.ev(s.value, st):
            for st2 in self.assign(s.target, v, st1):
                yield st2, NORMAL

    def ex_AugAssign(self, s, st):
        load = ast.copy_location(ast.BinOp(left=self.as_load(s.target), op=s.op, right=s.value), s)
        ast.fix_missing_locations(load)
        for st1, v in self.ev(load, st):
            for st2 in self.assign(s.target, v, st1):
                yield st2, NORMAL

    def as_load(self, t):
        import copy
        t2 = copy.deepcopy(t)
        for n in ast.walk(t2):
            if hasattr(n, "ctx"):
                n.ctx = ast.Load()
        return t2

    def assign(self, target, v, st):
        """Generator of states after assigning v to an lvalue."""
        if isinstance(target, ast.Name):
            st.locals[target.id] = v
            yield st
        elif isinstance(target, (ast.Tuple, ast.List)):
            items = self.models.unpack(self, v, len(target.elts), st, target)
            for st1, vals in items:
                def rec(i, st):
                    if i == len(target.elts):
                        yield st
                        return
                    for st2 in self.assign(target.elts[i], vals[i], st):
                        yield from rec(i + 1, st2)
                yield from rec(0, st1)
        elif isinstance(target, ast.Attribute):
            for st1, obj in self.ev(target.value, st):
                yield from self.set_attr(obj, target.attr, v, st1, target)
        elif isinstance(target, ast.Subscript) and isinstance(target.slice, ast.Slice):
            sl = target.slice
            if sl.lower is not None or sl.upper is not None or sl.step is not None:
                raise Untranslatable("partial slice assignment", target)
            # x[:] = v: the whole content of the list is replaced (lists are values of the store: same write-back as x[i] = v)
            for st1, obj in self.ev(target.value, st):
                is_list = isinstance(obj, VList) or (isinstance(obj, V) and isinstance(obj.kind, Seq))
                v_list = isinstance(v, VList) or (isinstance(v, V) and isinstance(v.kind, Seq))
                if not is_list or not v_list:
                    raise Untranslatable("slice assignment on a non-list", target)
                yield from self.assign(self.as_store(target.value), v, st1)
        elif isinstance(target, ast.Subscript):
            for st1, obj in self.ev(target.value, st):
                for st2, idx in self.ev(target.slice, st1):
                    for st3, newobj in self.models.setitem(self, obj, idx, v, st2, target):
                        if newobj is None:
                            yield st3   # in-place on a heap object
                        else:
                            yield from self.assign(self.as_store(target.value), newobj, st3)
        else:
            raise Untranslatable("assignment target", target)

    def as_store(self, t):
        return t

    def set_attr(self, obj, attr, v, st, node=None):
        if isinstance(obj, VModule):
            # attribute of a seam / library object (e.g. a logger): no effect the contracts can observe
            yield st
            return
        if isinstance(obj, V) and isinstance(obj.kind, Ref):
            cls = obj.kind.cls
            h = self.schema_lookup(cls, "setters", attr)
            if h is not None:
                for st1, ok in self.fork(st, obj.term != NULL, "nonnull-set"):
                    if ok:
                        yield from h(self, st1, obj, v, node)
                    else:
                        self.raise_exc(st1, "AttributeError", node)
                return
            owner, kind = self.field_kind(cls, attr)
            if kind is None:
                if self.schema.get(cls, {}).get("open_fields"):
                    # a field the schema does not know (e.g. a cache added by an edit): python-level, counted as a write
                    for st1, ok in self.fork(st, obj.term != NULL, "nonnull-set"):
                        if ok:
                            st1.pyheap[(f"{cls}.{attr}", obj.term.get_id())] = v
                            st1.writes.add(f"{cls}.{attr}")
                            yield st1
                        else:
                            self.raise_exc(st1, "AttributeError", node)
                    return
                raise Untranslatable(f"assignment to undeclared field {cls}.{attr}", node)
            for st1, ok in self.fork(st, obj.term != NULL, "nonnull-set"):
                if ok:
                    if kind.smt:
                        self.write_field(st1, obj, owner, attr, kind, v)
                    else:
                        st1.pyheap[(f"{owner}.{attr}", obj.term.get_id())] = v
                        st1.writes.add(f"{owner}.{attr}")
                    yield st1
                else:
                    self.raise_exc(st1, "AttributeError", node)
            return
        raise Untranslatable(f"attribute store on {obj!r}", node)

    def ex_Delete(self, s, st):
        def rec(i, st):
            if i == len(s.targets):
                yield st, NORMAL
                return
            t = s.targets[i]
            if isinstance(t, ast.Subscript):
                for st1, obj in self.ev(t.value, st):
                    for st2, idx in self.ev(t.slice, st1):
                        for st3, newobj in self.models.delitem(self, obj, idx, st2, t):
                            if newobj is None:
                                yield from rec(i + 1, st3)
                            else:
                                for st4 in self.assign(t.value, newobj, st3):
                                    yield from rec(i + 1, st4)
            elif isinstance(t, ast.Name):
                st.locals.pop(t.id, None)
                yield from rec(i + 1, st)
            else:
                raise Untranslatable("del target", t)
        yield from rec(0, st)

    def ex_Return(self, s, st):
        if s.value is None:
            yield st, Flow("return", NONE)
            return
        for st1, v in self.ev(s.value, st):
            if isinstance(v, tuple) and v and v[0] == "outer":
                yield st1, Flow("outer", v[1])
            else:
                yield st1, Flow("return", v)

    def ex_Break(self, s, st):
        yield st, Flow("break")

    def ex_Continue(self, s, st):
        yield st, Flow("continue")

    def ex_If(self, s, st):
        base = len(st.pc)
        outs = []
        for st1, c in self.ev(s.test, st):
            for st2, b in self.fork(st1, self.truth(c, st1), f"if@{s.lineno}"):
                outs += list(self.ex_block(s.body if b else s.orelse, st2))
        normal = [(stx, f) for stx, f in outs if f.kind == "normal"]
        other = [(stx, f) for stx, f in outs if f.kind != "normal"]
        if len(normal) > 1:
            normal = self.try_merge(base, normal, with_values=False)
        yield from normal
        yield from other

    def ex_Assert(self, s, st):
        for st1, c in self.ev(s.test, st):
            for st2, b in self.fork(st1, self.truth(c, st1), f"assert@{s.lineno}"):
                if b:
                    yield st2, NORMAL
                else:
                    if s.msg is not None:
                        for st3, _ in self.ev(s.msg, st2):
                            self.raise_exc(st3, "AssertionError", s)
                    else:
                        self.raise_exc(st2, "AssertionError", s)

    def ex_Raise(self, s, st):
        if s.exc is None:
            exc = st.locals.get("__current_exc__")
            if exc is None:
                raise Untranslatable("bare raise outside handler", s)
            self.sinks[-1].append((st, exc))
            return
        # evaluate the exception expression: Class(args) or Class or a variable
        e = s.exc
        if isinstance(e, ast.Call):
            cname = ast.unparse(e.func).split(".")[-1]
            for st1, args in self.ev_list(e.args, st):
                self.sinks[-1].append((st1, VExc(cname, args, f"{self.func_stack[-1].qualname if self.func_stack else '?'}:{s.lineno}")))
        elif isinstance(e, (ast.Name, ast.Attribute)):
            name = ast.unparse(e).split(".")[-1]
            v = st.locals.get(name) if isinstance(e, ast.Name) else None
            if isinstance(v, VExc):
                self.sinks[-1].append((st, v))
            else:
                self.sinks[-1].append((st, VExc(name, [], f"{self.func_stack[-1].qualname if self.func_stack else '?'}:{s.lineno}")))
        else:
            raise Untranslatable("raise expression", s)
        return
        yield  # pragma: no cover

    def ex_Try(self, s, st):
        sink = []
        self.sinks.append(sink)
        try:
            body_outs = list(self.ex_block(s.body, st))
        finally:
            self.sinks.pop()
        results = []   # (state, flow) or (state, ("exc", exc))
        # else clause on normal completion
        for st1, flow in body_outs:
            if flow.kind == "normal" and s.orelse:
                sink2 = []
                self.sinks.append(sink2)
                try:
                    outs2 = list(self.ex_block(s.orelse, st1))
                finally:
                    self.sinks.pop()
                results += outs2
                results += [(stx, ("exc", ex)) for stx, ex in sink2]
            else:
                results.append((st1, flow))
        # handlers
        for st1, exc in sink:
            handled = False
            for h in s.handlers:
                if self.handler_matches(h, exc):
                    handled = True
                    if h.name:
                        st1.locals[h.name] = exc
                    st1.locals["__current_exc__"] = exc
                    sink3 = []
                    self.sinks.append(sink3)
                    try:
                        outs3 = list(self.ex_block(h.body, st1))
                    finally:
                        self.sinks.pop()
                    results += outs3
                    results += [(stx, ("exc", ex)) for stx, ex in sink3]
                    break
            if not handled:
                results.append((st1, ("exc", exc)))
        # finally
        for st1, out in results:
            if s.finalbody:
                sink4 = []
                self.sinks.append(sink4)
                try:
                    fouts = list(self.ex_block(s.finalbody, st1))
                finally:
                    self.sinks.pop()
                for stx, ex in sink4:
                    self.sinks[-1].append((stx, ex))
                for st2, fflow in fouts:
                    if fflow.kind != "normal":
                        yield st2, fflow
                    elif isinstance(out, tuple):
                        self.sinks[-1].append((st2, out[1]))
                    else:
                        yield st2, out
            else:
                if isinstance(out, tuple):
                    self.sinks[-1].append((st1, out[1]))
                else:
                    yield st1, out

    def handler_matches(self, h, exc):
        if h.type is None:
            return True
        types = h.type.elts if isinstance(h.type, ast.Tuple) else [h.type]
        for t in types:
            name = ast.unparse(t).split(".")[-1]
            if exc_isinstance(exc.cls, name):
                return True
        return False

    def ex_With(self, s, st):
        yield from self.models.with_stmt(self, s, st)

    def ex_AsyncWith(self, s, st):
        yield from self.models.with_stmt(self, s, st)

    def ex_FunctionDef(self, s, st):
        from .source import FuncSrc
        fs = FuncSrc(self.func_stack[-1].file if self.func_stack else "?", s.name, s, ast.unparse(s))
        st.locals[s.name] = VFunc("closure", fs=fs, closure=st.frames[-1], name=s.name)
        yield st, NORMAL

    def ex_While(self, s, st):
        yield from self.models.while_loop(self, s, st)

    def ex_For(self, s, st):
        for st1, it in self.ev(s.iter, st):
            yield from self.models.for_loop(self, s, it, st1)

    def ex_AsyncFor(self, s, st):
        raise Untranslatable("async for", s)

    # ------------------------------------------------------------------ conditional values
    def ite_value(self, st, guards, vals):
        """Value equal to vals[i] under guards[i] (guards are exclusive and exhaustive in the context).

        Scalars become ite terms; collections become a fresh constant with guarded equalities, so that
        quantifier triggers (`at(c, i)`, `c[x]`) stay free of ite."""
        k = vals[0].kind
        if all(v.term.eq(vals[0].term) for v in vals):
            return vals[0]
        if isinstance(k, (Seq, SetK, Map)):
            c = z3.Const(fresh_name("phi"), k.sort())
            for g, v in zip(guards, vals):
                st.assume(z3.Implies(g, c == v.term))
            return V(k, c)
        acc = vals[-1].term
        for g, v in zip(reversed(guards[:-1]), reversed(vals[:-1])):
            acc = acc if v.term.eq(acc) else z3.If(g, v.term, acc)
        return V(k, acc)

    # ------------------------------------------------------------------ path merging
    def same_state_shape(self, a, b):
        if a.alloc.get_id() != b.alloc.get_id() or a.fresh_refs != b.fresh_refs or a.writes != b.writes:
            return False
        if a.heap.keys() != b.heap.keys() and any(
                (k in a.heap) != (k in b.heap) and not self._pristine(k, (a.heap.get(k) if k in a.heap else b.heap.get(k)))
                for k in set(a.heap) | set(b.heap)):
            return False
        for k in set(a.heap) & set(b.heap):
            if a.heap[k].get_id() != b.heap[k].get_id():
                return False
        if a.pyheap.keys() != b.pyheap.keys() or any(a.pyheap[k] is not b.pyheap[k] for k in a.pyheap):
            return False
        if a.local_fields.keys() != b.local_fields.keys():
            return False
        for rid in a.local_fields:
            fa, fb = a.local_fields[rid], b.local_fields[rid]
            if fa.keys() != fb.keys() or any(fa[k].get_id() != fb[k].get_id() for k in fa):
                return False
        if len(a.frames) != len(b.frames):
            return False
        for k in set(a.ghost) | set(b.ghost):
            x, y = a.ghost.get(k), b.ghost.get(k)
            if isinstance(x, V) and isinstance(y, V):
                if x.term.get_id() != y.term.get_id():
                    return False
            elif x != y:
                return False
        return True

    def _pristine(self, k, v):
        return v is not None and z3.is_const(v) and v.decl().name() == f"H0_{k}"

    def mergeable_values(self, vals):
        """Return a function building the merged value from guards, or None."""
        if all(isinstance(v, V) for v in vals):
            s0 = vals[0].term.sort()
            if all(v.term.sort() == s0 for v in vals):
                def build(guards, stm):
                    return self.ite_value(stm, guards, vals)
                return build
            return None
        if all(isinstance(v, VNone) for v in vals):
            return lambda guards, stm: NONE
        if all(v is vals[0] for v in vals):
            return lambda guards, stm: vals[0]
        # python-level lists of SMT values can be lifted
        lifted = [self.to_smt(v) if isinstance(v, (VList, VTuple)) else v for v in vals]
        if all(isinstance(v, V) for v in lifted) and any(not isinstance(v, V) for v in vals):
            return None   # lifting needs a state (facts); callers handle this case explicitly
        return None

    def try_merge(self, base, outs, with_values=True):
        """Merge several (state, value) outcomes of a pure evaluation into one when only locals / pc differ."""
        if len(outs) < 2 or self.no_prune:
            return outs
        st0 = outs[0][0]
        for stx, _ in outs[1:]:
            if not self.same_state_shape(st0, stx):
                return outs
        # lift python-level lists to SMT lists where another outcome already holds an SMT list
        def lift(vals, states):
            kinds = [v.kind for v in vals if isinstance(v, V) and isinstance(v.kind, Seq)]
            if not kinds or not any(isinstance(v, (VList, VTuple)) for v in vals):
                return vals
            out = []
            for v, stx in zip(vals, states):
                if isinstance(v, (VList, VTuple)):
                    try:
                        v = self.coerce(v, kinds[0], stx)
                    except Untranslatable:
                        return vals
                out.append(v)
            return out
        states = [stx for stx, _ in outs]
        if with_values:
            newvals = lift([v for _, v in outs], states)
            outs = [(stx, nv) for (stx, _), nv in zip(outs, newvals)]
        for fi in range(len(st0.frames)):
            names = set()
            for stx in states:
                names |= set(stx.frames[fi].keys())
            for n in names:
                vals = [stx.frames[fi].get(n) for stx in states]
                if any(v is None for v in vals):
                    continue
                nv = lift(vals, states)
                for stx, v in zip(states, nv):
                    stx.frames[fi][n] = v
        # locals of every frame must be mergeable
        plans = []
        for fi in range(len(st0.frames)):
            names = set()
            for stx, _ in outs:
                names |= set(stx.frames[fi].keys())
            for n in names:
                vals = [stx.frames[fi].get(n) for stx, _ in outs]
                if any(v is None for v in vals):
                    return outs
                if all(v is vals[0] for v in vals):
                    continue
                if all(isinstance(v, V) for v in vals) and all(v.term.eq(vals[0].term) for v in vals):
                    continue
                b = self.mergeable_values(vals) if all(isinstance(v, (V, VNone)) for v in vals) else None
                if b is None:
                    return outs
                plans.append((fi, n, b))
        vb = None
        if with_values:
            vals = [v for _, v in outs]
            if all(v is vals[0] for v in vals):
                vb = lambda guards, stm: vals[0]
            else:
                vb = self.mergeable_values(vals)
                if vb is None:
                    return outs
        guards, hoisted = [], []
        for stx, _ in outs:
            gs = []
            for c in stx.pc[base:]:
                if c.get_id() in stx.facts:
                    hoisted.append(z3.Implies(z3.And(gs), c) if gs else c)
                else:
                    gs.append(c)
            guards.append(z3.And(gs) if gs else z3.BoolVal(True))
        m = st0.copy()
        m.pc = list(st0.pc[:base])
        m.facts = set(st0.facts)
        seen = set()
        for h in hoisted:
            if h.get_id() not in seen:
                seen.add(h.get_id())
                m.assume(h)
        m.guard(z3.simplify(z3.Or(guards)))
        for fi, n, b in plans:
            m.frames[fi][n] = b(guards, m)
        # keep only the memoised definitions shared by every merged outcome (their facts are unconditional)
        common = dict(st0.memo)
        for stx, _ in outs[1:]:
            common = {k: v for k, v in common.items() if stx.memo.get(k) is v}
        m.memo = common
        m.trace = list(st0.trace[:]) + ["<merged>"]
        self.stats["merges"] = self.stats.get("merges", 0) + 1
        return [(m, vb(guards, m) if with_values else outs[0][1])]

    # ------------------------------------------------------------------ merged (pure) evaluation
    def ev_merged(self, e, st, want_bool=False):
        """Evaluate a pure expression; merge the forked outcomes into a single value with ite."""
        base = len(st.pc)
        st0 = st.copy()
        sink = []
        self.sinks.append(sink)
        self.no_prune += 1
        try:
            outs = list(self.ev(e, st0))
        finally:
            self.sinks.pop()
            self.no_prune -= 1
        return self.merge_outcomes(outs, sink, base, st, want_bool, e)

    def merge_outcomes(self, outs, sink, base, st, want_bool, e=None):
        if not outs and not sink:
            # dead: the current path is infeasible
            return V(BOOL, z3.BoolVal(True)) if want_bool else None
        cases = []
        hoisted = []
        for st1, v in outs:
            guards = []
            for c in st1.pc[base:]:
                if c.get_id() in st1.facts:
                    hoisted.append(z3.Implies(z3.And(guards), c) if guards else c)
                else:
                    guards.append(c)
            guard = z3.And(guards) if guards else z3.BoolVal(True)
            cases.append((guard, v))
        for st1, _exc in sink:
            guards = []
            for c in st1.pc[base:]:
                if c.get_id() in st1.facts:
                    hoisted.append(z3.Implies(z3.And(guards), c) if guards else c)
                else:
                    guards.append(c)
        seen = set()
        for h in hoisted:
            if h.get_id() not in seen:
                seen.add(h.get_id())
                st.assume(h)
        # memoised definitions may only be reused where their defining facts hold unconditionally
        if len(outs) == 1 and not sink and all(c.get_id() in outs[0][0].facts for c in outs[0][0].pc[base:]):
            for k, v in outs[0][0].memo.items():
                st.memo.setdefault(k, v)
        if want_bool:
            # exceptions inside a spec expression make it false
            terms = [z3.And(g, self.truth(v)) for g, v in cases]
            return V(BOOL, z3.Or(terms) if terms else z3.BoolVal(False))
        if sink and not cases:
            raise SpecError(f"pure expression always raises: {ast.unparse(e) if e is not None else ''}")
        # mixed python-level / SMT lists: lift the python-level ones
        seqk = [v.kind for _, v in cases if isinstance(v, V) and isinstance(v.kind, Seq)]
        if not seqk:
            lists = [v for _, v in cases if isinstance(v, (VList, VTuple)) and v.items and all(isinstance(x, V) for x in v.items)]
            if len(cases) > 1 and lists and all(isinstance(v, (VList, VTuple)) for _, v in cases):
                seqk = [Seq(lists[0].items[0].kind)]
        if seqk and any(isinstance(v, (VList, VTuple)) for _, v in cases):
            cases = [(g, self.coerce(v, seqk[0], st) if isinstance(v, (VList, VTuple)) else v) for g, v in cases]
        v0 = cases[-1][1]
        if all(isinstance(v, V) for _, v in cases):
            if any(v.term.sort() != cases[0][1].term.sort() for _, v in cases):
                raise SpecError("merge of different sorts")
            return self.ite_value(st, [g for g, _ in cases], [v for _, v in cases])
        if len(cases) == 1:
            return v0
        if all(isinstance(v, VNone) for _, v in cases):
            return NONE
        raise SpecError(f"cannot merge outcomes {cases!r}")
