"""Source acquisition: the verified text is read from /repo's working tree on every run."""
import ast
import hashlib
import os

REPO = os.environ.get("VERIF_REPO", "/repo")


class FuncSrc:
    def __init__(self, file, qualname, node, text, cls=None):
        self.file, self.qualname, self.node, self.text, self.cls = file, qualname, node, text, cls
        self.sha256 = hashlib.sha256(text.encode()).hexdigest()
        self.lineno = node.lineno
        self.end_lineno = node.end_lineno
        self.decorators = [ast.unparse(d) for d in node.decorator_list]
        self.is_property = "property" in self.decorators
        self.is_classmethod = "classmethod" in self.decorators
        self.is_staticmethod = "staticmethod" in self.decorators
        self.is_async = isinstance(node, ast.AsyncFunctionDef)
        self.is_generator = any(isinstance(n, (ast.Yield, ast.YieldFrom)) for n in ast.walk(node))

    def ref(self):
        return f"{self.file}::{self.qualname}"


class RepoIndex:
    """Index of functions / classes / module constants of the repository sources."""

    def __init__(self, repo=None):
        self.repo = repo or REPO
        self.files = {}       # relpath -> (text, tree)
        self.funcs = {}       # "file::qualname" -> FuncSrc
        self.classes = {}     # class name -> {"file":..., "bases":[names], "methods":{name: FuncSrc}, "attrs": {name: ast expr}}
        self.module_consts = {}  # (file, name) -> ast expr

    def load(self, relpath):
        if relpath in self.files:
            return self.files[relpath]
        path = os.path.join(self.repo, relpath)
        text = open(path).read()
        tree = ast.parse(text)
        self.files[relpath] = (text, tree)
        for node in tree.body:
            if isinstance(node, (ast.FunctionDef, ast.AsyncFunctionDef)):
                self._add_func(relpath, node.name, node, text, None)
            elif isinstance(node, ast.ClassDef):
                self._add_class(relpath, node, text, prefix="")
            elif isinstance(node, ast.Assign) and len(node.targets) == 1 and isinstance(node.targets[0], ast.Name):
                self.module_consts[(relpath, node.targets[0].id)] = node.value
        return self.files[relpath]

    def _add_func(self, relpath, qualname, node, text, cls):
        seg = ast.get_source_segment(text, node)
        # include decorators in the hashed text
        if node.decorator_list:
            first = min(d.lineno for d in node.decorator_list)
            lines = text.splitlines()
            seg = "\n".join(lines[first - 1:node.end_lineno])
        fs = FuncSrc(relpath, qualname, node, seg, cls)
        self.funcs[f"{relpath}::{qualname}"] = fs
        return fs

    def _add_class(self, relpath, node, text, prefix):
        name = prefix + node.name
        info = {"file": relpath, "bases": [ast.unparse(b) for b in node.bases], "methods": {}, "attrs": {}}
        for item in node.body:
            if isinstance(item, (ast.FunctionDef, ast.AsyncFunctionDef)):
                fs = self._add_func(relpath, f"{name}.{item.name}", item, text, name)
                # a property setter etc. would override; keep the first getter
                if item.name not in info["methods"] or "property" in fs.decorators:
                    info["methods"][item.name] = fs
            elif isinstance(item, ast.ClassDef):
                self._add_class(relpath, item, text, prefix=name + ".")
            elif isinstance(item, ast.Assign) and len(item.targets) == 1 and isinstance(item.targets[0], ast.Name):
                info["attrs"][item.targets[0].id] = item.value
        self.classes[name] = info

    def load_all(self, subdir="avocado_i2n"):
        for root, _dirs, files in os.walk(os.path.join(self.repo, subdir)):
            for f in sorted(files):
                if f.endswith(".py"):
                    self.load(os.path.relpath(os.path.join(root, f), self.repo))

    def func(self, ref):
        file = ref.split("::")[0]
        self.load(file)
        return self.funcs[ref]

    def method(self, cls, name):
        """Resolve a method through the repository class hierarchy (by simple base names)."""
        seen = set()
        todo = [cls]
        while todo:
            c = todo.pop(0)
            if c in seen or c not in self.classes:
                continue
            seen.add(c)
            info = self.classes[c]
            if name in info["methods"]:
                return info["methods"][name]
            todo += [b.split(".")[-1] for b in info["bases"]]
        return None

    def class_attr(self, cls, name):
        seen = set()
        todo = [cls]
        while todo:
            c = todo.pop(0)
            if c in seen or c not in self.classes:
                continue
            seen.add(c)
            info = self.classes[c]
            if name in info["attrs"]:
                return info["attrs"][name]
            todo += [b.split(".")[-1] for b in info["bases"]]
        return None


def extract_block(fs, selector, name, params):
    """Mechanically extract a statement block of a function as a synthetic function (for branch-level contracts).

    `selector(func_ast)` returns the list of statements; the synthetic function has the given parameter names
    (the free variables of the block). What is dropped: everything of the enclosing function outside the block."""
    stmts = selector(fs.node)
    if not stmts:
        raise KeyError(f"block {name} not found in {fs.qualname}")
    args = ast.arguments(posonlyargs=[], args=[ast.arg(arg=p) for p in params], kwonlyargs=[], kw_defaults=[], defaults=[])
    node = (ast.AsyncFunctionDef if fs.is_async else ast.FunctionDef)(name=name.replace("#", "_").replace(".", "_"), args=args, body=list(stmts),
                                                                      decorator_list=[], lineno=stmts[0].lineno,
                                                                      end_lineno=stmts[-1].end_lineno, col_offset=0)
    text = "\n".join(ast.unparse(x) for x in stmts)
    out = FuncSrc(fs.file, f"{fs.qualname}#{name}", node, text, fs.cls)
    out.lineno, out.end_lineno = stmts[0].lineno, stmts[-1].end_lineno
    out.parent = fs
    return out
