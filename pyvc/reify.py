"""Turn a z3 model of a failed obligation into a JSON description of concrete inputs (object graph)."""
import z3

from .kinds import (V, VNone, VTuple, VList, VDict, VFunc, VClass, Kind, INT, BOOL, STR, REAL, Ref, Seq, SetK, Map,
                    Arr, Opt, PyKind, RefSort, NULL)


class Reifier:
    def __init__(self, eng, model, entry_state, final_state=None):
        self.eng, self.m, self.st = eng, model, entry_state
        self.final = final_state
        self.objects = {}      # ref name -> {"cls":..., "fields": {...}}
        self.universe = None
        self.notes = []
        self.ref_terms = {}

    # ------------------------------------------------------------------ model helpers
    def ev(self, t):
        return self.m.eval(t, model_completion=True)

    def ref_name(self, r):
        return str(r)

    def ref_universe(self):
        if self.universe is None:
            try:
                self.universe = list(self.m.get_universe(RefSort) or [])
            except Exception:
                self.universe = []
        return self.universe

    def py_scalar(self, kind, val):
        if kind == INT:
            return int(val.as_long()) if z3.is_int_value(val) else 0
        if kind == BOOL:
            return bool(z3.is_true(val))
        if kind == STR:
            return val.as_string() if z3.is_string_value(val) else self.parse_str(val)
        if kind == REAL:
            try:
                return float(val.as_fraction())
            except Exception:
                return 0.0
        raise TypeError(kind)

    def parse_str(self, val):
        # concatenations of string values / units
        items = self.parse_seq(val)
        if items is None:
            return ""
        out = ""
        for it in items:
            out += it.as_string() if z3.is_string_value(it) else "?"
        return out

    def parse_seq(self, val):
        """List of element terms of an evaluated sequence value, or None."""
        if z3.is_string_value(val):
            return [val]
        if z3.is_app(val):
            k = val.decl().kind()
            if k == z3.Z3_OP_SEQ_EMPTY:
                return []
            if k == z3.Z3_OP_SEQ_UNIT:
                return [val.arg(0)]
            if k == z3.Z3_OP_SEQ_CONCAT:
                out = []
                for c in val.children():
                    sub = self.parse_seq(c)
                    if sub is None:
                        return None
                    out += sub
                return out
        return None

    def array_members(self, arr, elem_kind, candidates=()):
        """Elements x with arr[x] true in the model (for sets)."""
        val = self.ev(arr)
        found = []
        cands = list(candidates)
        # parse store chains / const arrays
        cur = val
        guard = 0
        while z3.is_app(cur) and guard < 10000:
            guard += 1
            k = cur.decl().kind()
            if k == z3.Z3_OP_STORE:
                cands.append(cur.arg(1))
                cur = cur.arg(0)
            elif k == z3.Z3_OP_CONST_ARRAY:
                break
            elif k == z3.Z3_OP_AS_ARRAY:
                try:
                    fi = self.m[z3.get_as_array_func(cur)]
                    for i in range(fi.num_entries()):
                        cands.append(fi.entry(i).arg_value(0))
                except Exception:
                    pass
                break
            else:
                break
        if isinstance(elem_kind, Ref):
            cands += self.ref_universe()
        seen = set()
        for c in cands:
            cv = self.ev(c)
            key = str(cv)
            if key in seen:
                continue
            seen.add(key)
            if z3.is_true(self.ev(z3.Select(arr, cv))):
                found.append(cv)
        return found

    # ------------------------------------------------------------------ values
    def value(self, kind, term, depth=0):
        val = self.ev(term)
        if kind in (INT, BOOL, STR, REAL):
            return {"t": repr(kind), "v": self.py_scalar(kind, val)}
        if isinstance(kind, Ref):
            if z3.is_true(self.ev(val == NULL)):
                return {"t": "none"}
            name = self.obj_key(kind.cls, val)
            self.visit_object(kind.cls, val, depth + 1)
            return {"t": "ref", "id": name, "cls": self.objects[name]["cls"]}
        if isinstance(kind, Seq):
            n = self.ev(kind.len(term))
            n = n.as_long() if z3.is_int_value(n) else 0
            n = max(0, min(n, 12))
            return {"t": "seq", "items": [self.value(kind.elem, kind.at(term, i), depth + 1) for i in range(n)]}
        if isinstance(kind, SetK):
            cands = self.string_candidates() if kind.elem == STR else []
            mem = self.array_members(term, kind.elem, cands)
            return {"t": "set", "items": [self.value(kind.elem, it, depth + 1) for it in mem]}
        if isinstance(kind, Map):
            ks = Seq(kind.key)
            keys_t = kind.keys(term)
            nk = self.ev(ks.len(keys_t))
            nk = max(0, min(nk.as_long() if z3.is_int_value(nk) else 0, 12))
            keys = [self.ev(ks.at(keys_t, i)) for i in range(nk)]
            dom_members = self.array_members(kind.dom(term), kind.key, keys + (self.string_candidates() if kind.key == STR else []))
            allkeys, seen = [], set()
            for kx in list(keys) + dom_members:
                kv = self.ev(kx)
                if str(kv) in seen:
                    continue
                seen.add(str(kv))
                if z3.is_true(self.ev(z3.Select(kind.dom(term), kv))):
                    allkeys.append(kv)
            items = []
            for kv in allkeys:
                items.append([self.value(kind.key, kv, depth + 1),
                              self.value(kind.val, z3.Select(kind.valarr(term), kv), depth + 1)])
            return {"t": "map", "items": items}
        if isinstance(kind, Opt):
            if z3.is_true(self.ev(kind.sort().is_none(val))):
                return {"t": "none"}
            return self.value(kind.base, kind.sort().get(val), depth + 1)
        if isinstance(kind, Arr):
            return {"t": "array", "note": "total map not reified"}
        return {"t": "unknown", "kind": repr(kind)}

    def string_candidates(self):
        out = []
        for kt in getattr(self.eng, "accessed_key_terms", []):
            out.append(kt)
        return out

    def root_class(self, cls):
        chain = self.class_chain(cls)
        return chain[-1] if chain else cls

    def obj_key(self, cls, ref):
        # references are untyped in the SMT heap: objects are identified by (root class, reference)
        return f"{self.root_class(cls)}:{self.ref_name(ref)}"

    def visit_object(self, cls, ref, depth):
        name = self.obj_key(cls, ref)
        if name in self.objects:
            # keep the most specific class seen
            if len(self.class_chain(cls)) > len(self.class_chain(self.objects[name]["cls"])):
                self.objects[name]["cls"] = cls
            return
        if depth > 12:
            self.objects[name] = {"cls": cls, "fields": {}, "truncated": True}
            self.ref_terms[name] = ref
            return
        obj = {"cls": cls, "fields": {}}
        self.objects[name] = obj
        self.ref_terms[name] = ref
        if cls == "Params":
            obj["fields"]["data"] = self.params_content(ref)
            return
        for c in self.class_chain(cls):
            for f, kind in self.eng.schema.get(c, {}).get("fields", {}).items():
                if not kind.smt:
                    continue
                key = f"{c}.{f}"
                arr = self.st.heap.get(key)
                if arr is None:
                    # initial arrays are created lazily on first read: refer to them by their fixed name
                    arr = z3.Const(f"H0_{key}", z3.ArraySort(RefSort, kind.sort()))
                obj["fields"][f] = self.value(kind, z3.Select(arr, ref), depth)

    def default_value(self, kind):
        if kind == INT:
            return {"t": "int", "v": 0}
        if kind == BOOL:
            return {"t": "bool", "v": False}
        if kind == STR:
            return {"t": "str", "v": ""}
        if kind == REAL:
            return {"t": "float", "v": 0.0}
        if isinstance(kind, Ref):
            return {"t": "none", "untouched": True}
        if isinstance(kind, Seq):
            return {"t": "seq", "items": []}
        if isinstance(kind, SetK):
            return {"t": "set", "items": []}
        if isinstance(kind, Map):
            return {"t": "map", "items": []}
        return {"t": "none"}

    def class_chain(self, cls):
        out, todo = [], [cls]
        while todo:
            c = todo.pop(0)
            if c in out:
                continue
            out.append(c)
            todo += self.eng.schema.get(c, {}).get("bases", [])
        return out

    def params_content(self, ref):
        from contracts.schema import P_HAS, P_VAL
        has = self.st.heap.get("Params.p_has")
        val = self.st.heap.get("Params.p_val")
        data = {}
        if has is None:
            has = z3.Const("H0_Params.p_has", z3.ArraySort(RefSort, P_HAS.sort()))
        if val is None:
            val = z3.Const("H0_Params.p_val", z3.ArraySort(RefSort, P_VAL.sort()))
        h, v = z3.Select(has, ref), z3.Select(val, ref)
        keys = set(self.eng.accessed_param_keys)
        for kt in getattr(self.eng, "accessed_key_terms", []):
            kv = self.ev(kt)
            if z3.is_string_value(kv):
                keys.add(kv.as_string())
        for k in sorted(keys):
            kt = z3.StringVal(k)
            if z3.is_true(self.ev(z3.Select(h, kt))):
                sv = self.ev(z3.Select(v, kt))
                data[k] = sv.as_string() if z3.is_string_value(sv) else self.parse_str(sv)
                # Params.objects(key) is an uninterpreted list-valued function of the value in the encoding: give the
                # replay a value whose real whitespace split is the list the model chose
                try:
                    if k not in getattr(self.eng, "objects_param_keys", ()):
                        raise KeyError(k)
                    from contracts.schema import params_objects_fn
                    lst = self.value(Seq(STR), params_objects_fn(sv))
                    items = [x["v"] for x in lst.get("items", [])] if isinstance(lst, dict) else None
                    if items and all(isinstance(x, str) and x and not any(c.isspace() for c in x) for x in items) \
                            and len(set(items)) == len(items):
                        data[k] = " ".join(items)
                except Exception:
                    pass
        return data

    # ------------------------------------------------------------------ entry point
    def run(self, contract, frame):
        params = {}
        for name, kind in contract.params.items():
            if isinstance(kind, tuple):
                kind = kind[0]
            v = frame.get(name)
            if isinstance(v, V):
                params[name] = self.value(v.kind, v.term)
            elif isinstance(v, VNone):
                params[name] = {"t": "none"}
            else:
                params[name] = {"t": "python-level", "repr": repr(v)}
        ghost = {}
        for g, v in self.st.ghost.items():
            if isinstance(v, V):
                try:
                    ghost[g] = self.value(v.kind, v.term)
                except Exception as e:   # pragma: no cover
                    ghost[g] = {"t": "unknown", "error": str(e)}
        return {"params": params, "objects": self.objects, "ghost": ghost, "notes": self.notes}


def otp_tables(reifier):
    """Model values of the object_typed_params summary for every reified (object, Params) pair (epoch 0)."""
    from contracts.schema import otp_has, otp_val
    out = {}
    keys = set(reifier.eng.accessed_param_keys)
    for kt in getattr(reifier.eng, "accessed_key_terms", []):
        kv = reifier.ev(kt)
        if z3.is_string_value(kv):
            keys.add(kv.as_string())
    objs = [(n, o) for n, o in list(reifier.objects.items()) if "TestObject" in reifier.class_chain(o["cls"])]
    pars = [(n, o) for n, o in list(reifier.objects.items()) if o["cls"] == "Params"]
    for on, _ in objs:
        for pn, _ in pars:
            data = {}
            h = otp_has(reifier.ref_terms[on], reifier.ref_terms[pn], z3.IntVal(0))
            v = otp_val(reifier.ref_terms[on], reifier.ref_terms[pn], z3.IntVal(0))
            for k in sorted(keys):
                if z3.is_true(reifier.ev(z3.Select(h, z3.StringVal(k)))):
                    sv = reifier.ev(z3.Select(v, z3.StringVal(k)))
                    data[k] = sv.as_string() if z3.is_string_value(sv) else ""
            out.setdefault(on, {})[pn] = data
    return out


def function_tables(reifier, fns):
    """Values of uninterpreted summary functions over the reified objects (for native stubs).

    fns: {"Class.attr": (z3 function, owner class, result kind)}
    """
    out = {}
    for key, (fn, cls, kind) in fns.items():
        table = {}
        for name, obj in list(reifier.objects.items()):
            if cls in reifier.class_chain(obj["cls"]):
                table[name] = reifier.value(kind, fn(reifier.ref_terms[name]))
        out[key] = table
    return out
