"""Kinds (static types of symbolic values) and value wrappers of the pyvc engine.

Every SMT-backed value is ``V(kind, term)`` with a single z3 term.  Python-level
values (tuples, literal lists, functions, classes, None) have their own wrappers.
"""
import z3

def safe_forall(vs, body, patterns=None, **kw):
    """z3.ForAll that drops user patterns z3 rejects (ite / boolean connectives inside pattern terms)."""
    if patterns:
        try:
            return z3.ForAll(vs, body, patterns=patterns, **kw)
        except z3.Z3Exception:
            return z3.ForAll(vs, body, **kw)
    return z3.ForAll(vs, body, **kw)


RefSort = z3.DeclareSort("Ref")
NULL = z3.Const("null", RefSort)


class Kind:
    smt = True

    def __eq__(self, o):
        return type(self) is type(o) and self.__dict__ == o.__dict__

    def __hash__(self):
        return hash(repr(self))


class _Int(Kind):
    def sort(self):
        return z3.IntSort()

    def __repr__(self):
        return "int"


class _Bool(Kind):
    def sort(self):
        return z3.BoolSort()

    def __repr__(self):
        return "bool"


class _Str(Kind):
    def sort(self):
        return z3.StringSort()

    def __repr__(self):
        return "str"


class _Real(Kind):
    def sort(self):
        return z3.RealSort()

    def __repr__(self):
        return "float"


INT, BOOL, STR, REAL = _Int(), _Bool(), _Str(), _Real()


class Ref(Kind):
    """Nullable reference to an object of a (schema) class."""

    def __init__(self, cls):
        self.cls = cls

    def sort(self):
        return RefSort

    def __repr__(self):
        return f"Ref({self.cls})"


_LIST_SORTS = {}
USED_LIST_SORTS = {}
USED_MEM = {}


def list_sort(elem_sort):
    """Python lists as (length, index -> element) pairs: arrays interact with quantifiers far better
    than the SMT sequence theory."""
    name = f"List<{elem_sort}>"
    if name not in _LIST_SORTS:
        dt = z3.Datatype(name)
        dt.declare("mk", ("len", z3.IntSort()), ("at", z3.ArraySort(z3.IntSort(), elem_sort)))
        _LIST_SORTS[name] = dt.create()
        USED_LIST_SORTS[name] = _LIST_SORTS[name]
    return _LIST_SORTS[name]


class Seq(Kind):
    def __init__(self, elem):
        self.elem = elem

    def sort(self):
        return list_sort(self.elem.sort())

    def __repr__(self):
        return f"Seq({self.elem})"

    # ---- term constructors / accessors
    def len(self, t):
        # the datatype is freely generated (negative `len` fields exist), so the length is clamped
        raw = self.sort().len(t)
        r = z3.simplify(raw)
        if z3.is_int_value(r):
            return z3.IntVal(max(r.as_long(), 0))
        return z3.If(raw >= 0, raw, 0)

    def at(self, t, i):
        return z3.Select(self.sort().at(t), i)

    def arr(self, t):
        return self.sort().at(t)

    def mk(self, n, arr):
        return self.sort().mk(n, arr)

    def default_arr(self):
        es = self.elem.sort()
        return z3.K(z3.IntSort(), z3.Const(f"dflt<{es}>", es))

    def empty(self):
        return self.mk(z3.IntVal(0), self.default_arr())

    def from_terms(self, terms):
        arr = self.default_arr()
        for i, t in enumerate(terms):
            arr = z3.Store(arr, i, t)
        return self.mk(z3.IntVal(len(terms)), arr)

    def append(self, t, x):
        return self.mk(self.len(t) + 1, z3.Store(self.arr(t), self.len(t), x))

    def concat(self, st, a, b):
        """a + b as a fresh list constant with defining (lambda-free) facts."""
        c = z3.Const(fresh_name("cat"), self.sort())
        i = z3.Const(fresh_name("ci"), z3.IntSort())
        la, lb = self.len(a), self.len(b)
        st.assume(self.sort().len(c) == la + lb)
        st.assume(safe_forall([i], z3.Implies(z3.And(0 <= i, i < la), self.at(c, i) == self.at(a, i)), patterns=[self.at(c, i)]))
        st.assume(safe_forall([i], z3.Implies(z3.And(0 <= i, i < lb), self.at(c, la + i) == self.at(b, i)), patterns=[self.at(b, i)]))
        st.assume(safe_forall([i], z3.Implies(z3.And(la <= i, i < la + lb), self.at(c, i) == self.at(b, i - la)), patterns=[self.at(c, i)]))
        st.assume(self.lemma_concat(c, a, b))
        return c

    def sub(self, st, t, lo, n):
        c = z3.Const(fresh_name("sub"), self.sort())
        i = z3.Const(fresh_name("si"), z3.IntSort())
        st.assume(self.sort().len(c) == z3.If(n >= 0, n, 0))
        st.assume(safe_forall([i], z3.Implies(z3.And(0 <= i, i < n), self.at(c, i) == self.at(t, i + lo)), patterns=[self.at(c, i)]))
        st.assume(self.lemma_sublist(c, t))
        return c

    def without(self, st, t, k):
        """The list with the element at index k removed (fresh constant with defining facts)."""
        c = z3.Const(fresh_name("del"), self.sort())
        i = z3.Const(fresh_name("ri"), z3.IntSort())
        n = self.len(t)
        st.assume(self.sort().len(c) == n - 1)
        st.assume(safe_forall([i], z3.Implies(z3.And(0 <= i, i < k), self.at(c, i) == self.at(t, i)), patterns=[self.at(c, i)]))
        st.assume(safe_forall([i], z3.Implies(z3.And(k <= i, i < n - 1), self.at(c, i) == self.at(t, i + 1)), patterns=[self.at(c, i)]))
        st.assume(self.lemma_sublist(c, t))
        x = z3.Const(fresh_name("lx"), self.elem.sort())
        st.assume(safe_forall([x], z3.Implies(z3.And(self.contains(t, x), x != self.at(t, k)), self.contains(c, x)),
                            patterns=[self.contains(t, x)]))
        return c

    def equal(self, a, b):
        i = z3.Const(fresh_name("ei"), z3.IntSort())
        return z3.And(self.len(a) == self.len(b),
                      safe_forall([i], z3.Implies(z3.And(0 <= i, i < self.len(a)),
                                                z3.Select(self.arr(a), i) == z3.Select(self.arr(b), i))))

    # membership is an uninterpreted predicate tied to the elements by two global axioms (see axioms());
    # list constructors additionally state their membership lemma as a fact (see lemma_*)
    def mem_fn(self):
        return z3.Function(f"mem<{self.elem.sort()}>", self.sort(), self.elem.sort(), z3.BoolSort())

    def idx_fn(self):
        return z3.Function(f"memidx<{self.elem.sort()}>", self.sort(), self.elem.sort(), z3.IntSort())

    def contains(self, t, x):
        USED_MEM[str(self.elem.sort())] = self
        return self.mem_fn()(t, x)

    def axioms(self):
        l = z3.Const("ax_l", self.sort())
        i = z3.Const("ax_i", z3.IntSort())
        x = z3.Const("ax_x", self.elem.sort())
        mem, idx = self.mem_fn(), self.idx_fn()
        return [
            safe_forall([l, i], z3.Implies(z3.And(0 <= i, i < self.len(l)), mem(l, self.at(l, i))), patterns=[self.at(l, i)]),
            safe_forall([l, x], z3.Implies(mem(l, x), z3.And(0 <= idx(l, x), idx(l, x) < self.len(l),
                                                          self.at(l, idx(l, x)) == x)), patterns=[mem(l, x)]),
        ]

    def named(self, st, term):
        """Give a constructed list a name (constant) so that it can be used in quantifier patterns."""
        c = z3.Const(fresh_name("lst"), self.sort())
        st.assume(c == term)
        return c

    def as_const(self, st, term):
        """A constant equal to the list term (terms with ite / store cannot occur in quantifier patterns)."""
        if z3.is_const(term) and term.decl().kind() == z3.Z3_OP_UNINTERPRETED:
            return term
        return self.named(st, term)

    def lemma_append(self, new, old, y):
        x = z3.Const(fresh_name("lx"), self.elem.sort())
        mem = self.mem_fn()
        USED_MEM[str(self.elem.sort())] = self
        return safe_forall([x], mem(new, x) == z3.Or(mem(old, x), x == y), patterns=[mem(new, x)])

    def lemma_concat(self, new, a, b):
        x = z3.Const(fresh_name("lx"), self.elem.sort())
        mem = self.mem_fn()
        USED_MEM[str(self.elem.sort())] = self
        return safe_forall([x], mem(new, x) == z3.Or(mem(a, x), mem(b, x)), patterns=[mem(new, x)])

    def lemma_literal(self, new, terms):
        x = z3.Const(fresh_name("lx"), self.elem.sort())
        mem = self.mem_fn()
        USED_MEM[str(self.elem.sort())] = self
        return safe_forall([x], mem(new, x) == z3.Or([x == t for t in terms] or [z3.BoolVal(False)]), patterns=[mem(new, x)])

    def lemma_sublist(self, new, old):
        x = z3.Const(fresh_name("lx"), self.elem.sort())
        mem = self.mem_fn()
        USED_MEM[str(self.elem.sort())] = self
        return safe_forall([x], z3.Implies(mem(new, x), mem(old, x)), patterns=[mem(new, x)])


class SetK(Kind):
    """Python sets as characteristic arrays. Derived sets are fresh constants with a triggered definition
    (the `map` combinators of z3's set operations interact badly with quantifiers)."""

    def __init__(self, elem):
        self.elem = elem

    def sort(self):
        return z3.ArraySort(self.elem.sort(), z3.BoolSort())

    def __repr__(self):
        return f"Set({self.elem})"

    def empty(self):
        return z3.EmptySet(self.elem.sort())

    def define(self, st, body, base="set", sources=(), name=None):
        """Fresh set C with forall x. C[x] == body(x); triggered on C[x] and on membership in the sources."""
        C = z3.Const(name or fresh_name(base), self.sort())
        x = z3.Const(fresh_name("sx"), self.elem.sort())
        st.assume(safe_forall([x], z3.Select(C, x) == body(x), patterns=[z3.Select(C, x)]))
        for src in sources:
            try:
                st.assume(safe_forall([x], z3.Select(C, x) == body(x), patterns=[z3.Select(src, x)]))
            except z3.Z3Exception:
                pass
        return C

    def union(self, st, a, b):
        return self.define(st, lambda x: z3.Or(z3.Select(a, x), z3.Select(b, x)), "union", [a, b])

    def inter(self, st, a, b):
        return self.define(st, lambda x: z3.And(z3.Select(a, x), z3.Select(b, x)), "inter", [a, b])

    def diff(self, st, a, b):
        return self.define(st, lambda x: z3.And(z3.Select(a, x), z3.Not(z3.Select(b, x))), "diff", [a])

    def literal(self, st, terms):
        if not terms:
            return self.empty()
        name = f"setlit!{abs(hash(tuple(t.get_id() for t in terms))) % (10 ** 12)}"
        return self.define(st, lambda x: z3.Or([x == t for t in terms]), "setlit", name=name)

    def subset(self, a, b):
        x = z3.Const(fresh_name("sx"), self.elem.sort())
        return safe_forall([x], z3.Implies(z3.Select(a, x), z3.Select(b, x)), patterns=[z3.Select(a, x)])

    def equal(self, a, b):
        x = z3.Const(fresh_name("sx"), self.elem.sort())
        return safe_forall([x], z3.Select(a, x) == z3.Select(b, x))


_MAP_SORTS = {}


class Map(Kind):
    """dict: tuple (dom: K->Bool, val: K->V, keys: Seq K in insertion order)."""

    def __init__(self, key, val):
        self.key, self.val = key, val

    def sort(self):
        name = f"Map<{self.key!r},{self.val!r}>"
        if name not in _MAP_SORTS:
            dt = z3.Datatype(name)
            dt.declare(
                "mk",
                ("dom", z3.ArraySort(self.key.sort(), z3.BoolSort())),
                ("val", z3.ArraySort(self.key.sort(), self.val.sort())),
                ("keys", list_sort(self.key.sort())),
            )
            _MAP_SORTS[name] = dt.create()
        return _MAP_SORTS[name]

    def mk(self, dom, val, keys):
        return self.sort().mk(dom, val, keys)

    def dom(self, t):
        return z3.simplify(self.sort().dom(t)) if False else self.sort().dom(t)

    def valarr(self, t):
        return self.sort().val(t)

    def keys(self, t):
        return self.sort().keys(t)

    def __repr__(self):
        return f"Map({self.key},{self.val})"


class Arr(Kind):
    """Total map (SMT array) from key kind to value kind."""

    def __init__(self, key, val):
        self.key, self.val = key, val

    def sort(self):
        return z3.ArraySort(self.key.sort(), self.val.sort())

    def __repr__(self):
        return f"Arr({self.key},{self.val})"


_OPT_SORTS = {}


class Opt(Kind):
    """Optional of an SMT kind as a datatype (used for fields / map values that may be None)."""

    def __init__(self, base):
        self.base = base

    def sort(self):
        name = f"Opt<{self.base!r}>"
        if name not in _OPT_SORTS:
            dt = z3.Datatype(name)
            dt.declare("none")
            dt.declare("some", ("get", self.base.sort()))
            _OPT_SORTS[name] = dt.create()
        return _OPT_SORTS[name]

    def __repr__(self):
        return f"Opt({self.base})"


class PyKind(Kind):
    """Kind of values that live only at the Python level of the engine."""

    smt = False

    def __init__(self, name):
        self.name = name

    def __repr__(self):
        return self.name


ANY = PyKind("any")


class V:
    """SMT-backed symbolic (or constant) value."""

    __slots__ = ("kind", "term", "origin")

    def __init__(self, kind, term, origin=None):
        self.kind, self.term, self.origin = kind, term, origin

    def __repr__(self):
        return f"V<{self.kind}>({self.term})"


class VNone:
    kind = PyKind("None")

    def __repr__(self):
        return "VNone"


NONE = VNone()


class VTuple:
    kind = PyKind("tuple")

    def __init__(self, items):
        self.items = list(items)

    def __repr__(self):
        return f"VTuple{tuple(self.items)}"


class VList:
    """Python-level list of values with a concrete shape (literals, unrolled things)."""

    kind = PyKind("pylist")

    def __init__(self, items):
        self.items = list(items)

    def __repr__(self):
        return f"VList{self.items}"


class VDict:
    """Python-level dict literal with concrete keys (python str / int) -> values."""

    kind = PyKind("pydict")

    def __init__(self, items):
        self.items = dict(items)

    def __repr__(self):
        return f"VDict{self.items}"


class VFunc:
    """Callable: kind in {'repo','lambda','handler','bound'}."""

    kind = PyKind("function")

    def __init__(self, how, **kw):
        self.how = how
        self.__dict__.update(kw)

    def __repr__(self):
        return f"VFunc<{self.how}:{getattr(self, 'name', '')}>"


class VClass:
    kind = PyKind("class")

    def __init__(self, name):
        self.name = name

    def __repr__(self):
        return f"VClass<{self.name}>"


class VModule:
    kind = PyKind("module")

    def __init__(self, name):
        self.name = name

    def __repr__(self):
        return f"VModule<{self.name}>"


class VExc:
    """Exception value of the analysed program."""

    kind = PyKind("exception")

    def __init__(self, cls, args=(), where=None):
        self.cls, self.args, self.where = cls, list(args), where

    def __repr__(self):
        return f"VExc<{self.cls}@{self.where}>"


def const(pyval):
    """Lift a python constant."""
    if pyval is None:
        return NONE
    if isinstance(pyval, bool):
        return V(BOOL, z3.BoolVal(pyval))
    if isinstance(pyval, int):
        return V(INT, z3.IntVal(pyval))
    if isinstance(pyval, float):
        return V(REAL, z3.RealVal(repr(pyval)))
    if isinstance(pyval, str):
        return V(STR, z3.StringVal(pyval))
    if isinstance(pyval, tuple):
        return VTuple([const(x) for x in pyval])
    if isinstance(pyval, list):
        return VList([const(x) for x in pyval])
    raise TypeError(f"cannot lift constant {pyval!r}")


def concrete(v):
    """Return (True, python value) if v is a literal constant, else (False, None)."""
    if isinstance(v, VNone):
        return True, None
    if isinstance(v, V):
        t = z3.simplify(v.term) if not z3.is_const(v.term) or True else v.term
        if v.kind == STR and z3.is_string_value(t):
            return True, t.as_string()
        if v.kind == INT and z3.is_int_value(t):
            return True, t.as_long()
        if v.kind == BOOL and (z3.is_true(t) or z3.is_false(t)):
            return True, z3.is_true(t)
    return False, None


_fresh_counter = [0]


def fresh_name(base):
    _fresh_counter[0] += 1
    return f"{base}!{_fresh_counter[0]}"


def fresh(kind, base="v"):
    return V(kind, z3.Const(fresh_name(base), kind.sort()))
