"""Per-property check driver: E1 obligations in a process pool, replay of counterexamples, evidence."""
import importlib
import json
import multiprocessing as mp
import os
import subprocess
import sys
import time
import traceback

ROOT = os.path.dirname(os.path.dirname(os.path.abspath(__file__)))
VENV_PY = "/venv/bin/python"


def repo_path():
    return os.environ.get("VERIF_REPO", "/repo")


# ------------------------------------------------------------------------------ child side
_CTX = {}


def _child_verify(i):
    from . import contract as C
    from . import kinds
    from .reify import Reifier, function_tables
    import z3
    kinds._fresh_counter[0] = 0
    seed = int(os.environ.get("VERIF_SEED", "0") or 0)
    z3.set_param("smt.random_seed", seed)
    c = _CTX["contracts"][i]
    idx, schema = _CTX["index"], _CTX["schema"]
    t0 = time.time()
    try:
        res = C.verify(c, idx, schema)
    except Exception:
        return {"contract": c.name, "target": c.target, "error": "engine crash: " + traceback.format_exc()[-2500:],
                "obligations": [], "paths": 0, "wall": time.time() - t0, "sha256": None, "crash": True}
    out = {
        "contract": c.name, "target": c.target, "error": res.error, "paths": res.paths, "wall": round(res.wall, 2),
        "sha256": res.fs.sha256, "lines": [res.fs.lineno, res.fs.end_lineno], "file": res.fs.file,
        "vacuity": res.vacuity, "stats": res.stats, "obligations": [], "assumes": c.assumes, "crash": False,
    }
    for o in res.obligations:
        j = o.to_json()
        if o.status in ("failed",) and o.model is not None:
            try:
                eng = res.engine
                rf = Reifier(eng, o.model, eng.entry_state, o.state)
                inputs = rf.run(c, eng.entry_state.frames[0])
                stubs, stub_kinds = {}, {}
                for key, (fn, cls, kind, how) in getattr(c, "stubs", {}).items():
                    stubs.update(function_tables(rf, {key: (fn, cls, kind)}))
                    stub_kinds[key] = how
                j["witness"] = {
                    "contract": c.name, "target": c.target, "obligation": o.name, "exact_model": bool(getattr(o, "exact_model", True)),
                    "inputs": inputs, "stubs": stubs, "stub_kinds": stub_kinds, "call": native_call(c, res.fs),
                    "requires": c.requires, "ensures": [list(e) for e in c.ensures], "raises": c.raises,
                    "raises_only_if": c.raises_only_if, "path": o.detail, "line": o.line,
                    "model_excerpt": str(o.model)[:4000],
                }
            except Exception:
                j["witness_error"] = traceback.format_exc()[-1500:]
        out["obligations"].append(j)
    return out


def native_call(c, fs):
    names = [n for n in c.params]
    if fs.cls is not None:
        attr = fs.qualname.split(".")[-1]
        if fs.is_property:
            return {"how": "property", "self": names[0], "name": attr}
        if fs.is_staticmethod or fs.is_classmethod:
            return {"how": "function", "module": fs.file[:-3].replace("/", "."), "name": fs.qualname,
                    "args": names[1:] if fs.is_classmethod else names}
        return {"how": "method", "self": names[0], "name": attr, "args": names[1:]}
    return {"how": "function", "module": fs.file[:-3].replace("/", "."), "name": fs.qualname, "args": names}


# ------------------------------------------------------------------------------ parent side
def load_contracts(modules):
    from . import contract as C
    for m in modules:
        importlib.import_module(m)
    return list(C.REGISTRY)


def run_e1(pid, modules, jobs=None):
    from .source import RepoIndex
    import contracts.schema as schema
    all_contracts = load_contracts(modules)
    contracts = [c for c in all_contracts if pid in c.props]
    idx = RepoIndex(repo_path())
    idx.load_all()
    _CTX.update(contracts=contracts, index=idx, schema=schema)
    jobs = jobs or min(len(contracts), int(os.environ.get("VERIF_JOBS", "14"))) or 1
    if not contracts:
        return []
    ctx = mp.get_context("fork")
    with ctx.Pool(processes=jobs, maxtasksperchild=1) as pool:
        results = pool.map(_child_verify, range(len(contracts)), chunksize=1)
    return results


def native_replay(witness, path):
    os.makedirs(os.path.dirname(path), exist_ok=True)
    witness = dict(witness, repo=repo_path())
    with open(path, "w") as f:
        json.dump(witness, f, indent=1, default=str)
    env = dict(os.environ, VERIF_REPO=repo_path(), PYTHONPATH=repo_path())
    try:
        p = subprocess.run([VENV_PY, os.path.join(ROOT, "replay", "native_replay.py"), path], capture_output=True,
                           text=True, timeout=300, env=env, cwd=ROOT)
    except subprocess.TimeoutExpired:
        return {"status": "error", "trace": "native replay timed out"}
    for line in p.stdout.splitlines():
        if line.startswith("REPLAY-VERDICT "):
            return json.loads(line[len("REPLAY-VERDICT "):])
    return {"status": "error", "trace": (p.stdout + p.stderr)[-2000:]}


def load_json(path, default):
    try:
        with open(path) as f:
            return json.load(f)
    except FileNotFoundError:
        return default


class PropertyRun:
    """Collects the outcome of all engines for one property and writes the evidence."""

    def __init__(self, pid, tier):
        self.pid, self.tier = pid, tier
        self.t0 = time.time()
        self.violations = []      # (obligation, replay path, suffix)
        self.known = []
        self.undecided = []
        self.errors = []
        self.functions = []
        self.obligations = []
        self.bounded = []
        self.extra = {}
        self.seed = int(os.environ.get("VERIF_SEED", "0") or 0)

    def add_e1(self, results, expected):
        known = [k for k in load_json(os.path.join(ROOT, "known_findings.json"), {"findings": []})["findings"]
                 if k.get("property") == self.pid and k.get("status") == "known"]
        for r in results:
            self.functions.append({
                "contract": r["contract"], "target": r["target"], "sha256": r.get("sha256"), "lines": r.get("lines"),
                "engine": "E1 pyvc (z3)", "paths": r["paths"], "wall_s": r["wall"], "error": r["error"],
                "vacuity": r.get("vacuity"),
            })
            if r.get("crash"):
                self.errors.append(f"{r['contract']}: {r['error']}")
                continue
            if r["error"]:
                # outside the subset / spec error: obligations of this function are not decided by E1
                self.undecided.append({"obligation": r["contract"] + ".*", "reason": r["error"]})
                continue
            for o in r["obligations"]:
                rec = {k: o[k] for k in ("name", "status", "ms", "kind", "line", "backend")}
                self.obligations.append(rec)
                if o["status"] == "proved":
                    continue
                if o["status"] == "vacuous":
                    self.errors.append(f"{o['name']}: vacuous ({o.get('detail')})")
                    continue
                path = os.path.join(ROOT, "replays", self.pid, o["name"].replace("/", "_").replace(" ", "_") + ".json")
                if o["status"] == "unknown":
                    self.undecided.append({"obligation": o["name"], "reason": "solver returned unknown / timeout",
                                           "detail": o.get("detail")})
                    continue
                # failed: a model of the negated VC exists
                verdict = None
                if "witness" in o:
                    verdict = native_replay(o["witness"], path)
                    rec["replay"] = verdict
                else:
                    os.makedirs(os.path.dirname(path), exist_ok=True)
                    with open(path, "w") as f:
                        json.dump({"obligation": o["name"], "contract": r["contract"], "target": r["target"],
                                   "note": "model could not be reified", "detail": o.get("detail"),
                                   "witness_error": o.get("witness_error")}, f, indent=1)
                confirmed = bool(verdict and verdict.get("status") == "ok" and verdict.get("violated"))
                kf = match_known(known, o["name"], o.get("witness"), verdict)
                if kf is not None:
                    self.known.append((kf, o["name"]))
                    rec["known_finding"] = kf["id"]
                    continue
                was_proved = o["name"] in expected
                if confirmed:
                    self.violations.append((o["name"], path, ""))
                    annotate(path, verdict, "confirmed by native replay")
                elif was_proved or expected is None:
                    annotate(path, verdict, "obligation has a counter-model but no failing input was reproduced natively")
                    self.violations.append((o["name"], path, " no-failing-input-found"))
                else:
                    self.undecided.append({"obligation": o["name"], "reason": "counter-model not confirmed natively",
                                           "replay": verdict})

    def finish(self, level, explanation, trusted_base, assumptions, undecided_clauses, checker_cmd, extra=None):
        n_ob = len(self.obligations)
        n_ok = sum(1 for o in self.obligations if o["status"] == "proved" or o.get("known_finding"))
        evidence = {
            "property_id": self.pid, "tier": self.tier, "seed": self.seed, "level": level,
            "coverage": {
                "obligations": n_ob, "discharged": sum(1 for o in self.obligations if o["status"] == "proved"),
                "checker_cmd": checker_cmd, "trusted_base": trusted_base, "explanation": explanation,
                "samples": [o for o in self.obligations[:6]],
                "functions_under_contract": self.functions,
                "obligation_list": self.obligations,
                "bounded": self.bounded,
                "undecided_clauses": undecided_clauses,
                "undecided_obligations": self.undecided,
                "known_findings": [{"id": k["id"], "obligation": ob, "text": k["text"]} for k, ob in self.known],
                "solver_ms_total": round(sum(o["ms"] for o in self.obligations), 1),
            },
            "assumptions": assumptions,
            "wall_s": round(time.time() - self.t0, 2),
            "violations": len(self.violations),
        }
        if self.bounded:
            ev = sum(b.get("cases", 0) for b in self.bounded)
            evidence["coverage"]["evaluations"] = ev
            evidence["coverage"]["distinct_nontrivial"] = sum(b.get("distinct_nontrivial", 0) for b in self.bounded)
            evidence["coverage"]["rule"] = "; ".join(b.get("rule", "") for b in self.bounded)
        if extra:
            evidence["coverage"].update(extra)
        os.makedirs(os.path.join(ROOT, "evidence"), exist_ok=True)
        with open(os.path.join(ROOT, "evidence", f"{self.pid}.json"), "w") as f:
            json.dump(evidence, f, indent=1, default=str)
        for k, ob in self.known:
            print(f"KNOWN-FINDING: property={self.pid} {k['text']}")
        for name, path, suffix in self.violations:
            print(f"VIOLATION property={self.pid} replay={path}{suffix}")
            print(f"  failed obligation: {name}")
        if self.errors:
            for e in self.errors:
                print(f"CHECKER-ERROR: {e}")
            return 3
        if self.violations:
            return 1
        if self.undecided:
            for u in self.undecided:
                print(f"UNDECIDED: {u['obligation']}: {u['reason']}")
            return 2
        print(f"OK property={self.pid} obligations={n_ob} discharged={n_ok} wall={evidence['wall_s']}s")
        return 0


def annotate(path, verdict, note):
    try:
        d = load_json(path, {})
        d["replay_verdict"] = verdict
        d["replay_note"] = note
        with open(path, "w") as f:
            json.dump(d, f, indent=1, default=str)
    except Exception:
        pass


def match_known(known, obligation, witness, verdict):
    for k in known:
        if k.get("obligation") == obligation:
            return k
    return None
