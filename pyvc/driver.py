"""Per-property check driver: E1 obligations in a process pool, replay of counterexamples, evidence."""
import importlib
import json
import multiprocessing as mp
import os
import subprocess
import sys
import time
import traceback

ROOT = os.path.dirname(os.path.dirname(os.path.abspath(__file__)))
VENV_PY = "/venv/bin/python"


def repo_path():
    return os.environ.get("VERIF_REPO", "/repo")


# ------------------------------------------------------------------------------ child side
_CTX = {}


def _child_verify(i):
    from . import contract as C
    from . import kinds
    from .reify import Reifier, function_tables
    import z3
    kinds._fresh_counter[0] = 0
    seed = int(os.environ.get("VERIF_SEED", "0") or 0)
    # the solver seed is fixed: proof outcomes must not depend on VERIF_SEED (which only drives the bounded sampling)
    z3.set_param("smt.random_seed", 0)
    c = _CTX["contracts"][i]
    idx, schema = _CTX["index"], _CTX["schema"]
    t0 = time.time()
    try:
        res = C.verify(c, idx, schema)
    except Exception:
        return {"contract": c.name, "target": c.target, "error": "engine crash: " + traceback.format_exc()[-2500:],
                "obligations": [], "paths": 0, "wall": time.time() - t0, "sha256": None, "crash": True}
    out = {
        "contract": c.name, "target": c.target, "error": res.error, "paths": res.paths, "wall": round(res.wall, 2),
        "sha256": res.fs.sha256, "lines": [res.fs.lineno, res.fs.end_lineno], "file": res.fs.file,
        "vacuity": res.vacuity, "stats": res.stats, "obligations": [], "assumes": c.assumes, "crash": False,
    }
    eng0 = getattr(res, "engine", None)
    if res.error and res.error.startswith("SourceNotFound"):
        out["fuzz_job"] = None
    elif eng0 is not None and eng0.entry_state is not None:
        ghost_kinds = {g: kind_json(v.kind) for g, v in eng0.entry_state.ghost.items() if hasattr(v, "kind") and v.kind.smt}
        out["fuzz_job"] = fuzz_job(c, res.fs, schema.SCHEMA, eng0.accessed_param_keys, ghost_kinds, seed, 20,
                                   numeric_keys=eng0.numeric_param_keys)
    else:
        # the engine gave up: parameter keys are harvested from the string literals of the source instead
        out["fuzz_job"] = fuzz_job(c, res.fs, schema.SCHEMA, set(source_literals(res.fs, c)), {}, seed, 20)
    # a native run of the real function is comparable with the contract only if every summarised callee has a native
    # counterpart: verified callee contracts and scripted seams do, unverified summaries and other seams do not
    def _native_ok(h):
        if getattr(h, "seam", None) is not None:
            return h.seam in ("run", "sleep") or any(h.seam in x for x in getattr(c, "native_seams", []))
        cc = getattr(h, "contract", None)
        if cc is not None:
            return bool(cc.props)
        return bool(getattr(h, "native", False))      # other hand-written handlers: only if marked as having a native twin
    out["crosscheckable"] = all(_native_ok(h) for h in c.overrides.values() if callable(h))
    if c.block is not None:
        out["fuzz_job"] = None      # an extracted statement block is not callable natively
    for o in res.obligations:
        j = o.to_json()
        if o.status in ("failed",) and o.model is not None and c.block is not None:
            j["witness_error"] = "extracted statement block: the counter-model is reported, not replayed natively"
            j["model_excerpt"] = str(o.model)[:6000]
        elif o.status in ("failed",) and o.model is not None:
            try:
                eng = res.engine
                rf = Reifier(eng, o.model, eng.entry_state, o.state)
                inputs = rf.run(c, eng.entry_state.frames[0])
                stubs, stub_kinds = {}, {}
                for key, (fn, cls, kind, how) in getattr(c, "stubs", {}).items():
                    stubs.update(function_tables(rf, {key: (fn, cls, kind)}))
                    stub_kinds[key] = how
                from .reify import otp_tables
                otp = otp_tables(rf) if any(d.name() in ("otp_has", "otp_val") for d in o.model.decls()) else {}
                j["witness"] = {
                    "otp": otp,
                    "contract": c.name, "target": c.target, "obligation": o.name, "exact_model": bool(getattr(o, "exact_model", True)),
                    "inputs": inputs, "stubs": stubs, "stub_kinds": stub_kinds, "call": native_call(c, res.fs),
                    "requires": c.requires, "ensures": [list(e) for e in c.ensures] + [list(e) for e in c.native_ensures],
                    "raises": c.raises, "raises_only_if": c.raises_only_if, "path": o.detail, "line": o.line,
                    "model_excerpt": str(o.model)[:4000],
                }
            except Exception:
                j["witness_error"] = traceback.format_exc()[-1500:]
        out["obligations"].append(j)
    return out


def kind_json(k):
    from .kinds import INT, BOOL, STR, REAL, Ref, Seq, SetK, Map, Opt
    if k == INT:
        return "int"
    if k == BOOL:
        return "bool"
    if k == STR:
        return "str"
    if k == REAL:
        return "float"
    if isinstance(k, Ref):
        return ["ref", k.cls]
    if isinstance(k, Seq):
        return ["seq", kind_json(k.elem)]
    if isinstance(k, SetK):
        return ["set", kind_json(k.elem)]
    if isinstance(k, Map):
        return ["map", kind_json(k.key), kind_json(k.val)]
    if isinstance(k, Opt):
        return ["opt", kind_json(k.base)]
    return "py"


def schema_json(schema):
    out = {}
    for cls, sc in schema.items():
        out[cls] = {"bases": sc.get("bases", []), "fields": {f: kind_json(k) for f, k in sc.get("fields", {}).items()},
                    "nonnull": sc.get("nonnull", []), "pools": sc.get("pools", {})}
    return out


def source_literals(fs, contract):
    import ast as _ast
    lits = []
    for node in _ast.walk(fs.node):
        if isinstance(node, _ast.Constant) and isinstance(node.value, str) and len(node.value) < 40 and "\n" not in node.value:
            lits.append(node.value)
    for e in list(contract.requires) + [x[1] for x in contract.ensures] + [w for w in contract.raises.values() if w]:
        try:
            for node in _ast.walk(_ast.parse(e.strip(), mode="eval")):
                if isinstance(node, _ast.Constant) and isinstance(node.value, str) and len(node.value) < 40:
                    lits.append(node.value)
        except SyntaxError:
            pass
    return list(dict.fromkeys(lits))


def fuzz_job(c, fs, schema, param_keys, ghost_kinds, seed, budget_s, numeric_keys=()):
    from .kinds import Kind, VNone
    params = {}
    for name, kind in c.params.items():
        nullable = False
        if isinstance(kind, tuple):
            kind, nullable = kind[0], kind[1] == "nullable"
        if isinstance(kind, Kind):
            params[name] = {"kind": kind_json(kind), "nullable": nullable}
        else:
            from .kinds import concrete, V as _V
            ok, cv = concrete(kind) if isinstance(kind, (_V, VNone)) else (False, None)
            if ok and cv is not None:
                params[name] = {"kind": "const", "value": {"t": type(cv).__name__, "v": cv}}
            else:
                params[name] = {"kind": "none", "nullable": True}
    return {
        "repo": repo_path(),
        "contract": {"name": c.name, "target": c.target, "requires": c.requires, "ensures": [list(e) for e in c.ensures] + [list(e) for e in c.native_ensures],
                     "raises": c.raises, "raises_only_if": c.raises_only_if, "call": native_call(c, fs), "params": params},
        "schema": schema_json(schema), "literals": source_literals(fs, c), "param_keys": sorted(param_keys),
        "stubs": {k: [v[1], kind_json(v[2]), v[3]] for k, v in c.stubs.items()},
        "ghost": ghost_kinds, "seed": seed, "budget_s": budget_s, "numeric_keys": sorted(numeric_keys),
        "seams": list(getattr(c, "native_seams", [])),
    }


def run_fuzz(job, path):
    os.makedirs(os.path.dirname(path), exist_ok=True)
    with open(path, "w") as f:
        json.dump(job, f, indent=1, default=str)
    env = dict(os.environ, VERIF_REPO=repo_path(), PYTHONPATH=repo_path())
    try:
        p = subprocess.run([VENV_PY, os.path.join(ROOT, "replay", "fuzz.py"), path], capture_output=True, text=True,
                           timeout=job.get("budget_s", 20) + 120, env=env, cwd=ROOT)
    except subprocess.TimeoutExpired:
        return {"found": False, "error": "fuzz timed out"}
    for line in p.stdout.splitlines():
        if line.startswith("FUZZ-RESULT "):
            return json.loads(line[len("FUZZ-RESULT "):])
    return {"found": False, "error": (p.stdout + p.stderr)[-2000:]}


def native_call(c, fs):
    names = [n for n in c.params]
    if fs.cls is not None:
        attr = fs.qualname.split(".")[-1]
        if fs.is_property:
            return {"how": "property", "self": names[0], "name": attr}
        if fs.is_staticmethod or fs.is_classmethod:
            return {"how": "function", "module": fs.file[:-3].replace("/", "."), "name": fs.qualname,
                    "args": names[1:] if fs.is_classmethod else names}
        return {"how": "method", "self": names[0], "name": attr, "args": names[1:]}
    return {"how": "function", "module": fs.file[:-3].replace("/", "."), "name": fs.qualname, "args": names}


# ------------------------------------------------------------------------------ parent side
def load_contracts(modules):
    from . import contract as C
    for m in modules:
        importlib.import_module(m)
    return list(C.REGISTRY)


def run_e1(pid, modules, jobs=None):
    from .source import RepoIndex
    import contracts.schema as schema
    all_contracts = load_contracts(modules)
    tier = os.environ.get("VERIF_TIER_EFFECTIVE", "quick")
    contracts = [c for c in all_contracts if pid in c.props and (c.tier == "quick" or (tier == "thorough" and c.tier == "thorough"))]
    idx = RepoIndex(repo_path())
    idx.load_all()
    _CTX.update(contracts=contracts, index=idx, schema=schema)
    jobs = jobs or min(len(contracts), int(os.environ.get("VERIF_JOBS", "14"))) or 1
    if not contracts:
        return []
    ctx = mp.get_context("fork")
    with ctx.Pool(processes=jobs, maxtasksperchild=1) as pool:
        results = pool.map(_child_verify, range(len(contracts)), chunksize=1)
    return results


def native_replay(witness, path):
    os.makedirs(os.path.dirname(path), exist_ok=True)
    witness = dict(witness, repo=repo_path())
    with open(path, "w") as f:
        json.dump(witness, f, indent=1, default=str)
    env = dict(os.environ, VERIF_REPO=repo_path(), PYTHONPATH=repo_path())
    try:
        p = subprocess.run([VENV_PY, os.path.join(ROOT, "replay", "native_replay.py"), path], capture_output=True,
                           text=True, timeout=300, env=env, cwd=ROOT)
    except subprocess.TimeoutExpired:
        return {"status": "error", "trace": "native replay timed out"}
    for line in p.stdout.splitlines():
        if line.startswith("REPLAY-VERDICT "):
            return json.loads(line[len("REPLAY-VERDICT "):])
    return {"status": "error", "trace": (p.stdout + p.stderr)[-2000:]}


def load_json(path, default):
    try:
        with open(path) as f:
            return json.load(f)
    except FileNotFoundError:
        return default


class PropertyRun:
    """Collects the outcome of all engines for one property and writes the evidence."""

    def __init__(self, pid, tier):
        self.pid, self.tier = pid, tier
        self.t0 = time.time()
        self.violations = []      # (obligation, replay path, suffix)
        self.known = []
        self.undecided = []
        self.errors = []
        self.functions = []
        self.obligations = []
        self.bounded = []
        self.extra = {}
        self.seed = int(os.environ.get("VERIF_SEED", "0") or 0)
        self._fuzzed = {}

    def add_e1(self, results, expected):
        known = [k for k in load_json(os.path.join(ROOT, "known_findings.json"), {"findings": []})["findings"]
                 if k.get("property") == self.pid and k.get("status") == "known"]
        # bounded native searches for all contracts with an unconfirmed failed obligation run concurrently
        self.prefuzz(results, known_ids={k.get("obligation") for k in known})
        for r in results:
            self.functions.append({
                "contract": r["contract"], "target": r["target"], "sha256": r.get("sha256"), "lines": r.get("lines"),
                "engine": "E1 pyvc (z3)", "paths": r["paths"], "wall_s": r["wall"], "error": r["error"],
                "vacuity": r.get("vacuity"),
            })
            if r.get("crash"):
                self.errors.append(f"{r['contract']}: {r['error']}")
                continue
            if r["error"]:
                # outside the subset / spec error: obligations of this function are not decided by E1;
                # the bounded native search on the same contract stands in
                fr = self._fuzzed.get(r["contract"])
                if fr and fr.get("found"):
                    self.report_native_counterexample(r, fr, r["contract"] + ".*")
                else:
                    self.undecided.append({"obligation": r["contract"] + ".*", "reason": r["error"],
                                           "native_search": (fr or {}).get("stats")})
                continue
            for o in r["obligations"]:
                rec = {k: o[k] for k in ("name", "status", "ms", "kind", "line", "backend")}
                self.obligations.append(rec)
                if o["status"] == "proved":
                    continue
                if o["status"] == "vacuous":
                    fr = self._fuzzed.get(r["contract"])
                    if fr and fr.get("found"):
                        self.report_native_counterexample(r, fr, o["name"])
                    else:
                        self.undecided.append({"obligation": o["name"], "reason": f"vacuous ({o.get('detail')})"})
                    continue
                path = os.path.join(ROOT, "replays", self.pid, o["name"].replace("/", "_").replace(" ", "_") + ".json")
                if o["status"] == "unknown":
                    self.undecided.append({"obligation": o["name"], "reason": "solver returned unknown / timeout",
                                           "detail": o.get("detail")})
                    continue
                # failed: a model of the negated VC exists
                verdict = None
                if "witness" in o:
                    verdict = native_replay(o["witness"], path)
                    rec["replay"] = verdict
                else:
                    os.makedirs(os.path.dirname(path), exist_ok=True)
                    with open(path, "w") as f:
                        json.dump({"obligation": o["name"], "contract": r["contract"], "target": r["target"],
                                   "note": "model could not be reified", "detail": o.get("detail"),
                                   "witness_error": o.get("witness_error"),
                                   "verifier_output": {"status": o["status"], "path": o.get("detail"), "line": o.get("line"),
                                                       "counter_model_excerpt": o.get("model_excerpt")}}, f, indent=1)
                confirmed = bool(verdict and verdict.get("status") == "ok" and verdict.get("violated"))
                fr = self._fuzzed.get(r["contract"])
                if fr is not None:
                    rec["fuzz"] = fr.get("stats") or fr.get("error")
                if not confirmed and fr and fr.get("found"):
                    w = fr["witness"]
                    w["note"] = ("found by bounded native search after the deductive check produced a counter-model "
                                 "that did not replay; failed obligation: " + o["name"])
                    w["failed_obligation"] = o["name"]
                    path = os.path.join(ROOT, "replays", self.pid, r["contract"].replace("/", "_").replace(" ", "_") + ".counterexample.json")
                    with open(path, "w") as f:
                        json.dump(w, f, indent=1, default=str)
                    verdict = w.get("replay_verdict")
                    confirmed = True
                kf = match_known(known, o["name"], o.get("witness"), verdict)
                if kf is not None:
                    self.known.append((kf, o["name"]))
                    rec["known_finding"] = kf["id"]
                    continue
                was_proved = expected is None or o["name"] in expected or o.get("kind") not in ("post", "exc", "frame")
                if confirmed:
                    if not any(v[1] == path for v in self.violations):
                        self.violations.append((o["name"], path, ""))
                    annotate(path, verdict, "confirmed by native replay")
                elif was_proved:
                    annotate(path, verdict, "obligation has a counter-model but no failing input was reproduced natively")
                    self.violations.append((o["name"], path, " no-failing-input-found"))
                else:
                    annotate(path, verdict, "counter-model not confirmed natively; obligation not recorded as proved before")
                    self.undecided.append({"obligation": o["name"], "reason": "counter-model not confirmed natively",
                                           "replay": verdict})

    def report_native_counterexample(self, r, fr, obligation):
        w = fr["witness"]
        w["note"] = ("found by bounded native search on the real function (the deductive engine could not decide "
                     "the obligation on this source); failed obligation: " + obligation)
        w["failed_obligation"] = obligation
        path = os.path.join(ROOT, "replays", self.pid, r["contract"].replace("/", "_").replace(" ", "_") + ".counterexample.json")
        os.makedirs(os.path.dirname(path), exist_ok=True)
        with open(path, "w") as f:
            json.dump(w, f, indent=1, default=str)
        if not any(v[1] == path for v in self.violations):
            self.violations.append((obligation, path, ""))

    def prefuzz(self, results, known_ids):
        from concurrent.futures import ThreadPoolExecutor
        todo = []
        for r in results:
            if r.get("crash") or not r.get("fuzz_job"):
                continue
            if r["error"] or any(o["status"] in ("failed", "vacuous", "unknown") and o["name"] not in known_ids
                                 for o in r["obligations"]):
                todo.append(r)

        # at most 4 contracts are searched (distinct target functions first), each with several seeds in parallel
        todo.sort(key=lambda r: (sum(1 for q in todo if q["target"] == r["target"] and q["contract"] < r["contract"]), r["contract"]))
        todo = todo[:4]
        seeds = 4 if self.tier == "quick" else 8
        jobs = [(r, k) for r in todo for k in range(seeds)]

        def one(item):
            r, k = item
            job = dict(r["fuzz_job"], budget_s=30 if self.tier == "quick" else 120, seed=self.seed * 100 + k)
            path = os.path.join(ROOT, "replays", self.pid,
                                r["contract"].replace("/", "_").replace(" ", "_") + f".seed{k}.fuzzjob")
            return r["contract"], run_fuzz(job, path)
        if jobs:
            with ThreadPoolExecutor(max_workers=16) as ex:
                for name, fr in ex.map(one, jobs):
                    prev = self._fuzzed.get(name)
                    if prev is None or (fr.get("found") and not prev.get("found")):
                        if prev is not None and fr.get("stats") and prev.get("stats"):
                            fr["stats"]["checked"] = fr["stats"].get("checked", 0) + prev["stats"].get("checked", 0)
                        self._fuzzed[name] = fr
                    elif fr.get("stats") and prev.get("stats"):
                        prev["stats"]["checked"] = prev["stats"].get("checked", 0) + fr["stats"].get("checked", 0)

    def crosscheck(self, results, budget_s):
        """E3: the contracts evaluated natively on generated inputs (tested, not proved). A contract that fails
        natively although its obligations were discharged reveals an encoding gap: checker error, not a violation."""
        from concurrent.futures import ThreadPoolExecutor
        jobs = [(r["contract"], dict(r["fuzz_job"], budget_s=budget_s)) for r in results if r.get("fuzz_job") and not r["error"]]

        def one(item):
            name, job = item
            path = os.path.join(ROOT, "replays", self.pid, "crosscheck_" + name.replace("/", "_") + ".fuzzjob")
            return name, run_fuzz(job, path), path
        with ThreadPoolExecutor(max_workers=12) as ex:
            outs = list(ex.map(one, jobs))
        self.extra["cross_check"] = []
        for name, fr, path in outs:
            st = fr.get("stats", {})
            self.extra["cross_check"].append({"contract": name, "found": fr.get("found"), "checked": st.get("checked"),
                                              "rejected_by_requires": st.get("precondition_rejected"),
                                              "outcomes": st.get("outcomes"), "error": fr.get("error") or st.get("first_error")})
            if fr.get("found"):
                wpath = path.replace(".fuzzjob", ".json")
                with open(wpath, "w") as f:
                    json.dump(fr["witness"], f, indent=1, default=str)
                proved = all(o["status"] == "proved" for o in self.obligations if o["name"].startswith(name + "."))
                msg = f"native cross-check of {name} found a contract violation ({fr['witness'].get('obligation')}) see {wpath}"
                verdict = fr["witness"].get("replay_verdict") or {}
                clean = not verdict.get("errors")
                comparable = next((r.get("crosscheckable", True) for r in results if r["contract"] == name), True)
                if proved and clean and comparable:
                    self.errors.append("encoding gap: " + msg)
                else:
                    # not a like-for-like comparison (the precondition could not be evaluated on the generated input, or
                    # the contract summarises callees that have no native counterpart): recorded, not an error
                    self.extra["cross_check"][-1]["not_comparable"] = ("requires not evaluable" if not clean else
                                                                        "summarised callees without native counterpart")
                    print("CROSSCHECK-NOTE: " + msg + " [not comparable]")

    def finish(self, level, explanation, trusted_base, assumptions, undecided_clauses, checker_cmd, extra=None):
        e1 = [o for o in self.obligations if o.get("kind") != "bounded"]
        n_ob = len(e1)
        n_ok = sum(1 for o in e1 if o["status"] == "proved" or o.get("known_finding"))
        evidence = {
            "property_id": self.pid, "tier": self.tier, "seed": self.seed, "level": level,
            "coverage": {
                "obligations": n_ob, "discharged": sum(1 for o in e1 if o["status"] == "proved"),
                "bounded_obligations": sum(1 for o in self.obligations if o.get("kind") == "bounded"),
                "checker_cmd": checker_cmd, "trusted_base": trusted_base, "explanation": explanation,
                "samples": [o for o in self.obligations[:6]],
                "functions_under_contract": self.functions,
                "obligation_list": self.obligations,
                "bounded": self.bounded,
                "undecided_clauses": undecided_clauses,
                "undecided_obligations": self.undecided,
                "known_findings": [{"id": k["id"], "obligation": ob, "text": k["text"]} for k, ob in self.known],
                "solver_ms_total": round(sum(o["ms"] for o in self.obligations), 1),
            },
            "assumptions": assumptions,
            "wall_s": round(time.time() - self.t0, 2),
            "violations": len(self.violations),
        }
        if self.bounded:
            ev = sum(b.get("cases", 0) for b in self.bounded)
            evidence["coverage"]["evaluations"] = ev
            evidence["coverage"]["distinct_nontrivial"] = sum(b.get("distinct_nontrivial", 0) for b in self.bounded)
            evidence["coverage"]["rule"] = "; ".join(b.get("rule", "") for b in self.bounded)
        if extra:
            evidence["coverage"].update(extra)
        evidence["coverage"].update(self.extra)
        # VERIF_EVIDENCE_DIR: development switch used when the checks are pointed at a deliberately changed scratch copy
        evdir = os.environ.get("VERIF_EVIDENCE_DIR") or os.path.join(ROOT, "evidence")
        os.makedirs(evdir, exist_ok=True)
        with open(os.path.join(evdir, f"{self.pid}.json"), "w") as f:
            json.dump(evidence, f, indent=1, default=str)
        for k, ob in self.known:
            print(f"KNOWN-FINDING: property={self.pid} {k['text']}")
        for name, path, suffix in self.violations:
            print(f"VIOLATION property={self.pid} replay={path}{suffix}")
            print(f"  failed obligation: {name}")
        if self.errors:
            for e in self.errors:
                print(f"CHECKER-ERROR: {e}")
            return 3
        if self.violations:
            return 1
        if self.undecided:
            for u in self.undecided:
                print(f"UNDECIDED: {u['obligation']}: {u['reason']}")
            return 2
        print(f"OK property={self.pid} obligations={n_ob} discharged={n_ok} wall={evidence['wall_s']}s")
        return 0


def annotate(path, verdict, note):
    try:
        d = load_json(path, {})
        d["replay_verdict"] = verdict
        d["replay_note"] = note
        with open(path, "w") as f:
            json.dump(d, f, indent=1, default=str)
    except Exception:
        pass


def match_known(known, obligation, witness, verdict):
    for k in known:
        if k.get("obligation") == obligation:
            return k
    return None
