"""Side-car contracts and the per-function verification driver."""
import ast
import os
import time
import traceback
import z3

from .kinds import safe_forall
from .kinds import (V, VNone, NONE, VTuple, VList, VDict, VFunc, VClass, VModule, VExc, Kind,
                    INT, BOOL, STR, REAL, Ref, Seq, SetK, Map, Opt, PyKind, RefSort, NULL,
                    const, concrete, fresh, fresh_name)
from .engine import Engine, State, Untranslatable, SpecError, exc_isinstance
from .models import Models

REGISTRY = []


class Contract:
    """Contract of one repository function.

    target    "file::Qual.name"
    params    ordered dict name -> Kind (or (Kind, "nullable"))
    requires  list of python expressions over the parameters (and ghost names)
    ensures   list of (name, python expression) evaluated in the post-state; `result`, `old(e)` available
    raises    dict exception class -> expression over the PRE-state, or None ("may be raised, no condition claimed");
              an exception not listed is an unexpected outcome (failed obligation); for listed ones with a
              condition the exception must be raised exactly when it holds (unless `raises_only_if` is set)
    loops     dict loop ordinal -> {"invariants": [...], "modifies": [...], "kinds": {...}}
    overrides dict "Class.method" -> handler used instead of inlining
    setup     callable(engine, state, args) run after parameter creation (ghost state, extra assumptions)
    props     property ids this contract serves
    """

    def __init__(self, target, params, requires=(), ensures=(), raises=None, loops=None, overrides=None,
                 setup=None, props=(), name=None, raises_only_if=False, notes="", assumes=(), result_kind=None,
                 frame=None, extra_names=None, timeout=10000, path_ensures=None, stubs=None, tier="quick",
                 case=None, native_seams=None, ghost_frame=None, block=None, outputs=None,
                 exc_ensures=None, native_ensures=None, aliases=None):
        self.target = target
        self.params = params
        self.requires = list(requires)
        self.ensures = list(ensures)
        self.raises = dict(raises or {})
        self.loops = dict(loops or {})
        self.overrides = dict(overrides or {})
        self.setup = setup
        self.props = list(props)
        self.name = name or target.split("::")[1]
        self.raises_only_if = raises_only_if
        self.notes = notes
        self.assumes = list(assumes)     # textual assumptions listed in the evidence
        self.result_kind = result_kind
        self.frame = frame               # list of heap fields that may be written (None = unchecked)
        self.extra_names = dict(extra_names or {})
        self.timeout = timeout
        self.path_ensures = path_ensures
        self.tier = tier                 # "quick": every run; "thorough": only in the thorough tier
        # clauses evaluated only by the native replay / search (equivalent re-statements of ensures that mention
        # function locals and are therefore not evaluable on the result alone); never counted as discharged
        self.native_ensures = list(native_ensures or [])
        self.exc_ensures = list(exc_ensures or [])   # (name, expr) over the state at an exceptional exit
        self.outputs = dict(outputs or {})   # block contracts: locals the block may define (arbitrary value where it did not)
        # spec name -> selector(func ast) -> the function's own name of that local: the specification then survives a renamed local
        self.aliases = dict(aliases or {})
        self.block = block               # (name, selector(func ast) -> statements): verify an extracted statement block
        self.ghost_frame = list(ghost_frame or [])     # ghost variables a call may change (havoced at call sites)
        self.native_seams = list(native_seams or [])   # seams scripted by the native replay / search harness
        self.case = case                 # label of the precondition case this contract instance covers
        self.stubs = dict(stubs or {})   # "Class.attr" -> (z3 function, owner class, result kind, 'property'|'method')
        import inspect
        try:
            self.module = inspect.currentframe().f_back.f_globals.get("__name__", "?")
            if self.module.startswith("pyvc"):
                self.module = inspect.currentframe().f_back.f_back.f_globals.get("__name__", "?")
        except Exception:
            self.module = "?"
        REGISTRY.append(self)

    def raises_nondeterministic(self):
        return any(w is None for w in self.raises.values())


def parse_expr(src):
    return ast.parse(src.strip(), mode="eval").body


class ObligationResult:
    def __init__(self, name, status, ms, detail=None, model=None, state=None, line=None, kind="post", smt_size=0,
                 backend="z3"):
        self.name, self.status, self.ms, self.detail = name, status, ms, detail
        self.model, self.state, self.line, self.kind = model, state, line, kind
        self.smt_size = smt_size
        self.backend = backend

    def to_json(self):
        return {"name": self.name, "status": self.status, "ms": round(self.ms, 1), "kind": self.kind,
                "line": self.line, "backend": self.backend, "detail": self.detail, "vc_size": self.smt_size}


class FunctionResult:
    def __init__(self, contract, fs):
        self.contract, self.fs = contract, fs
        self.obligations = []       # aggregated ObligationResult list
        self.paths = 0
        self.error = None           # Untranslatable / engine error text
        self.stats = {}
        self.wall = 0.0
        self.vacuity = {}
        self.fail_fast = False

    @property
    def ok(self):
        return self.error is None and all(o.status == "proved" for o in self.obligations) and self.obligations


def decl_names(exprs):
    """Names of the uninterpreted declarations occurring in a list of z3 expressions."""
    seen, names, todo = set(), set(), list(exprs)
    while todo:
        e = todo.pop()
        if e.get_id() in seen:
            continue
        seen.add(e.get_id())
        if z3.is_app(e):
            d = e.decl()
            if d.kind() == z3.Z3_OP_UNINTERPRETED:
                names.add(d.name())
            todo.extend(e.children())
        elif z3.is_quantifier(e):
            todo.append(e.body())
    return names


def relevant_axioms(axioms, pc, cond):
    """Keep the quantified background axioms whose function symbols occur in the VC."""
    used = decl_names(list(pc) + [cond])
    out = []
    for a in axioms:
        if z3.is_quantifier(a):
            syms = {n for n in decl_names([a]) if not n.startswith("ax_")}
            if syms and not (syms & used):
                continue
        else:
            syms = decl_names([a])
            if syms and not (syms & used):
                continue
        out.append(a)
    return out


def prune_orphans(hyps, cond):
    """Drop hypotheses that only define fresh symbols nobody else mentions (sound: fewer hypotheses)."""
    syms = [frozenset(n for n in decl_names([h]) if "!" in n) for h in hyps]
    goal_syms = frozenset(n for n in decl_names([cond]) if "!" in n)
    alive = [True] * len(hyps)
    changed = True
    while changed:
        changed = False
        count = {}
        for i, ss in enumerate(syms):
            if alive[i]:
                for n in ss:
                    count[n] = count.get(n, 0) + 1
        for i, ss in enumerate(syms):
            if alive[i] and ss and has_quantifier(hyps[i]):
                if all(count.get(n, 0) == 1 and n not in goal_syms for n in ss):
                    alive[i] = False
                    changed = True
    return [h for h, a in zip(hyps, alive) if a]


def has_quantifier(e):
    seen, todo = set(), [e]
    while todo:
        x = todo.pop()
        if x.get_id() in seen:
            continue
        seen.add(x.get_id())
        if z3.is_quantifier(x):
            return True
        todo.extend(x.children())
    return False


def ground_terms(exprs, limit=40):
    """Ground sub-terms by sort (candidates for instantiating universally quantified hypotheses)."""
    by_sort = {}
    seen = set()

    def has_var(e, cache={}):
        k = e.get_id()
        if k not in cache:
            cache[k] = z3.is_var(e) or any(has_var(c) for c in e.children()) or z3.is_quantifier(e)
        return cache[k]

    todo = list(exprs)
    while todo:
        e = todo.pop()
        if e.get_id() in seen:
            continue
        seen.add(e.get_id())
        if z3.is_quantifier(e):
            todo.append(e.body())
            continue
        if z3.is_app(e):
            todo.extend(e.children())
            if not has_var(e) and not z3.is_bool(e):
                srt = e.sort()
                if srt.kind() in (z3.Z3_UNINTERPRETED_SORT, z3.Z3_SEQ_SORT, z3.Z3_INT_SORT):
                    lst = by_sort.setdefault(srt.name() if srt.kind() != z3.Z3_SEQ_SORT else "String", [])
                    if len(lst) < limit and len(str(e)) < 300:
                        lst.append(e)
    ints = by_sort.setdefault("Int", [])
    for c in (0, 1, 2):
        ints.append(z3.IntVal(c))
    return by_sort


def instantiate(h, terms, budget=150):
    """Ground instances of the universally quantified conjuncts of a hypothesis (one level)."""
    out = []

    def sort_key(srt):
        return "String" if srt.kind() == z3.Z3_SEQ_SORT else srt.name()

    def rec(e, guard):
        if z3.is_and(e):
            for c in e.children():
                rec(c, guard)
        elif z3.is_implies(e) and not has_quantifier(e.arg(0)):
            rec(e.arg(1), guard + [e.arg(0)])
        elif z3.is_quantifier(e) and e.is_forall():
            import itertools
            doms = []
            for i in range(e.num_vars()):
                doms.append(terms.get(sort_key(e.var_sort(i)), [])[:12])
            n = 0
            for combo in itertools.product(*doms):
                n += 1
                if n > budget:
                    break
                # de Bruijn: variable 0 is the LAST bound variable
                inst = z3.substitute_vars(e.body(), *reversed(combo))
                inst = z3.simplify(inst)
                if not has_quantifier(inst):
                    out.append(z3.Implies(z3.And(guard), inst) if guard else inst)
                elif z3.is_implies(inst) or z3.is_and(inst) or z3.is_quantifier(inst):
                    # one more level for nested universal quantifiers
                    sub = instantiate_inner(inst, terms)
                    for x in sub:
                        out.append(z3.Implies(z3.And(guard), x) if guard else x)
        elif not has_quantifier(e):
            out.append(z3.Implies(z3.And(guard), e) if guard else e)

    def instantiate_inner(e, terms_):
        res = []
        if z3.is_implies(e) and not has_quantifier(e.arg(0)):
            for x in instantiate_inner(e.arg(1), terms_):
                res.append(z3.Implies(e.arg(0), x))
        elif z3.is_and(e):
            for c in e.children():
                res += instantiate_inner(c, terms_)
        elif z3.is_quantifier(e) and e.is_forall():
            import itertools
            doms = [terms_.get(sort_key(e.var_sort(i)), [])[:8] for i in range(e.num_vars())]
            for n, combo in enumerate(itertools.product(*doms)):
                if n > 60:
                    break
                inst = z3.simplify(z3.substitute_vars(e.body(), *reversed(combo)))
                if not has_quantifier(inst):
                    res.append(inst)
        elif not has_quantifier(e):
            res.append(e)
        return res

    rec(h, [])
    return out


# Solver budgets are given in "nominal milliseconds" and enforced through z3's deterministic resource counter (rlimit),
# so that a verdict does not depend on the load of the machine; the wall-clock timeout is only a safety net.
RLIMIT_PER_MS = int(os.environ.get("VERIF_RLIMIT_PER_MS", "600"))
WALL_FACTOR = 30
ESCALATION = int(os.environ.get("VERIF_ESCALATION", "5"))
_RL_LOG = os.environ.get("VERIF_RLIMIT_LOG")


def rlimit_of(s):
    st = s.statistics()
    for k in st.keys():
        if k == "rlimit count":
            return st.get_key_value(k)
    return 0


def _solve(hyps, cond, timeout, **opts):
    s = z3.Solver()
    s.set("timeout", int(timeout * WALL_FACTOR))
    s.set("rlimit", int(timeout * RLIMIT_PER_MS))
    for k, v in opts.items():
        s.set(k, v)
    for h in hyps:
        s.add(h)
    s.add(z3.Not(cond))
    if _RL_LOG:
        t0, r0 = time.time(), rlimit_of(s)
    r = s.check()
    if _RL_LOG:
        with open(_RL_LOG, "a") as f:
            f.write(f"{r} budget_ms={timeout} wall_ms={(time.time() - t0) * 1000:.0f} rlimit={rlimit_of(s) - r0} reason={s.reason_unknown() if r == z3.unknown else ''}\n")
    return r, (s.model() if r == z3.sat else None)


def discharge(axioms, pc, cond, timeout, scales=None):
    """Return (status, model, ms, exact).

    proved  : axioms & pc & not cond is unsat
    failed  : a model exists; exact=True when it satisfies all hypotheses, exact=False when it is only a
              *candidate* obtained after dropping the quantified hypotheses (to be confirmed by replay)
    unknown : neither

    The attempts are made with the nominal budgets first; when they end without a proof or an exact model the whole
    sequence is repeated once with ESCALATION times the budgets, so that a provable obligation is not reported as
    failed merely because the quick attempts ran out of resources.
    """
    t0 = time.time()
    pc = prune_orphans(list(pc), cond)
    ax = relevant_axioms(axioms, pc, cond)
    hyps = ax + list(pc)
    ms = lambda: (time.time() - t0) * 1000
    candidate = None
    for scale in (scales or (1, ESCALATION)):
        status, model, exact = _discharge_once(hyps, cond, timeout, scale)
        if status == "proved" or (status == "failed" and exact):
            return status, model, ms(), True
        if status == "failed" and candidate is None:
            candidate = model
    if candidate is not None:
        return "failed", candidate, ms(), False
    return "unknown", None, ms(), False


def _discharge_once(hyps, cond, timeout, scale):
    quantified = any(has_quantifier(h) for h in hyps) or has_quantifier(cond)
    r_first, m_first = _solve(hyps, cond, min(timeout, 2500) * scale)
    if r_first == z3.unsat:
        return "proved", None, True
    if r_first == z3.sat:
        return "failed", m_first, True
    if quantified:
        # cheap attempts with fewer hypotheses first (sound: hypotheses are only dropped): the quantifier-free part,
        # then the quantified facts within one / two steps of the goal's symbols
        ground0 = [h for h in hyps if not has_quantifier(h)]
        r0, _ = _solve(ground0, cond, 1500 * scale)
        if r0 == z3.unsat:
            return "proved", None, True

        def special(names):
            return {n for n in names if "!" in n or n.startswith(("mem<", "memidx<", "card<", "prefix_", "map_idx", "otp_",
                                                                 "str_", "int_str", "bridged_form", "params_objects"))}
        qh = [(h, special(decl_names([h]))) for h in hyps if has_quantifier(h)]
        cone = special(decl_names([cond] + ground0))
        for rounds in (1, 2):
            sel = [h for h, ss in qh if ss & cone]
            if len(sel) < len(qh):
                r1, _ = _solve(ground0 + sel, cond, 3000 * scale, **{"smt.mbqi": False})
                if r1 == z3.unsat:
                    return "proved", None, True
            for h, ss in qh:
                if ss & cone:
                    cone = cone | ss
    first = [({}, min(timeout, 5000)), ({"smt.mbqi": False, "smt.random_seed": 7}, min(timeout, 5000))]
    later = [({"smt.random_seed": 3}, timeout), ({"smt.mbqi": False, "smt.random_seed": 11}, timeout)]
    for opts, to in first:
        r, m = _solve(hyps, cond, max(to, 1000) * scale, **opts)
        if r == z3.unsat:
            return "proved", None, True
        if r == z3.sat:
            return "failed", m, True
        if not quantified:
            return "unknown", None, False
    if scale > 1:
        # escalation pass: only the attempts that can still prove the goal; the candidate search and the repeated
        # full attempts of the first pass are not worth a multiple of their budget
        return "unknown", None, False
    ground = [h for h in hyps if not has_quantifier(h)]
    r2, m2 = _solve(ground, cond, 4000)
    if r2 == z3.unsat:
        return "proved", None, True
    if r2 == z3.sat:
        # refine the candidate: add ground instances of the quantified hypotheses at the terms of the VC
        try:
            terms = ground_terms(hyps + [cond])
            inst = []
            for h in hyps:
                if has_quantifier(h):
                    inst += instantiate(h, terms)
            r3, m3 = _solve(ground + inst, cond, 6000)
            if r3 == z3.unsat:
                return "proved", None, True
            if r3 == z3.sat:
                m2 = m3
        except z3.Z3Exception:
            pass
    for opts, to in later:
        r, m = _solve(hyps, cond, max(to, 1000) * scale, **opts)
        if r == z3.unsat:
            return "proved", None, True
        if r == z3.sat:
            return "failed", m, True
        if r2 == z3.sat:
            break     # a candidate exists: one more attempt was enough
    if r2 == z3.sat:
        return "failed", m2, False
    return "unknown", None, False


def make_engine(index, schema_mod, contract=None):
    models = Models()
    eng = Engine(index, schema_mod.SCHEMA, models)
    schema_mod.install(eng)
    from .spec import default_names
    eng.extra_names.update(default_names())
    if contract is not None:
        eng.overrides.update(contract.overrides)
        eng.extra_names.update(contract.extra_names)
        fs = index.func(contract.target)
        for ordinal, spec in contract.loops.items():
            if isinstance(ordinal, tuple):
                eng.loop_specs[ordinal] = spec
            else:
                qn = fs.qualname + ("#" + contract.block[0] if contract.block is not None else "")
                eng.loop_specs[(qn, ordinal)] = spec
    return eng


# ---- selectors for `aliases`: the current name of a function local, found by its role
def returned_local(fn):
    """the name the function returns with its last statement (`return <name>`)"""
    last = fn.body[-1] if fn.body else None
    if isinstance(last, ast.Return) and isinstance(last.value, ast.Name):
        return last.value.id
    return None


def accumulator(fn):
    """the one name the function aug-assigns (`x += ...`, `x |= ...`)"""
    names = {n.target.id for n in ast.walk(fn) if isinstance(n, ast.AugAssign) and isinstance(n.target, ast.Name)}
    return names.pop() if len(names) == 1 else None


def first_assigned_constant(value):
    """the first top-level local initialised with the given constant (`x = ''`)"""
    def sel(fn):
        for s in fn.body:
            if isinstance(s, ast.Assign) and len(s.targets) == 1 and isinstance(s.targets[0], ast.Name) \
                    and isinstance(s.value, ast.Constant) and s.value.value == value and type(s.value.value) is type(value):
                return s.targets[0].id
        return None
    return sel


def _resolve_aliases(contract, fs):
    """Rewrite the names of function locals used by the specification to the names the current source gives them."""
    if not contract.aliases:
        return contract
    import copy
    mapping = {}
    for alias, selector in contract.aliases.items():
        actual = selector(fs.node)
        if not actual:
            raise Untranslatable(f"the local the specification calls '{alias}' was not found in {fs.qualname}")
        mapping[alias] = actual
    if all(k == v for k, v in mapping.items()):
        return contract

    def rn(src):
        if not isinstance(src, str):
            return src
        tree = ast.parse(src.strip(), mode="eval")
        for n in ast.walk(tree):
            if isinstance(n, ast.Name) and n.id in mapping:
                n.id = mapping[n.id]
        return ast.unparse(tree)
    c2 = copy.copy(contract)
    c2.requires = [rn(r) for r in contract.requires]
    c2.ensures = [(n, rn(e)) for n, e in contract.ensures]
    c2.exc_ensures = [(n, rn(e)) for n, e in contract.exc_ensures]
    c2.raises = {k: rn(v) for k, v in contract.raises.items()}
    c2.outputs = {mapping.get(k, k): v for k, v in contract.outputs.items()}
    c2.loops = {}
    for ordinal, spec in contract.loops.items():
        spec2 = dict(spec)
        spec2["invariants"] = [rn(i) for i in spec.get("invariants", [])]
        spec2["kinds"] = {mapping.get(k, k): v for k, v in spec.get("kinds", {}).items()}
        c2.loops[ordinal] = spec2
    return c2


class _MissingSource:
    """Stand-in FuncSrc for a contract whose target (or block) no longer exists in the source tree."""
    def __init__(self, target):
        self.file, self.qualname = target.split("::")[0], target.split("::")[-1]
        self.sha256, self.lineno, self.end_lineno, self.cls, self.text = None, 0, 0, None, ""


def verify(contract, index, schema_mod, keep_states=True):
    t0 = time.time()
    try:
        fs = index.func(contract.target)
        if contract.block is not None:
            from .source import extract_block
            bname, selector = contract.block
            fs = extract_block(fs, selector, bname, list(contract.params))
    except (KeyError, FileNotFoundError) as e:
        # the function / statement block under contract was renamed, moved or removed: nothing can be decided
        res = FunctionResult(contract, _MissingSource(contract.target))
        res.error = f"SourceNotFound: {e}"
        res.wall = time.time() - t0
        return res
    res = FunctionResult(contract, fs)
    try:
        _verify(_resolve_aliases(contract, fs), index, schema_mod, fs, res)
    except (Untranslatable, SpecError) as e:
        res.error = f"{type(e).__name__}: {e}"
    except z3.Z3Exception as e:
        res.error = f"Z3Exception: {e}\n{traceback.format_exc()[-1500:]}"
    res.wall = time.time() - t0
    return res


def _verify(contract, index, schema_mod, fs, res):
    eng = make_engine(index, schema_mod, contract)
    res.engine = eng
    eng.current_file = fs.file
    st = State()
    frame = st.frames[-1]
    args = []
    for name, kind in contract.params.items():
        nullable = False
        if isinstance(kind, tuple):
            kind, flag = kind
            nullable = flag == "nullable"
        if isinstance(kind, Kind) and kind.smt:
            v = V(kind, z3.Const(f"arg_{name}", kind.sort()))
            if isinstance(kind, Ref):
                st.assume(z3.Select(st.alloc, v.term) if not nullable else z3.Or(v.term == NULL, z3.Select(st.alloc, v.term)))
                if not nullable:
                    st.assume(v.term != NULL)
        else:
            v = kind   # python-level value given directly (VNone, VClass, const...)
        frame[name] = v
        args.append(v)
    st.assume(z3.Not(z3.Select(st.alloc, NULL)))
    eng.func_stack.append(fs)
    frame["__func__"] = fs
    # default values for parameters not mentioned by the contract
    a = fs.node.args
    names = [x.arg for x in a.posonlyargs + a.args]
    defaults = [None] * (len(names) - len(a.defaults)) + list(a.defaults)
    for n, d in zip(names, defaults):
        if n not in frame:
            if d is None:
                raise SpecError(f"contract of {contract.target} does not give parameter {n}")
            frame[n] = list(eng.ev(d, st))[0][1]
    schema_mod.well_formed(eng, st)
    if contract.setup is not None:
        contract.setup(eng, st, frame)
    for r in contract.requires:
        t = eng.ev_merged(parse_expr(r), st, want_bool=True)
        st.assume(t.term)
    # vacuity guard: the precondition must be satisfiable
    axioms = eng.models.axioms() + schema_mod.axioms(eng)
    pre = eng.check(st.pc, timeout=1500)
    if pre == z3.unknown:
        pre = eng.check([c for c in st.pc if eng.is_ground(c)], timeout=3000)
        res.vacuity["requires_sat"] = f"{pre} (quantifier-free part)"
    else:
        res.vacuity["requires_sat"] = str(pre)
    if pre == z3.unsat:
        raise SpecError("precondition is unsatisfiable (vacuous contract)")
    eng.entry_state = st.copy()
    sink = []
    eng.sinks.append(sink)
    outs = list(eng.ex_block(fs.node.body, st))
    eng.sinks.pop()
    res.paths = len(outs) + len(sink)
    res.stats = dict(eng.stats)
    axioms = eng.models.axioms() + schema_mod.axioms(eng)
    raw = []   # (name, kind, pc, cond, state, line)
    for ob in eng.obligations:
        raw.append((f"{contract.name}.{ob['name']}", ob["kind"], ob["pc"], ob["cond"], ob["state"], ob["line"]))
    normal_paths = 0
    for st1, flow in outs:
        if flow.kind not in ("normal", "return") and not (contract.block is not None and flow.kind in ("break", "continue")):
            raise Untranslatable(f"flow {flow.kind} at function end")
        normal_paths += 1
        result = flow.value if flow.kind == "return" else NONE
        st1.locals["result"] = result
        st1.locals["flow"] = const(flow.kind)      # how the block was left: normal / return / continue / break
        for oname, okind in contract.outputs.items():
            if oname not in st1.locals:
                st1.locals[oname] = fresh(okind, oname + ".unassigned")
        for ename, expr in contract.ensures:
            stc = st1.copy()
            t = eng.ev_merged(parse_expr(expr), stc, want_bool=True)
            raw.append((f"{contract.name}.{ename}", "post", list(stc.pc), t.term, stc, None))
        if contract.frame is not None:
            bad = sorted(w for w in st1.writes if w not in contract.frame)
            raw.append((f"{contract.name}.frame", "frame", list(st1.pc), z3.BoolVal(not bad), st1, None))
        if not contract.raises_only_if:
            for exc, when in contract.raises.items():
                if when is None:
                    continue
                pre_st = eng.entry_state.copy()
                pre_st.pc = list(st1.pc)
                pre_st.facts = set(st1.facts)
                t = eng.ev_merged(parse_expr(when), pre_st, want_bool=True)
                raw.append((f"{contract.name}.raises.{exc}.exactly_when", "exc", list(pre_st.pc), z3.Not(t.term), st1, None))
        if contract.path_ensures is not None:
            for ename, cond in contract.path_ensures(eng, st1, result):
                raw.append((f"{contract.name}.{ename}", "post", list(st1.pc), cond, st1, None))
    for st1, exc in sink:
        listed = [e for e in contract.raises if exc_isinstance(exc.cls, e)]
        if not listed:
            raw.append((f"{contract.name}.no_unexpected.{exc.cls}", "safety", list(st1.pc), z3.BoolVal(False), st1,
                        exc.where))
            continue
        when = contract.raises[listed[0]]
        if when is not None:
            pre_st = eng.entry_state.copy()
            pre_st.pc = list(st1.pc)
            pre_st.facts = set(st1.facts)
            t = eng.ev_merged(parse_expr(when), pre_st, want_bool=True)
            raw.append((f"{contract.name}.raises.{listed[0]}.only_when", "exc", list(pre_st.pc), t.term, st1, exc.where))
        # postconditions of the exceptional exits (`exc` names the exception class)
        for ename, expr in contract.exc_ensures:
            stc = st1.copy()
            stc.locals["exc"] = const(exc.cls)
            t = eng.ev_merged(parse_expr(expr), stc, want_bool=True)
            raw.append((f"{contract.name}.{ename}", "post", list(stc.pc), t.term, stc, exc.where))
    # canary: `ensures False` must NOT be provable on every normally terminating path
    dead = 0
    for st1, flow in outs:
        r_c, _ = _solve(relevant_axioms(axioms, st1.pc, z3.BoolVal(False)) + list(st1.pc), z3.BoolVal(False), 2000)
        if r_c == z3.unsat:
            dead += 1
    res.vacuity["dead_normal_paths"] = dead
    if outs and dead == len(outs):
        raise SpecError("canary failed: every normally terminating path has an inconsistent path condition "
                        "(contradictory requires / assumptions)")
    res.vacuity["normal_paths"] = normal_paths
    res.vacuity["exception_paths"] = len(sink)
    # aggregate by name
    by_name = {}
    for name, kind, pc, cond, stx, line in raw:
        by_name.setdefault(name, []).append((kind, pc, cond, stx, line))
    # pass 1: every instance with the nominal budgets; pass 2: the undecided ones once more with escalated budgets,
    # unless some obligation of this function already failed with an exact model (then the verdict is clear)
    first = {}
    exact_failure = False
    undischarged = 0
    for name, items in by_name.items():
        for n, (kind, pc, cond, stx, line) in enumerate(items):
            c = z3.simplify(cond)
            if z3.is_true(c):
                first[(name, n)] = ("proved", None, 0.0, True)
                continue
            # once the function is clearly not verifying (an exact counter-model, or two undischarged obligations) the
            # remaining obligations only get a short budget: the verdict of the function is decided already
            budget = contract.timeout if not (exact_failure or undischarged >= 2) else min(contract.timeout, 1500)
            r = discharge(axioms, pc, cond, budget, scales=(1,))
            first[(name, n)] = r
            if r[0] != "proved":
                undischarged += 1
            if r[0] == "failed" and r[3]:
                exact_failure = True
    escalated_failure = False
    for name, items in by_name.items():
        worst = None
        total_ms = 0.0
        for n, (kind, pc, cond, stx, line) in enumerate(items):
            status, model, ms, exact = first[(name, n)]
            if status != "proved" and not (status == "failed" and exact) and not exact_failure and not escalated_failure:
                status2, model2, ms2, exact2 = discharge(axioms, pc, cond, contract.timeout, scales=(ESCALATION,))
                ms += ms2
                if status2 == "proved" or (status2 == "failed" and exact2) or status == "unknown":
                    status, model, exact = status2, model2, exact2
                if status != "proved":
                    escalated_failure = True
            total_ms += ms
            if status != "proved":
                res.fail_fast = True
                worst = ObligationResult(name, status, total_ms, detail=f"path {stx.trace[-8:]}", model=model, state=stx,
                                         line=line, kind=kind)
                worst.exact_model = exact
                worst.pc, worst.cond = pc, cond
                if status == "failed":
                    break
        if worst is None:
            res.obligations.append(ObligationResult(name, "proved", total_ms, detail=f"{len(items)} path(s)", kind=items[0][0]))
        else:
            res.obligations.append(worst)
    # expected clauses that produced no instance at all (no path reached them) are reported as vacuous
    produced = set(by_name)
    for ename, _ in contract.ensures:
        if f"{contract.name}.{ename}" not in produced:
            res.obligations.append(ObligationResult(f"{contract.name}.{ename}", "vacuous", 0.0,
                                                    detail="no normally terminating path", kind="post"))
    res.engine = eng


def term_mentions(t, consts):
    ids = {c.get_id() for c in consts}
    seen, todo = set(), [t]
    while todo:
        x = todo.pop()
        if x.get_id() in seen:
            continue
        seen.add(x.get_id())
        if x.get_id() in ids:
            return True
        todo.extend(x.children())
    return False


def contract_handler(c):
    """Call-site use of a contract: check requires, havoc the frame, assume ensures (modular verification).

    Pure calls (empty frame) are represented by an uninterpreted function of the SMT arguments whose name carries the
    heap signature: the same call denotes the same value everywhere, also under quantifiers, where the contract
    is assumed universally over the variables bound by the enclosing quantifiers."""
    def h(eng, st, recv, args, kwargs, node):
        # the callee's spec expressions are evaluated with the callee's own summaries / spec names
        saved_ov, saved_names = eng.overrides, eng.extra_names
        eng.overrides = dict(saved_ov)
        eng.overrides.update(c.overrides)
        eng.extra_names = dict(saved_names)
        eng.extra_names.update(c.extra_names)
        try:
            outs = list(h_inner(eng, st, recv, args, kwargs, node))
        finally:
            eng.overrides, eng.extra_names = saved_ov, saved_names
        yield from outs

    def h_inner(eng, st, recv, args, kwargs, node):
        names = list(c.params)
        vals = ([recv] if (recv is not None and not isinstance(recv, VClass)) else []) + list(args)
        frame = {}
        for n, v in zip(names, vals):
            frame[n] = v
        for n in names[len(vals):]:
            if n in kwargs:
                frame[n] = kwargs[n]
            else:
                k = c.params[n]
                if isinstance(k, tuple) and k[1] == "nullable":
                    frame[n] = NONE
                elif not isinstance(k, (Kind, tuple)):
                    frame[n] = k
                else:
                    raise Untranslatable(f"call of {c.name} by contract: missing argument {n}", node)
        pure = (c.frame == []) and not c.ghost_frame and isinstance(c.result_kind, Kind)
        memo_key, result, bvs = None, None, []
        if pure:
            smt_args = [v for v in frame.values() if isinstance(v, V)]
            other = tuple(repr(v) for v in frame.values() if not isinstance(v, V))
            sig = st.heap_sig()
            fname = f"fn!{c.name}!{abs(hash((sig, other))) % (10 ** 12)}"
            fn = z3.Function(fname, *[a.term.sort() for a in smt_args], c.result_kind.sort()) if smt_args else None
            rterm = fn(*[a.term for a in smt_args]) if fn is not None else z3.Const(fname, c.result_kind.sort())
            result = V(c.result_kind, rterm)
            bvs = [(b, g) for b, g in eng.bound_stack if any(term_mentions(a.term, [b]) for a in smt_args)]
            memo_key = (fname, tuple(a.term.get_id() for a in smt_args))
            if memo_key in st.memo:
                yield st, result
                return
        st.frames.append(frame)
        if bvs:
            # quantified context: assume the whole contract universally over the bound variables
            try:
                reqs = [eng.ev_merged(parse_expr(r), st, want_bool=True).term for r in c.requires]
                st.locals["result"] = result
                saved = eng.entry_state
                eng.entry_state = st.copy()
                try:
                    ens = [eng.ev_merged(parse_expr(expr), st, want_bool=True).term for _, expr in c.ensures]
                finally:
                    eng.entry_state = saved
                guards = [g for _, g in bvs]
                fact = safe_forall([b for b, _ in bvs], z3.Implies(z3.And(guards + reqs), z3.And(ens) if ens else z3.BoolVal(True)))
                st.assume(fact)
                st.memo[memo_key] = result
            finally:
                st.frames.pop()
            yield st, result
            return
        for i, r in enumerate(c.requires):
            t = eng.ev_merged(parse_expr(r), st, want_bool=True)
            if eng.no_prune:
                continue      # spec evaluation: preconditions of pure getters are the spec writer's duty
            eng.oblige(st, f"call.{c.name}.requires{i}", t.term, node, kind="pre")
        pre = st.copy()
        outcomes = [(st, None)]
        for exc, when in c.raises.items():
            nxt = []
            for stx, _ in outcomes:
                if when is None:
                    cond = fresh(BOOL, "mayraise").term
                else:
                    cond = eng.ev_merged(parse_expr(when), stx, want_bool=True).term
                for sty, b in eng.fork(stx, cond, f"call.{c.name}.raises.{exc}"):
                    if b:
                        sty.frames.pop()
                        eng.raise_exc(sty, exc, node)
                    else:
                        nxt.append((sty, None))
            outcomes = nxt
        for stx, _ in outcomes:
            for f in (c.frame or []):
                owner, field = f.split(".")
                _, kind = eng.field_kind(owner, field)
                if kind is not None and kind.smt:
                    stx.heap[f] = z3.Const(fresh_name("H_" + f), z3.ArraySort(RefSort, kind.sort()))
                    stx.writes.add(f)
            for g in c.ghost_frame:
                cur = stx.ghost.get(g)
                if isinstance(cur, V):
                    stx.ghost[g] = fresh(cur.kind, g)
                elif g.endswith(".calls"):
                    stx.ghost[g] = fresh(INT, g)
                elif g.endswith(".result"):
                    stx.ghost[g] = fresh(BOOL, g)
            if result is not None:
                res = result
            elif c.result_kind is None:
                res = NONE
            elif isinstance(c.result_kind, Kind):
                res = fresh(c.result_kind, "res_" + c.name.split(".")[-1])
            else:
                res = c.result_kind
            stx.locals["result"] = res
            saved = eng.entry_state
            eng.entry_state = pre
            try:
                for ename, expr in c.ensures:
                    t = eng.ev_merged(parse_expr(expr), stx, want_bool=True)
                    stx.assume(t.term)
            finally:
                eng.entry_state = saved
            stx.frames.pop()
            if memo_key is not None:
                stx.memo[memo_key] = res
            yield stx, res
    h.contract = c
    h.contract = c
    return h


def seam_handler(seam, result_kind=None, may_raise=(), frame=(), snapshot=()):
    """Summary of a call that crosses a seam (remote door, test runner, back end ...).

    The call is logged in ghost state: `<seam>.calls` (Int) is incremented, `<seam>.result` holds the returned
    value (fresh, unconstrained: the environment may answer anything); it may raise any of `may_raise`."""
    def h(eng, st, recv, args, kwargs, node):
        calls = st.ghost.get(f"{seam}.calls")
        if calls is None:
            calls = V(INT, z3.Const(f"{seam}.calls0", z3.IntSort()))
        # the arguments of the (last) call and the values other ghost variables had when it was made
        for i, a in enumerate(([recv] if recv is not None else []) + list(args)):
            st.ghost[f"{seam}.arg{i}"] = a
        # keyword arguments of the (last) call: values as <seam>.kw.<name>, the set of names as <seam>.kwnames
        for kname, kval in (kwargs or {}).items():
            st.ghost[f"{seam}.kw.{kname}"] = kval
        st.ghost[f"{seam}.kwnames"] = const(sorted(kwargs or {}))
        for g in snapshot:
            for _st, v in ghost_reader(eng, st, [const(g)], {}, node):
                st.ghost[f"{seam}.saw.{g}"] = v
        outcomes = [(st, None)]
        for exc in may_raise:
            nxt = []
            for stx, _ in outcomes:
                b = fresh(BOOL, f"{seam}.raises.{exc}")
                for sty, r in eng.fork(stx, b.term, f"seam.{seam}.raises.{exc}"):
                    if r:
                        sty.ghost[f"{seam}.calls"] = V(INT, calls.term + 1)
                        eng.raise_exc(sty, exc, node)
                    else:
                        nxt.append((sty, None))
            outcomes = nxt
        for stx, _ in outcomes:
            stx.ghost[f"{seam}.calls"] = V(INT, calls.term + 1)
            for f in frame:
                owner, field = f.split(".")
                _, kind = eng.field_kind(owner, field)
                stx.heap[f] = z3.Const(fresh_name("H_" + f), z3.ArraySort(RefSort, kind.sort()))
                stx.writes.add(f)
            if result_kind is None:
                yield stx, NONE
            else:
                r = fresh(result_kind, f"{seam}.result")
                stx.ghost[f"{seam}.result"] = r
                yield stx, r
    h.seam = seam
    return h


def traced(seam, inner, snapshot=()):
    """Wrap a call handler: count the calls in ghost `<seam>.calls`, remember the arguments of the last call
    (`<seam>.arg<i>`, receiver first), its result (`<seam>.result`) and the values the ghost variables named in
    `snapshot` had when the call was made (`<seam>.saw.<name>`)."""
    def h(eng, st, recv, args, kwargs, node):
        calls = st.ghost.get(f"{seam}.calls")
        if calls is None:
            calls = V(INT, z3.Const(f"{seam}.calls0", z3.IntSort()))
            st.ghost[f"{seam}.calls"] = calls
        pre = {}
        for i, a in enumerate(([recv] if recv is not None else []) + list(args)):
            pre[f"{seam}.arg{i}"] = a
        for g in snapshot:
            for _st, v in ghost_reader(eng, st, [const(g)], {}, node):
                pre[f"{seam}.saw.{g}"] = v
        for st1, r in inner(eng, st, recv, args, kwargs, node):
            st1.ghost.update(pre)
            st1.ghost[f"{seam}.calls"] = V(INT, calls.term + 1)
            if isinstance(r, V):
                st1.ghost[f"{seam}.result"] = r
            yield st1, r
    h.seam = seam
    return h


def ghost_reader(eng, st, args, kw, node):
    """Spec function ghost("name"): current value of a ghost variable (0 for an untouched call counter)."""
    ok, name = concrete(args[0])
    v = st.ghost.get(name)
    if v is None:
        if name.endswith(".calls"):
            v = V(INT, z3.Const(f"{name}0", z3.IntSort()))
            st.ghost[name] = v
        else:
            # e.g. the result of a seam call that did not happen on this path: arbitrary value
            k = args[1] if len(args) > 1 and isinstance(args[1], Kind) else BOOL
            v = fresh(k, name + ".undefined")
    yield st, v
