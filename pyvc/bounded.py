"""E2: bounded stand-ins. A harness is a script under /verif/bounded/ executed with /venv/bin/python against the
real code; it enumerates a stated finite scope, evaluates an executable contract natively and prints one line

    BOUNDED-RESULT {"name":..., "obligations": {...}, "cases": n, "distinct_nontrivial": n, "rule": "...",
                    "bound": "...", "exhaustive": bool, "samples": [...], "failures": [{"obligation":..., "input":..., ...}]}

Results are reported as bounded(<bound>) and never counted as discharged proof obligations.
"""
import json
import os
import subprocess
import time

from .driver import ROOT, VENV_PY, repo_path, load_json


def run_harness(run, script, tier, args=(), timeout=None, only=None):
    """Run a harness; `only` is an optional predicate on obligation ids (a harness may serve several properties)."""
    env = dict(os.environ, VERIF_REPO=repo_path(), PYTHONPATH=repo_path() + os.pathsep + ROOT, VERIF_TIER=tier,
               VERIF_SEED=str(run.seed))
    t0 = time.time()
    timeout = timeout or (900 if tier == "quick" else 7200)
    try:
        p = subprocess.run([VENV_PY, os.path.join(ROOT, "bounded", script), *args], capture_output=True, text=True,
                           timeout=timeout, env=env, cwd=repo_path())
    except subprocess.TimeoutExpired:
        run.errors.append(f"bounded harness {script} timed out after {timeout}s")
        return None
    res = None
    for line in p.stdout.splitlines():
        if line.startswith("BOUNDED-RESULT "):
            res = json.loads(line[len("BOUNDED-RESULT "):])
    if res is None:
        run.errors.append(f"bounded harness {script} produced no result: {(p.stdout + p.stderr)[-1500:]}")
        return None
    res["wall_s"] = round(time.time() - t0, 2)
    res["script"] = script
    if only is not None:
        res["obligations"] = {k: v for k, v in (res.get("obligations") or {}).items() if only(k)}
        res["failures"] = [f for f in res.get("failures", []) if only(f.get("obligation", ""))]
        res["filtered_for_property"] = True
    record(run, res)
    return res


def record(run, res):
    known = [k for k in load_json(os.path.join(ROOT, "known_findings.json"), {"findings": []})["findings"]
             if k.get("property") == run.pid and k.get("status") == "known"]
    failures = res.pop("failures", [])
    entry = dict(res)
    entry["failures"] = len(failures)
    run.bounded.append(entry)
    for ob, info in (res.get("obligations") or {}).items():
        run.obligations.append({"name": f"bounded.{res['name']}.{ob}", "status": "bounded-ok" if not any(
            f.get("obligation") == ob for f in failures) else "failed", "ms": 0.0, "kind": "bounded", "line": None,
            "backend": f"native enumeration, bound: {res.get('bound')}", "cases": info.get("cases") if isinstance(info, dict) else info})
    seen_known = set()
    for i, f in enumerate(failures):
        kf = None
        for k in known:
            if k.get("obligation") == f"bounded.{res['name']}.{f.get('obligation')}" and finding_matches(k, f):
                kf = k
                break
        if kf is not None:
            if kf["id"] not in seen_known:
                seen_known.add(kf["id"])
                run.known.append((kf, f"bounded.{res['name']}.{f.get('obligation')}"))
            continue
        if sum(1 for v in run.violations if v[0].startswith(f"bounded.{res['name']}")) >= 5:
            continue
        path = os.path.join(ROOT, "replays", run.pid, f"bounded.{res['name']}.{f.get('obligation')}.{i}.json")
        os.makedirs(os.path.dirname(path), exist_ok=True)
        with open(path, "w") as fh:
            json.dump({"harness": res["script"], "name": res["name"], "failure": f,
                       "replay": f"VERIF_REPO={repo_path()} {VENV_PY} bounded/{res['script']} --replay '{json.dumps(f.get('input'))}'"},
                      fh, indent=1, default=str)
        run.violations.append((f"bounded.{res['name']}.{f.get('obligation')}", path, ""))
    # every listed known finding of this harness must still reproduce (otherwise the list is stale)
    for k in known:
        if k.get("obligation", "").startswith(f"bounded.{res['name']}.") and k["id"] not in seen_known:
            run.extra.setdefault("stale_known_findings", []).append(k["id"])


def finding_matches(k, failure):
    """A known finding matches a failure when every key of its `match` dict equals the failure's input entry."""
    m = k.get("match") or {}
    inp = failure.get("input") or {}
    cls = failure.get("class")
    if "class" in m and m["class"] != cls:
        return False
    for key, val in m.items():
        if key == "class":
            continue
        if inp.get(key) != val:
            return False
    return True
