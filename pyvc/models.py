"""Library semantics: operators, builtin functions, methods of str/list/set/dict, loops, comprehensions.

Repository-specific classes (Params, TestNode, ...) are described in /verif/contracts/schema.py.
"""
import ast
import z3

from .kinds import safe_forall
from .kinds import (V, VNone, NONE, VTuple, VList, VDict, VFunc, VClass, VModule, VExc, Kind,
                    INT, BOOL, STR, REAL, Ref, Seq, SetK, Map, Opt, PyKind, ANY, RefSort, NULL,
                    const, concrete, fresh, fresh_name)
from .engine import Untranslatable, SpecError, Flow, NORMAL, EXC_PARENTS


class VRange:
    kind = PyKind("range")

    def __init__(self, lo, hi):
        self.lo, self.hi = lo, hi


class VIter:
    """enumerate / zip / items wrappers around iterables."""
    kind = PyKind("iter")

    def __init__(self, how, parts):
        self.how, self.parts = how, parts


class VGen:
    """Lazy generator expression / comprehension description."""
    kind = PyKind("generator")

    def __init__(self, node, frame):
        self.node, self.frame = node, frame


class VEmptySet:
    """`set()` before its element kind is known."""
    kind = PyKind("emptyset")

    def __repr__(self):
        return "VEmptySet"


LOGGING_NAMES = {"logging", "log", "LOG_UI", "logger"}
LOG_METHODS = {"debug", "info", "warning", "error", "critical", "exception", "warn"}

# uninterpreted helpers shared by all obligations
str_lower = z3.Function("str_lower", z3.StringSort(), z3.StringSort())
str_upper = z3.Function("str_upper", z3.StringSort(), z3.StringSort())
STRLIST = Seq(STR)
str_split = z3.Function("str_split", z3.StringSort(), z3.StringSort(), STRLIST.sort())
str_wsplit = z3.Function("str_wsplit", z3.StringSort(), STRLIST.sort())
str_strip = z3.Function("str_strip", z3.StringSort(), z3.StringSort())
str_rstrip = z3.Function("str_rstrip", z3.StringSort(), z3.StringSort())
str_join = z3.Function("str_join", z3.StringSort(), STRLIST.sort(), z3.StringSort())
str_is_int = z3.Function("str_is_int", z3.StringSort(), z3.BoolSort())
str_int = z3.Function("str_int", z3.StringSort(), z3.IntSort())
int_str = z3.Function("int_str", z3.IntSort(), z3.StringSort())
str_is_float = z3.Function("str_is_float", z3.StringSort(), z3.BoolSort())
str_float = z3.Function("str_float", z3.StringSort(), z3.RealSort())

KNOWN_LOWER = ["PASS", "FAIL", "ERROR", "WARN", "SKIP", "CANCEL", "INTERRUPTED", "UNKNOWN"]


def card_fn(elem_sort):
    return z3.Function(f"card<{elem_sort}>", z3.ArraySort(elem_sort, z3.BoolSort()), z3.IntSort())


class Models:
    def __init__(self):
        self.spec_builtins = {
            "old": self.spec_old, "forall": self.spec_forall, "exists": self.spec_exists,
            "implies": self.spec_implies, "iff": self.spec_iff, "fresh_value": self.spec_fresh,
            "with_field": self.spec_with_field, "let": self.spec_let,
        }
        self.modules = {}          # "module.attr" -> value or handler
        self.builtin_handlers = {}
        self.global_axioms = []    # z3 formulas added to every obligation
        self.used_axioms = set()
        self._install_builtins()

    # ------------------------------------------------------------------ logging detection
    def is_logging_call(self, e):
        f = e.func
        if isinstance(f, ast.Attribute) and f.attr in LOG_METHODS:
            base = f.value
            if isinstance(base, ast.Name) and base.id in LOGGING_NAMES:
                return True
        return False

    # ------------------------------------------------------------------ axioms
    def axioms(self):
        ax = list(self.global_axioms)
        s = z3.Const("ax_s", z3.StringSort())
        for up in KNOWN_LOWER:
            ax.append(str_lower(z3.StringVal(up)) == z3.StringVal(up.lower()))
            ax.append(str_lower(z3.StringVal(up.lower())) == z3.StringVal(up.lower()))
            ax.append(str_upper(z3.StringVal(up.lower())) == z3.StringVal(up))
        ax.append(safe_forall([s], str_lower(str_lower(s)) == str_lower(s)))
        n = z3.Const("ax_n", z3.IntSort())
        ax.append(safe_forall([n], z3.And(str_is_int(int_str(n)), str_int(int_str(n)) == n)))
        from .kinds import USED_MEM
        for name, k in list(USED_MEM.items()):
            ax += k.axioms()
        return ax

    # ------------------------------------------------------------------ operators
    def num_pair(self, a, b):
        if a.kind == REAL or b.kind == REAL:
            ta = z3.ToReal(a.term) if a.kind == INT else a.term
            tb = z3.ToReal(b.term) if b.kind == INT else b.term
            return REAL, ta, tb
        ta = z3.If(a.term, 1, 0) if a.kind == BOOL else a.term
        tb = z3.If(b.term, 1, 0) if b.kind == BOOL else b.term
        return INT, ta, tb

    def binop(self, eng, op, a, b, st, node):
        num = (INT, REAL, BOOL)
        # str (+|-|/) number and number (+|-|/) str are TypeErrors in Python (e.g. a parameter read with get() instead of
        # get_numeric() and then used in arithmetic)
        if isinstance(a, V) and isinstance(b, V) and isinstance(op, (ast.Add, ast.Sub, ast.Div, ast.FloorDiv)) and (
                (a.kind == STR and b.kind in (INT, REAL)) or (b.kind == STR and a.kind in (INT, REAL))):
            eng.raise_exc(st, "TypeError", node)
            return
        if isinstance(a, V) and isinstance(b, V) and a.kind in num and b.kind in num and not (
                a.kind == BOOL and b.kind == BOOL and isinstance(op, (ast.BitOr, ast.BitAnd))):
            k, ta, tb = self.num_pair(a, b)
            if isinstance(op, ast.Add):
                yield st, V(k, ta + tb)
            elif isinstance(op, ast.Sub):
                yield st, V(k, ta - tb)
            elif isinstance(op, ast.Mult):
                yield st, V(k, ta * tb)
            elif isinstance(op, ast.Div):
                ra = z3.ToReal(ta) if k == INT else ta
                rb = z3.ToReal(tb) if k == INT else tb
                for st1, ok in eng.fork(st, rb != 0, "div"):
                    if ok:
                        yield st1, V(REAL, ra / rb)
                    else:
                        eng.raise_exc(st1, "ZeroDivisionError", node)
            elif isinstance(op, (ast.FloorDiv, ast.Mod)):
                if k != INT:
                    raise Untranslatable("float floordiv/mod", node)
                for st1, ok in eng.fork(st, tb != 0, "mod"):
                    if ok:
                        # python floor semantics coincide with z3 div/mod for positive divisors
                        q = z3.If(tb > 0, ta / tb, (-ta) / (-tb))
                        r = ta - q * tb
                        yield st1, V(INT, q if isinstance(op, ast.FloorDiv) else r)
                    else:
                        eng.raise_exc(st1, "ZeroDivisionError", node)
            elif isinstance(op, ast.Pow):
                ok, bc = concrete(b)
                if ok and isinstance(bc, int) and 0 <= bc <= 64:
                    okA, ac = concrete(a)
                    if okA:
                        yield st, const(ac ** bc)
                    else:
                        t = z3.IntVal(1) if k == INT else z3.RealVal(1)
                        for _ in range(bc):
                            t = t * ta
                        yield st, V(k, t)
                else:
                    raise Untranslatable("symbolic power", node)
            elif isinstance(op, (ast.BitAnd, ast.BitOr, ast.LShift, ast.RShift, ast.BitXor)):
                yield from self.bitop(eng, op, a, b, st, node)
            else:
                raise Untranslatable(f"numeric operator {type(op).__name__}", node)
            return
        if isinstance(a, V) and isinstance(b, V) and a.kind == BOOL and b.kind == BOOL:
            if isinstance(op, ast.BitOr):
                yield st, V(BOOL, z3.Or(a.term, b.term))
                return
            if isinstance(op, ast.BitAnd):
                yield st, V(BOOL, z3.And(a.term, b.term))
                return
        if isinstance(a, V) and a.kind == STR:
            if isinstance(op, ast.Add) and isinstance(b, V) and b.kind == STR:
                yield st, V(STR, z3.Concat(a.term, b.term))
                return
            if isinstance(op, ast.Mod):
                # "...%s..." % value(s) with a concrete format of plain %s / %d / %i placeholders is a concatenation
                okf, fmt = concrete(a)
                vals = list(b.items) if isinstance(b, VTuple) else [b]
                if okf and isinstance(fmt, str):
                    import re as _re
                    parts = _re.split(r"(%[sdi]|%%)", fmt)
                    holes = [x for x in parts if x in ("%s", "%d", "%i")]
                    if len(holes) == len(vals) and "%" not in "".join(x for x in parts if x not in ("%s", "%d", "%i", "%%")):
                        terms, k = [], 0
                        for x in parts:
                            if x in ("%s", "%d", "%i"):
                                terms.append(eng.to_str(vals[k], st).term)
                                k += 1
                            elif x == "%%":
                                terms.append(z3.StringVal("%"))
                            elif x:
                                terms.append(z3.StringVal(x))
                        yield st, V(STR, z3.Concat(*terms) if len(terms) > 1 else (terms[0] if terms else z3.StringVal("")))
                        return
                yield st, fresh(STR, "pctfmt")
                return
            if isinstance(op, ast.Mult):
                yield st, fresh(STR, "strmul")
                return
        if isinstance(op, ast.Add):
            if isinstance(a, VList) and isinstance(b, VList):
                yield st, VList(a.items + b.items)
                return
            if isinstance(a, VTuple) and isinstance(b, VTuple):
                yield st, VTuple(a.items + b.items)
                return
            sa, sb = eng.to_smt(a, st), eng.to_smt(b, st)
            if isinstance(sa, V) and isinstance(sa.kind, Seq):
                K = sa.kind
                if isinstance(b, (VList, VTuple)) and len(b.items) == 1:
                    y = eng.coerce(b.items[0], K.elem, st).term
                    new = K.named(st, K.append(sa.term, y))
                    st.assume(K.lemma_append(new, sa.term, y))
                else:
                    sb2 = self.seq_like(eng, b, K, st)
                    new = K.concat(st, sa.term, sb2.term)
                yield st, V(K, new)
                return
            if isinstance(sb, V) and isinstance(sb.kind, Seq):
                sa2 = self.seq_like(eng, a, sb.kind, st)
                new = sb.kind.concat(st, sa2.term, sb.term)
                yield st, V(sb.kind, new)
                return
        if isinstance(a, VEmptySet):
            a = VTuple([])
        if isinstance(b, VEmptySet):
            b = VTuple([])
        if isinstance(a, (VTuple, VList)) and not a.items and isinstance(b, V) and isinstance(b.kind, SetK) \
                and isinstance(op, ast.BitOr):
            yield st, b
            return
        if isinstance(b, (VTuple, VList)) and not b.items and isinstance(a, V) and isinstance(a.kind, SetK):
            if isinstance(op, (ast.BitOr, ast.Sub)):
                yield st, a
                return
            if isinstance(op, ast.BitAnd):
                yield st, V(a.kind, z3.EmptySet(a.kind.elem.sort()))
                return
        if isinstance(a, (VTuple, VList)) and not a.items and isinstance(b, (VTuple, VList)) and not b.items \
                and isinstance(op, (ast.BitOr, ast.BitAnd, ast.Sub)):
            yield st, VEmptySet()
            return
        if isinstance(a, (VTuple, VList)) and not a.items and isinstance(b, V) and isinstance(b.kind, SetK):
            if isinstance(op, ast.BitAnd) or isinstance(op, ast.Sub):
                yield st, VEmptySet()
                return
        if isinstance(a, V) and isinstance(a.kind, SetK):
            sb = eng.as_set(b, st)
            sb = V(a.kind, sb.term)
            if isinstance(op, ast.BitOr):
                yield st, V(a.kind, a.kind.union(st, a.term, sb.term))
                return
            if isinstance(op, ast.BitAnd):
                yield st, V(a.kind, a.kind.inter(st, a.term, sb.term))
                return
            if isinstance(op, ast.Sub):
                yield st, V(a.kind, a.kind.diff(st, a.term, sb.term))
                return
        raise Untranslatable(f"operator {type(op).__name__} on {a!r}, {b!r}", node)

    def bitop(self, eng, op, a, b, st, node):
        # concrete operands only (flag constants such as LOCK_EX | LOCK_NB)
        oka, ca = concrete(a)
        okb, cb = concrete(b)
        if oka and okb and isinstance(ca, int) and isinstance(cb, int):
            fn = {ast.BitOr: lambda x, y: x | y, ast.BitAnd: lambda x, y: x & y, ast.BitXor: lambda x, y: x ^ y,
                  ast.LShift: lambda x, y: x << y, ast.RShift: lambda x, y: x >> y}.get(type(op))
            if fn is not None:
                yield st, const(fn(ca, cb))
                return
        raise Untranslatable("bit operation on integers", node)

    def seq_like(self, eng, v, kind, st):
        if isinstance(v, V) and isinstance(v.kind, Seq):
            return V(kind, v.term)
        if isinstance(v, (VList, VTuple)):
            return eng.coerce(v, kind, st)
        raise Untranslatable(f"not a sequence: {v!r}")

    def compare(self, eng, op, a, b, st, node):
        if isinstance(op, (ast.Eq, ast.Is)):
            yield st, eng.eq(a, b, st)
        elif isinstance(op, (ast.NotEq, ast.IsNot)):
            yield st, z3.Not(eng.eq(a, b, st))
        elif isinstance(op, (ast.Lt, ast.LtE, ast.Gt, ast.GtE)):
            if isinstance(a, V) and isinstance(b, V) and a.kind in (INT, REAL, BOOL) and b.kind in (INT, REAL, BOOL):
                _, ta, tb = self.num_pair(a, b)
                t = {ast.Lt: ta < tb, ast.LtE: ta <= tb, ast.Gt: ta > tb, ast.GtE: ta >= tb}[type(op)]
                yield st, t
            elif isinstance(a, V) and isinstance(b, V) and a.kind == STR and b.kind == STR:
                lt = lambda x, y: x < y
                le = lambda x, y: x <= y
                t = {ast.Lt: lt(a.term, b.term), ast.LtE: le(a.term, b.term),
                     ast.Gt: lt(b.term, a.term), ast.GtE: le(b.term, a.term)}[type(op)]
                yield st, t
            elif isinstance(a, V) and isinstance(b, V) and isinstance(a.kind, SetK) and isinstance(b.kind, SetK):
                sub = a.kind.subset(a.term, b.term)
                sup = a.kind.subset(b.term, a.term)
                t = {ast.Lt: z3.And(sub, a.term != b.term), ast.LtE: sub, ast.Gt: z3.And(sup, a.term != b.term), ast.GtE: sup}[type(op)]
                yield st, t
            else:
                raise Untranslatable(f"ordering of {a!r} and {b!r}", node)
        elif isinstance(op, (ast.In, ast.NotIn)):
            for st1, t in self.contains(eng, b, a, st, node):
                yield st1, (t if isinstance(op, ast.In) else z3.Not(t))
        else:
            raise Untranslatable("comparison operator", node)

    def contains(self, eng, container, x, st, node=None):
        c = container
        if isinstance(c, V):
            if c.kind == STR:
                if not (isinstance(x, V) and x.kind == STR):
                    if isinstance(x, VNone):
                        eng.raise_exc(st, "TypeError", node)
                        return
                    raise Untranslatable("non-string in string", node)
                yield st, z3.Contains(c.term, x.term)
                return
            if isinstance(c.kind, Seq):
                if isinstance(x, VNone) and not isinstance(c.kind.elem, (Ref, Opt)):
                    yield st, z3.BoolVal(False)
                    return
                xe = eng.coerce(x, c.kind.elem, st)
                yield st, c.kind.contains(c.term, xe.term)
                return
            if isinstance(c.kind, SetK):
                if isinstance(x, VNone) and not isinstance(c.kind.elem, (Ref, Opt)):
                    yield st, z3.BoolVal(False)
                    return
                xe = eng.coerce(x, c.kind.elem, st)
                yield st, z3.Select(c.term, xe.term)
                return
            if isinstance(c.kind, Map):
                xe = eng.coerce(x, c.kind.key, st)
                yield st, z3.Select(c.kind.dom(c.term), xe.term)
                return
            if isinstance(c.kind, Ref):
                h = eng.schema_lookup(c.kind.cls, "methods", "__contains__")
                if h is not None:
                    for st1, v in h(eng, st, c, [x], {}, node):
                        yield st1, eng.truth(v, st1)
                    return
        if isinstance(c, VEmptySet):
            yield st, z3.BoolVal(False)
            return
        if isinstance(c, (VList, VTuple)):
            if not c.items:
                yield st, z3.BoolVal(False)
                return
            yield st, z3.Or([eng.eq(x, y, st) for y in c.items])
            return
        if isinstance(c, VDict):
            ok, xc = concrete(x)
            if ok:
                yield st, z3.BoolVal(xc in c.items)
                return
            yield st, z3.Or([eng.eq(x, const(k), st) for k in c.items if not isinstance(k, tuple)] or [z3.BoolVal(False)])
            return
        raise Untranslatable(f"membership in {c!r}", node)

    # ------------------------------------------------------------------ subscripts
    def getitem(self, eng, obj, idx, st, node):
        if isinstance(obj, VModule) and f"{obj.name}.__getitem__" in eng.overrides:
            # registry-like module globals (e.g. BACKENDS[...]) summarised by a handler
            yield from eng.overrides[f"{obj.name}.__getitem__"](eng, st, obj, [idx], {}, node)
            return
        if isinstance(obj, V):
            k = obj.kind
            if isinstance(k, Map):
                ke = eng.coerce(idx, k.key, st)
                if eng.no_prune:
                    yield st, V(k.val, z3.Select(k.valarr(obj.term), ke.term))
                    return
                for st1, ok in eng.fork(st, z3.Select(k.dom(obj.term), ke.term), f"key@{node.lineno}"):
                    if ok:
                        yield st1, V(k.val, z3.Select(k.valarr(obj.term), ke.term))
                    else:
                        eng.raise_exc(st1, "KeyError", node)
                return
            if isinstance(k, Seq) or k == STR:
                if not (isinstance(idx, V) and idx.kind == INT):
                    raise Untranslatable("non-integer sequence index", node)
                n = z3.Length(obj.term) if k == STR else k.len(obj.term)
                okc, ic = concrete(idx)
                if eng.no_prune and not (okc and ic < 0):
                    i = idx.term      # spec expressions index with non-negative positions
                else:
                    i = z3.simplify(z3.If(idx.term < 0, n + idx.term, idx.term))
                if eng.no_prune:
                    yield st, (V(STR, z3.SubString(obj.term, i, 1)) if k == STR else V(k.elem, k.at(obj.term, i)))
                    return
                for st1, ok in eng.fork(st, z3.And(i >= 0, i < n), f"index@{node.lineno}"):
                    if ok:
                        if k == STR:
                            yield st1, V(STR, z3.SubString(obj.term, i, 1))
                        else:
                            yield st1, V(k.elem, k.at(obj.term, i))
                    else:
                        eng.raise_exc(st1, "IndexError", node)
                return
            if isinstance(k, Ref):
                h = eng.schema_lookup(k.cls, "methods", "__getitem__")
                if h is not None:
                    yield from eng.nonnull(obj, st, node, lambda st2: h(eng, st2, obj, [idx], {}, node))
                    return
        if isinstance(obj, (VList, VTuple)):
            ok, ic = concrete(idx)
            if ok:
                if -len(obj.items) <= ic < len(obj.items):
                    yield st, obj.items[ic]
                else:
                    eng.raise_exc(st, "IndexError", node)
                return
            smt = eng.to_smt(obj, st)
            if isinstance(smt, V):
                yield from self.getitem(eng, smt, idx, st, node)
                return
        if isinstance(obj, VDict):
            ok, kc = concrete(idx)
            if ok:
                if kc in obj.items:
                    yield st, obj.items[kc]
                else:
                    eng.raise_exc(st, "KeyError", node)
                return
            keys = [k for k in obj.items if not isinstance(k, tuple)]
            if keys and isinstance(idx, V) and all(isinstance(obj.items[k], V) for k in keys):
                # symbolic key into a python-level dict with concrete keys: case split
                hit = z3.Or([eng.eq(idx, const(k), st) for k in keys])
                if eng.no_prune:
                    vals = [obj.items[k] for k in keys]
                    yield st, eng.ite_value(st, [eng.eq(idx, const(k), st) for k in keys], vals)
                    return
                for st1, found in eng.fork(st, hit, f"dictkey@{getattr(node, 'lineno', '?')}"):
                    if found:
                        vals = [obj.items[k] for k in keys]
                        yield st1, eng.ite_value(st1, [eng.eq(idx, const(k), st1) for k in keys], vals)
                    else:
                        eng.raise_exc(st1, "KeyError", node)
                return
        if isinstance(obj, VNone):
            eng.raise_exc(st, "TypeError", node)
            return
        raise Untranslatable(f"subscript of {obj!r}", node)

    def slice(self, eng, obj, lo, hi, st, node):
        if isinstance(obj, (VList, VTuple)):
            okl, l = (True, None) if lo is None else concrete(lo)
            okh, h = (True, None) if hi is None else concrete(hi)
            if okl and okh:
                yield st, type(obj)(obj.items[l:h])
                return
            obj = eng.to_smt(obj, st)
        if isinstance(obj, V) and (obj.kind == STR or isinstance(obj.kind, Seq)):
            n = z3.Length(obj.term) if obj.kind == STR else obj.kind.len(obj.term)

            def norm(x, dflt):
                if x is None:
                    return dflt
                t = x.term
                t = z3.If(t < 0, z3.If(n + t < 0, 0, n + t), z3.If(t > n, n, t))
                return t
            l = norm(lo, z3.IntVal(0))
            h = norm(hi, n)
            ln = z3.If(h - l < 0, 0, h - l)
            if obj.kind != STR:
                new = obj.kind.sub(st, obj.term, l, ln)
                yield st, V(obj.kind, new)
            else:
                yield st, V(STR, z3.SubString(obj.term, l, ln))
            return
        raise Untranslatable(f"slice of {obj!r}", node)

    def map_store(self, k, m, key, val):
        dom, va, keys = k.dom(m), k.valarr(m), k.keys(m)
        newkeys = z3.If(z3.Select(dom, key), keys, Seq(k.key).append(keys, key))
        return k.mk(z3.Store(dom, key, z3.BoolVal(True)), z3.Store(va, key, val), newkeys)

    def setitem(self, eng, obj, idx, v, st, node):
        if isinstance(obj, V):
            k = obj.kind
            if isinstance(k, Map):
                eng.escape_value(st, idx)
                eng.escape_value(st, v)
                ke = eng.coerce(idx, k.key, st)
                ve = eng.coerce(v, k.val, st)
                yield st, V(k, self.map_store(k, obj.term, ke.term, ve.term))
                return
            if isinstance(k, Ref):
                h = eng.schema_lookup(k.cls, "methods", "__setitem__")
                if h is not None:
                    for st1, ok in eng.fork(st, obj.term != NULL, "nonnull"):
                        if ok:
                            for st2, _ in h(eng, st1, obj, [idx, v], {}, node):
                                yield st2, None
                        else:
                            eng.raise_exc(st1, "TypeError", node)
                    return
            if isinstance(k, Seq):
                n = k.len(obj.term)
                i = z3.If(idx.term < 0, n + idx.term, idx.term)
                for st1, ok in eng.fork(st, z3.And(i >= 0, i < n), "index-store"):
                    if ok:
                        ve = eng.coerce(v, k.elem, st1)
                        yield st1, V(k, k.mk(n, z3.Store(k.arr(obj.term), i, ve.term)))
                    else:
                        eng.raise_exc(st1, "IndexError", node)
                return
        if isinstance(obj, VDict):
            ok, kc = concrete(idx)
            if ok:
                yield st, VDict({**obj.items, kc: v})
                return
        if isinstance(obj, (VList,)):
            ok, ic = concrete(idx)
            if ok and -len(obj.items) <= ic < len(obj.items):
                items = list(obj.items)
                items[ic] = v
                yield st, VList(items)
                return
        raise Untranslatable(f"item store on {obj!r}", node)

    def delitem(self, eng, obj, idx, st, node):
        if isinstance(obj, V):
            k = obj.kind
            if isinstance(k, Map):
                ke = eng.coerce(idx, k.key, st)
                for st1, ok in eng.fork(st, z3.Select(k.dom(obj.term), ke.term), "delkey"):
                    if ok:
                        keys = k.keys(obj.term)
                        ks = Seq(k.key)
                        pos = fresh(INT, "delpos")
                        st1.assume(z3.Implies(
                            z3.Exists([pos.term], z3.And(0 <= pos.term, pos.term < ks.len(keys), ks.at(keys, pos.term) == ke.term)),
                            z3.And(0 <= pos.term, pos.term < ks.len(keys), ks.at(keys, pos.term) == ke.term)))
                        newkeys = ks.without(st1, keys, pos.term)
                        yield st1, V(k, k.mk(z3.Store(k.dom(obj.term), ke.term, z3.BoolVal(False)), k.valarr(obj.term), newkeys))
                    else:
                        eng.raise_exc(st1, "KeyError", node)
                return
            if isinstance(k, Ref):
                h = eng.schema_lookup(k.cls, "methods", "__delitem__")
                if h is not None:
                    for st2, _ in h(eng, st, obj, [idx], {}, node):
                        yield st2, None
                    return
        raise Untranslatable(f"del item on {obj!r}", node)

    def unpack(self, eng, v, n, st, node):
        if isinstance(v, (VTuple, VList)):
            if len(v.items) != n:
                eng.raise_exc(st, "ValueError", node)
                return
            yield st, v.items
            return
        if isinstance(v, V) and isinstance(v.kind, Seq):
            for st1, ok in eng.fork(st, v.kind.len(v.term) == n, f"unpack@{getattr(node, 'lineno', '?')}"):
                if ok:
                    yield st1, [V(v.kind.elem, v.kind.at(v.term, i)) for i in range(n)]
                else:
                    eng.raise_exc(st1, "ValueError", node)
            return
        raise Untranslatable(f"unpacking of {v!r}", node)

    # ------------------------------------------------------------------ sets from sequences
    def seq_to_set(self, eng, v, st):
        """Set view of a sequence: fresh array constrained by two universally quantified facts."""
        elem = v.kind.elem
        es = elem.sort()
        mkey = ("seq_to_set", v.term.get_id())
        if mkey in st.memo:
            return st.memo[mkey]
        S = z3.Const(f"setof!{v.term.get_id()}", z3.ArraySort(es, z3.BoolSort()))
        v = V(v.kind, v.kind.as_const(st, v.term))
        i = z3.Const(fresh_name("i"), z3.IntSort())
        x = z3.Const(fresh_name("x"), es)
        n = v.kind.len(v.term)
        at = lambda q: v.kind.at(v.term, q)
        st.assume(safe_forall([i], z3.Implies(z3.And(0 <= i, i < n), z3.Select(S, at(i))), patterns=[at(i)]))
        # direct link with list membership (a consequence of the two facts above and of the mem axioms)
        st.assume(safe_forall([x], z3.Select(S, x) == v.kind.contains(v.term, x), patterns=[z3.Select(S, x)]))
        st.assume(safe_forall([x], z3.Select(S, x) == v.kind.contains(v.term, x), patterns=[v.kind.contains(v.term, x)]))
        st.memo[mkey] = V(SetK(elem), S)
        return st.memo[mkey]

    # ------------------------------------------------------------------ methods on library values
    def method(self, eng, recv, name, args, kwargs, st, node):
        h = None
        if isinstance(recv, V):
            k = recv.kind
            if k == STR:
                h = getattr(self, "str_" + name, None)
            elif isinstance(k, Seq):
                h = getattr(self, "seq_" + name, None)
            elif isinstance(k, SetK):
                h = getattr(self, "set_" + name, None)
            elif isinstance(k, Map):
                h = getattr(self, "map_" + name, None)
        elif isinstance(recv, VEmptySet):
            h = getattr(self, "eset_" + name, None)
        elif isinstance(recv, VList):
            h = getattr(self, "pylist_" + name, None)
        elif isinstance(recv, VDict):
            h = getattr(self, "pydict_" + name, None)
        elif isinstance(recv, VTuple):
            h = getattr(self, "pylist_" + name, None)
        elif isinstance(recv, VModule):
            f = self.module_attr(eng, recv, name, st, node)
            yield from eng.call(f, args, kwargs, st, node)
            return
        elif isinstance(recv, VClass):
            for st1, f in self.class_attr(eng, recv, name, st, node):
                yield from eng.call(f, args, kwargs, st1, node)
            return
        elif isinstance(recv, VNone):
            eng.raise_exc(st, "AttributeError", node)
            return
        if h is None:
            # a name that the Python type does not have at all raises AttributeError (e.g. list.intersect)
            pytype = None
            if isinstance(recv, V):
                pytype = {True: None}.get(False)
                if recv.kind == STR:
                    pytype = str
                elif isinstance(recv.kind, Seq):
                    pytype = list
                elif isinstance(recv.kind, SetK):
                    pytype = set
                elif isinstance(recv.kind, Map):
                    pytype = dict
            elif isinstance(recv, (VList,)):
                pytype = list
            elif isinstance(recv, VEmptySet):
                pytype = set
            elif isinstance(recv, VDict):
                pytype = dict
            if pytype is not None and not hasattr(pytype, name):
                eng.raise_exc(st, "AttributeError", node)
                return
            raise Untranslatable(f"method {name} on {recv!r}", node)
        yield from h(eng, recv, args, kwargs, st, node)

    def write_back(self, eng, node, newval, st):
        """Mutating method: assign the new container value to the receiver expression."""
        target = node.func.value
        yield from eng.assign(target, newval, st)

    # -- str
    def str_lower(self, eng, s, args, kw, st, node):
        ok, c = concrete(s)
        yield st, (const(c.lower()) if ok else V(STR, str_lower(s.term)))

    def str_upper(self, eng, s, args, kw, st, node):
        ok, c = concrete(s)
        yield st, (const(c.upper()) if ok else V(STR, str_upper(s.term)))

    def str_startswith(self, eng, s, args, kw, st, node):
        a = args[0]
        if isinstance(a, (VTuple, VList)):
            yield st, V(BOOL, z3.Or([z3.PrefixOf(x.term, s.term) for x in a.items]))
        else:
            yield st, V(BOOL, z3.PrefixOf(a.term, s.term))

    def str_endswith(self, eng, s, args, kw, st, node):
        a = args[0]
        if isinstance(a, (VTuple, VList)):
            yield st, V(BOOL, z3.Or([z3.SuffixOf(x.term, s.term) for x in a.items]))
        else:
            yield st, V(BOOL, z3.SuffixOf(a.term, s.term))

    def str_replace(self, eng, s, args, kw, st, node):
        if len(args) == 3:
            ok, c = concrete(args[2])
            if ok and c == 1:
                yield st, V(STR, z3.Replace(s.term, args[0].term, args[1].term))
                return
        f = z3.Function("str_replace_all", z3.StringSort(), z3.StringSort(), z3.StringSort(), z3.StringSort())
        yield st, V(STR, f(s.term, args[0].term, args[1].term))

    def str_split(self, eng, s, args, kw, st, node):
        if not args or isinstance(args[0], VNone):
            ok, c = concrete(s)
            if ok:
                yield st, const(c.split())
                return
            r = V(Seq(STR), str_wsplit(s.term))
            yield st, r
            return
        sep = args[0]
        oks, cs = concrete(s)
        okp, cp = concrete(sep)
        if oks and okp and len(args) == 1 and "maxsplit" not in kw:
            yield st, const(cs.split(cp))
            return
        if len(args) > 1 or "maxsplit" in kw:
            mx = args[1] if len(args) > 1 else kw["maxsplit"]
            okm, cm = concrete(mx)
            if okm and cm == 1:
                # s.split(sep, 1): [s] if sep not in s else [before, after]
                i = z3.IndexOf(s.term, sep.term, 0)
                for st1, has in eng.fork(st, z3.Contains(s.term, sep.term), "split1"):
                    if has:
                        a = z3.SubString(s.term, 0, i)
                        b = z3.SubString(s.term, i + z3.Length(sep.term), z3.Length(s.term))
                        yield st1, VList([V(STR, a), V(STR, b)])
                    else:
                        yield st1, VList([s])
                return
            raise Untranslatable("split with maxsplit", node)
        r = str_split(s.term, sep.term)
        L = STRLIST
        st.assume(L.len(r) >= 1)
        st.assume(z3.Implies(z3.Not(z3.Contains(s.term, sep.term)), z3.And(L.len(r) == 1, L.at(r, 0) == s.term)))
        st.assume(z3.Implies(L.len(r) == 1, L.at(r, 0) == s.term))
        # two parts <=> exactly one separator; then s == r0 + sep + r1
        st.assume(z3.Implies(L.len(r) == 2, s.term == z3.Concat(L.at(r, 0), sep.term, L.at(r, 1))))
        st.assume(z3.Implies(z3.Contains(s.term, sep.term), L.len(r) >= 2))
        yield st, V(Seq(STR), r)

    def str_splitlines(self, eng, s, args, kw, st, node):
        yield st, V(Seq(STR), str_split(s.term, z3.StringVal("\n")))

    def str_join(self, eng, s, args, kw, st, node):
        a = args[0]
        if isinstance(a, VGen):
            a = self.realize_gen(eng, a, st, "list")
        if isinstance(a, (VList, VTuple)):
            if all(isinstance(x, V) and x.kind == STR for x in a.items):
                parts = []
                for i, x in enumerate(a.items):
                    if i:
                        parts.append(s.term)
                    parts.append(x.term)
                if not parts:
                    yield st, const("")
                elif len(parts) == 1:
                    yield st, V(STR, parts[0])
                else:
                    yield st, V(STR, z3.Concat(*parts))
                return
        a = eng.to_smt(a, st)
        if isinstance(a, V) and isinstance(a.kind, Seq) and a.kind.elem == STR:
            yield st, V(STR, str_join(s.term, a.term))
            return
        yield st, fresh(STR, "joined")

    def str_strip(self, eng, s, args, kw, st, node):
        ok, c = concrete(s)
        yield st, (const(c.strip()) if ok and not args else V(STR, str_strip(s.term)))

    def str_rstrip(self, eng, s, args, kw, st, node):
        ok, c = concrete(s)
        yield st, (const(c.rstrip()) if ok and not args else V(STR, str_rstrip(s.term)))

    def str_zfill(self, eng, s, args, kw, st, node):
        ok, c = concrete(s)
        okn, n = concrete(args[0])
        if ok and okn:
            yield st, const(c.zfill(n))
            return
        f = z3.Function("str_zfill", z3.StringSort(), z3.IntSort(), z3.StringSort())
        yield st, V(STR, f(s.term, args[0].term))

    def str_lstrip(self, eng, s, args, kw, st, node):
        yield st, V(STR, z3.Function("str_lstrip", z3.StringSort(), z3.StringSort())(s.term))

    def str_isdigit(self, eng, s, args, kw, st, node):
        yield st, V(BOOL, z3.And(z3.Length(s.term) > 0, z3.InRe(s.term, z3.Plus(z3.Range("0", "9")))))

    def str_find(self, eng, s, args, kw, st, node):
        yield st, V(INT, z3.IndexOf(s.term, args[0].term, 0))

    def str_format(self, eng, s, args, kw, st, node):
        yield st, fresh(STR, "formatted")

    def str_encode(self, eng, s, args, kw, st, node):
        yield st, s

    def str_count(self, eng, s, args, kw, st, node):
        r = fresh(INT, "count")
        st.assume(r.term >= 0)
        st.assume((r.term > 0) == z3.Contains(s.term, args[0].term))
        yield st, r

    # -- seq (list held in SMT)
    def seq_append(self, eng, s, args, kw, st, node):
        eng.escape_value(st, args[0])
        x = eng.coerce(args[0], s.kind.elem, st)
        new = V(s.kind, s.kind.named(st, s.kind.append(s.term, x.term)))
        st.assume(s.kind.lemma_append(new.term, s.term, x.term))
        for st1 in self.write_back(eng, node, new, st):
            yield st1, NONE

    def seq_extend(self, eng, s, args, kw, st, node):
        o = self.seq_like(eng, args[0], s.kind, st)
        new = V(s.kind, s.kind.concat(st, s.term, o.term))
        for st1 in self.write_back(eng, node, new, st):
            yield st1, NONE

    def first_index(self, eng, s, x, st):
        """Fresh integer constrained to be the first index of x in s (meaningful when x occurs)."""
        k = s.kind
        pos = fresh(INT, "pos")
        j = z3.Const(fresh_name("fj"), z3.IntSort())
        st.assume(z3.And(0 <= pos.term, pos.term < k.len(s.term), k.at(s.term, pos.term) == x.term,
                         safe_forall([j], z3.Implies(z3.And(0 <= j, j < pos.term), k.at(s.term, j) != x.term))))
        return pos

    def seq_remove(self, eng, s, args, kw, st, node):
        x = eng.coerce(args[0], s.kind.elem, st)
        for st1, ok in eng.fork(st, s.kind.contains(s.term, x.term), "remove"):
            if ok:
                pos = self.first_index(eng, s, x, st1)
                new = V(s.kind, s.kind.without(st1, s.term, pos.term))
                for st2 in self.write_back(eng, node, new, st1):
                    yield st2, NONE
            else:
                eng.raise_exc(st1, "ValueError", node)

    def seq_pop(self, eng, s, args, kw, st, node):
        k = s.kind
        n = k.len(s.term)
        if args:
            ok, c = concrete(args[0])
            if not (ok and c in (0, -1)):
                raise Untranslatable("pop with symbolic index", node)
            first = (c == 0)
        else:
            first = False
        for st1, ok in eng.fork(st, n > 0, "pop"):
            if ok:
                if first:
                    item = V(k.elem, k.at(s.term, 0))
                    new = V(k, k.sub(st1, s.term, 1, n - 1))
                else:
                    item = V(k.elem, k.at(s.term, n - 1))
                    new = V(k, k.named(st1, k.mk(n - 1, k.arr(s.term))))
                st1.assume(k.lemma_sublist(new.term, s.term))
                for st2 in self.write_back(eng, node, new, st1):
                    yield st2, item
            else:
                eng.raise_exc(st1, "IndexError", node)

    def seq_index(self, eng, s, args, kw, st, node):
        x = eng.coerce(args[0], s.kind.elem, st)
        for st1, ok in eng.fork(st, s.kind.contains(s.term, x.term), "index"):
            if ok:
                yield st1, self.first_index(eng, s, x, st1)
            else:
                eng.raise_exc(st1, "ValueError", node)

    def seq_copy(self, eng, s, args, kw, st, node):
        yield st, s

    def seq_count(self, eng, s, args, kw, st, node):
        x = eng.coerce(args[0], s.kind.elem, st)
        r = fresh(INT, "count")
        st.assume(r.term >= 0)
        st.assume((r.term > 0) == s.kind.contains(s.term, x.term))
        yield st, r

    # -- set
    def set_add(self, eng, s, args, kw, st, node):
        eng.escape_value(st, args[0])
        x = eng.coerce(args[0], s.kind.elem, st)
        for st1 in self.write_back(eng, node, V(s.kind, z3.SetAdd(s.term, x.term)), st):
            yield st1, NONE

    def set_discard(self, eng, s, args, kw, st, node):
        x = eng.coerce(args[0], s.kind.elem, st)
        for st1 in self.write_back(eng, node, V(s.kind, z3.SetDel(s.term, x.term)), st):
            yield st1, NONE

    def set_remove(self, eng, s, args, kw, st, node):
        x = eng.coerce(args[0], s.kind.elem, st)
        for st1, ok in eng.fork(st, z3.Select(s.term, x.term), "set.remove"):
            if ok:
                for st2 in self.write_back(eng, node, V(s.kind, z3.SetDel(s.term, x.term)), st1):
                    yield st2, NONE
            else:
                eng.raise_exc(st1, "KeyError", node)

    def set_update(self, eng, s, args, kw, st, node):
        t = s.term
        for a in args:
            t = s.kind.union(st, t, eng.as_set(a, st).term)
        for st1 in self.write_back(eng, node, V(s.kind, t), st):
            yield st1, NONE

    def set_union(self, eng, s, args, kw, st, node):
        t = s.term
        for a in args:
            t = s.kind.union(st, t, eng.as_set(a, st).term)
        yield st, V(s.kind, t)

    def set_intersection(self, eng, s, args, kw, st, node):
        t = s.term
        for a in args:
            t = s.kind.inter(st, t, eng.as_set(a, st).term)
        yield st, V(s.kind, t)

    def set_difference(self, eng, s, args, kw, st, node):
        t = s.term
        for a in args:
            t = s.kind.diff(st, t, eng.as_set(a, st).term)
        yield st, V(s.kind, t)

    def set_issubset(self, eng, s, args, kw, st, node):
        yield st, V(BOOL, s.kind.subset(s.term, eng.as_set(args[0], st).term))

    def set_copy(self, eng, s, args, kw, st, node):
        yield st, s

    # -- empty set of unknown element kind
    def eset_add(self, eng, s, args, kw, st, node):
        x = args[0]
        new = V(SetK(x.kind), z3.SetAdd(z3.EmptySet(x.kind.sort()), x.term))
        for st1 in self.write_back(eng, node, new, st):
            yield st1, NONE

    def eset_update(self, eng, s, args, kw, st, node):
        a = args[0]
        if isinstance(a, VEmptySet) or (isinstance(a, (VList, VTuple)) and not a.items):
            yield st, NONE
            return
        for st1 in self.write_back(eng, node, eng.as_set(a, st), st):
            yield st1, NONE

    def eset_discard(self, eng, s, args, kw, st, node):
        yield st, NONE

    def eset_remove(self, eng, s, args, kw, st, node):
        eng.raise_exc(st, "KeyError", node)
        return
        yield

    def eset_copy(self, eng, s, args, kw, st, node):
        yield st, s

    # -- map
    def map_get(self, eng, m, args, kw, st, node):
        k = m.kind
        ke = eng.coerce(args[0], k.key, st)
        dflt = args[1] if len(args) > 1 else NONE
        for st1, ok in eng.fork(st, z3.Select(k.dom(m.term), ke.term), f"get@{getattr(node, 'lineno', '?')}"):
            if ok:
                yield st1, V(k.val, z3.Select(k.valarr(m.term), ke.term))
            else:
                yield st1, dflt

    def map_keys(self, eng, m, args, kw, st, node):
        yield st, VIter("mapkeys", [m])

    def map_values(self, eng, m, args, kw, st, node):
        yield st, VIter("mapvalues", [m])

    def map_items(self, eng, m, args, kw, st, node):
        yield st, VIter("mapitems", [m])

    def map_copy(self, eng, m, args, kw, st, node):
        yield st, m

    # -- python-level list / dict
    def pylist_append(self, eng, l, args, kw, st, node):
        for st1 in self.write_back(eng, node, VList(l.items + [args[0]]), st):
            yield st1, NONE

    def pylist_extend(self, eng, l, args, kw, st, node):
        a = args[0]
        if not isinstance(a, (VList, VTuple)):
            raise Untranslatable("extend python list with symbolic sequence", node)
        for st1 in self.write_back(eng, node, VList(l.items + a.items), st):
            yield st1, NONE

    def pylist_pop(self, eng, l, args, kw, st, node):
        if not l.items:
            eng.raise_exc(st, "IndexError", node)
            return
        i = -1
        if args:
            ok, i = concrete(args[0])
            if not ok:
                raise Untranslatable("pop index", node)
        items = list(l.items)
        item = items.pop(i)
        for st1 in self.write_back(eng, node, VList(items), st):
            yield st1, item

    def pylist_copy(self, eng, l, args, kw, st, node):
        yield st, VList(list(l.items))

    def pylist_index(self, eng, l, args, kw, st, node):
        raise Untranslatable("index on python-level list", node)

    def pydict_get(self, eng, d, args, kw, st, node):
        ok, kc = concrete(args[0])
        if not ok:
            if not d.items:
                yield st, args[1] if len(args) > 1 else NONE
                return
            raise Untranslatable("symbolic key on python-level dict", node)
        yield st, d.items.get(kc, args[1] if len(args) > 1 else NONE)

    def pydict_items(self, eng, d, args, kw, st, node):
        yield st, VList([VTuple([const(k), v]) for k, v in d.items.items() if not isinstance(k, tuple)])

    def pydict_keys(self, eng, d, args, kw, st, node):
        yield st, VList([const(k) for k in d.items if not isinstance(k, tuple)])

    def pydict_values(self, eng, d, args, kw, st, node):
        yield st, VList(list(d.items.values()))

    def pydict_copy(self, eng, d, args, kw, st, node):
        yield st, VDict(dict(d.items))

    def pydict_update(self, eng, d, args, kw, st, node):
        o = args[0]
        if isinstance(o, V) and isinstance(o.kind, Ref) and o.kind.cls == "Params" and "Params" in eng.schema:
            # a plain dict of string keys updated from a parameter object: from here on it is a parameter mapping itself
            h = eng.schema_lookup("Params", "methods", "update")
            newp = eng.new_object(st, "Params", "dictparams")
            from contracts.schema import P_HAS, P_VAL
            eng.write_field(st, newp, "Params", "p_has", P_HAS, V(P_HAS, z3.K(z3.StringSort(), z3.BoolVal(False))))
            eng.write_field(st, newp, "Params", "p_val", P_VAL, V(P_VAL, z3.K(z3.StringSort(), z3.StringVal(""))))
            for st1, _ in h(eng, st, newp, [d], {}, node):
                for st2, _ in h(eng, st1, newp, [o], {}, node):
                    for st3 in self.write_back(eng, node, newp, st2):
                        yield st3, NONE
            return
        if not isinstance(o, VDict):
            raise Untranslatable("update of python-level dict with symbolic map", node)
        for st1 in self.write_back(eng, node, VDict({**d.items, **o.items}), st):
            yield st1, NONE

    # ------------------------------------------------------------------ builtins / globals
    def _install_builtins(self):
        b = self.builtin_handlers
        for name in ("len", "max", "min", "set", "list", "tuple", "dict", "sorted", "int", "float", "str", "bool",
                     "round", "abs", "bin", "isinstance", "issubclass", "any", "all", "next", "range", "enumerate", "zip",
                     "hasattr", "print", "sum", "reversed", "repr", "iter", "frozenset"):
            b[name] = VFunc("handler", fn=getattr(self, "bi_" + name), name=name)

    def global_name(self, eng, name, st, node):
        if name in self.builtin_handlers:
            return self.builtin_handlers[name]
        if name in EXC_PARENTS or name in ("BaseException",):
            return VClass(name)
        if name in ("True", "False"):
            return const(name == "True")
        v = self.repo_global(eng, name, st, node)
        if v is not None:
            return v
        return None

    def repo_global(self, eng, name, st, node):
        """Names defined by the repository: module-level functions and constants, classes, imported modules."""
        fs = eng.func_stack[-1] if eng.func_stack else None
        file = fs.file if fs else eng.current_file
        if name in self.modules:
            return self.modules[name]
        if file is not None:
            key = f"{file}::{name}"
            if key in eng.index.funcs:
                return VFunc("repo", fs=eng.index.funcs[key], name=name)
            if (file, name) in eng.index.module_consts:
                expr = eng.index.module_consts[(file, name)]
                try:
                    val = ast.literal_eval(expr)
                    return const(val)
                except Exception:
                    pass
        if name in eng.index.classes or name in eng.schema:
            return VClass(name)
        known_modules = {"os", "re", "asyncio", "time", "json", "shutil", "fcntl", "errno", "glob", "ipaddress",
                         "logging", "log", "door", "remote", "param", "exceptions", "contextlib", "sys", "stat",
                         "subprocess", "process", "crypto", "signal", "collections", "functools", "random"}
        if name in known_modules:
            return VModule(name)
        return None

    def import_from(self, eng, module, name, level, st, node):
        if name in eng.index.classes or name in eng.schema:
            return VClass(name)
        return VModule(name)

    def module_attr(self, eng, mod, attr, st, node):
        key = f"{mod.name}.{attr}"
        if key in eng.overrides:
            h = eng.overrides[key]
            return VFunc("handler", fn=lambda e, s, a, k, n: h(e, s, None, a, k, n), name=key)
        if key in self.modules:
            return self.modules[key]
        # sub-modules such as os.path
        return VModule(key)

    def class_attr(self, eng, cls, attr, st, node):
        key = f"{cls.name}.{attr}"
        if key in eng.overrides:
            h = eng.overrides[key]
            yield st, VFunc("handler", fn=lambda e, s, a, k, n: h(e, s, cls, a, k, n), name=key)
            return
        h = eng.schema_lookup(cls.name, "classattrs", attr)
        if h is not None:
            yield from h(eng, st, cls, node)
            return
        fs = eng.index.method(cls.name, attr)
        if fs is not None:
            if fs.is_classmethod:
                yield st, VFunc("handler", fn=lambda e, s, a, k, n: e.inline(fs, [cls] + a, k, s, n), name=key)
            else:
                yield st, VFunc("repo", fs=fs, name=key)
            return
        expr = eng.index.class_attr(cls.name, attr)
        if isinstance(expr, ast.Name) and expr.id in eng.index.classes:
            yield st, VClass(expr.id)
            return
        if expr is not None:
            try:
                yield st, const(ast.literal_eval(expr))
                return
            except Exception:
                pass
        raise Untranslatable(f"class attribute {key}", node)

    def construct(self, eng, cls, args, kwargs, st, node):
        if cls.name in EXC_PARENTS:
            yield st, VExc(cls.name, args)
            return
        key = f"{cls.name}.__new__"
        if key in eng.overrides:
            yield from eng.overrides[key](eng, st, cls, args, kwargs, node)
            return
        h = eng.schema_lookup(cls.name, "methods", "__new__")
        if h is not None:
            yield from h(eng, st, cls, args, kwargs, node)
            return
        fs = eng.index.method(cls.name, "__init__")
        if cls.name in eng.schema and fs is not None:
            obj = eng.new_object(st, cls.name, cls.name.lower())
            for st1, _ in eng.inline(fs, [obj] + args, kwargs, st, node):
                yield st1, obj
            return
        raise Untranslatable(f"constructor of {cls.name}", node)

    # builtin handlers: signature (eng, st, args, kwargs, node)
    def bi_len(self, eng, st, args, kw, node):
        a = args[0]
        if isinstance(a, VGen):
            a = self.realize_gen(eng, a, st, "list")
        if isinstance(a, V):
            k = a.kind
            if k == STR:
                yield st, V(INT, z3.Length(a.term))
                return
            if isinstance(k, Seq):
                yield st, V(INT, k.len(a.term))
                return
            if isinstance(k, SetK):
                c = card_fn(k.elem.sort())
                self.used_axioms.add(("card", k.elem.sort()))
                mkey = ("card", a.term.get_id())
                if mkey not in st.memo:
                    st.assume(c(a.term) >= 0)
                    # emptiness with an explicit witness instead of extensional equality with the empty set
                    w = z3.Const(fresh_name("wit"), k.elem.sort())
                    x = z3.Const(fresh_name("x"), k.elem.sort())
                    st.assume(z3.Implies(c(a.term) > 0, z3.Select(a.term, w)))
                    st.assume(z3.Implies(c(a.term) == 0, safe_forall([x], z3.Not(z3.Select(a.term, x)))))
                    st.memo[mkey] = True
                yield st, V(INT, c(a.term))
                return
            if isinstance(k, Map):
                yield st, V(INT, Seq(k.key).len(k.keys(a.term)))
                return
            if isinstance(k, Ref):
                h = eng.schema_lookup(k.cls, "methods", "__len__")
                if h is not None:
                    yield from h(eng, st, a, [], {}, node)
                    return
        if isinstance(a, VEmptySet):
            yield st, const(0)
            return
        if isinstance(a, (VList, VTuple)):
            yield st, const(len(a.items))
            return
        if isinstance(a, VDict):
            yield st, const(len(a.items))
            return
        if isinstance(a, VNone):
            eng.raise_exc(st, "TypeError", node)
            return
        raise Untranslatable(f"len of {a!r}", node)

    def _minmax(self, eng, st, args, kw, node, is_max):
        items = None
        if len(args) == 1:
            a = args[0]
            if isinstance(a, VGen):
                a = self.realize_gen(eng, a, st, "list")
            if isinstance(a, (VList, VTuple)):
                items = a.items
                if not items:
                    if "default" in kw:
                        yield st, kw["default"]
                    else:
                        eng.raise_exc(st, "ValueError", node)
                    return
            elif isinstance(a, V) and isinstance(a.kind, Seq) and a.kind.elem in (INT, REAL):
                r = fresh(a.kind.elem, "max" if is_max else "min")
                i = z3.Const(fresh_name("i"), z3.IntSort())
                n = a.kind.len(a.term)
                def body(st1):
                    cmp_ = (lambda x, y: x >= y) if is_max else (lambda x, y: x <= y)
                    st1.assume(safe_forall([i], z3.Implies(z3.And(0 <= i, i < n), cmp_(r.term, a.kind.at(a.term, i)))))
                    j = fresh(INT, "argm")
                    st1.assume(z3.And(0 <= j.term, j.term < n, a.kind.at(a.term, j.term) == r.term))
                    return r
                for st1, nonempty in eng.fork(st, n > 0, "minmax"):
                    if nonempty:
                        yield st1, body(st1)
                    elif "default" in kw:
                        yield st1, kw["default"]
                    else:
                        eng.raise_exc(st1, "ValueError", node)
                return
            else:
                raise Untranslatable(f"min/max of {a!r}", node)
        else:
            items = args
        k, acc = None, None
        for x in items:
            if not isinstance(x, V) or x.kind not in (INT, REAL, BOOL):
                raise Untranslatable("min/max of non-numbers", node)
        acc = items[0]
        for x in items[1:]:
            kk, ta, tb = self.num_pair(acc, x)
            acc = V(kk, z3.If((ta >= tb) if is_max else (ta <= tb), ta, tb))
        yield st, acc

    def bi_max(self, eng, st, args, kw, node):
        yield from self._minmax(eng, st, args, kw, node, True)

    def bi_min(self, eng, st, args, kw, node):
        yield from self._minmax(eng, st, args, kw, node, False)

    def bi_set(self, eng, st, args, kw, node):
        if not args:
            yield st, VEmptySet()
            return
        a = args[0]
        if isinstance(a, VGen):
            yield st, self.realize_gen(eng, a, st, "set")
            return
        if isinstance(a, (VList, VTuple)) and not a.items:
            yield st, VEmptySet()
            return
        if isinstance(a, VEmptySet):
            yield st, a
            return
        yield st, eng.as_set(a, st)

    def bi_frozenset(self, eng, st, args, kw, node):
        yield from self.bi_set(eng, st, args, kw, node)

    def bi_list(self, eng, st, args, kw, node):
        if not args:
            yield st, VList([])
            return
        a = args[0]
        if isinstance(a, VGen):
            yield st, self.realize_gen(eng, a, st, "list")
            return
        if isinstance(a, (VList, VTuple)):
            yield st, VList(list(a.items))
            return
        if isinstance(a, V) and isinstance(a.kind, Seq):
            yield st, a
            return
        if isinstance(a, V) and isinstance(a.kind, Map):
            yield st, V(Seq(a.kind.key), a.kind.keys(a.term))
            return
        if isinstance(a, VIter) and a.how == "mapkeys":
            m = a.parts[0]
            yield st, V(Seq(m.kind.key), m.kind.keys(m.term))
            return
        if isinstance(a, V) and isinstance(a.kind, SetK):
            yield st, self.set_to_seq(eng, a, st)
            return
        raise Untranslatable(f"list() of {a!r}", node)

    def set_to_seq(self, eng, s, st):
        """Arbitrary enumeration of a set: fresh duplicate-free sequence with the same elements."""
        elem = s.kind.elem
        q = fresh(Seq(elem), "enum")
        i = z3.Const(fresh_name("i"), z3.IntSort())
        j = z3.Const(fresh_name("j"), z3.IntSort())
        x = z3.Const(fresh_name("x"), elem.sort())
        K = q.kind
        n = K.len(q.term)
        at = lambda z: K.at(q.term, z)
        pos = z3.Function(fresh_name("enumpos"), elem.sort(), z3.IntSort())
        st.assume(safe_forall([i], z3.Implies(z3.And(0 <= i, i < n), z3.Select(s.term, at(i))), patterns=[at(i)]))
        st.assume(safe_forall([x], z3.Implies(z3.Select(s.term, x), z3.And(0 <= pos(x), pos(x) < n, at(pos(x)) == x)),
                            patterns=[z3.Select(s.term, x)]))
        st.assume(safe_forall([i, j], z3.Implies(z3.And(0 <= i, i < j, j < n), at(i) != at(j)), patterns=[z3.MultiPattern(at(i), at(j))]))
        return q

    def bi_tuple(self, eng, st, args, kw, node):
        if not args:
            yield st, VTuple([])
            return
        a = args[0]
        if isinstance(a, VGen):
            yield st, self.realize_gen(eng, a, st, "list")
            return
        if isinstance(a, (VList, VTuple)):
            yield st, VTuple(list(a.items))
            return
        yield st, a

    def bi_dict(self, eng, st, args, kw, node):
        if not args:
            yield st, VDict(dict(kw))
            return
        raise Untranslatable("dict() with arguments", node)

    def bi_sorted(self, eng, st, args, kw, node):
        raise Untranslatable("sorted() without an override", node)

    def bi_reversed(self, eng, st, args, kw, node):
        a = args[0]
        if isinstance(a, (VList, VTuple)):
            yield st, VList(list(reversed(a.items)))
            return
        raise Untranslatable("reversed of symbolic sequence", node)

    def bi_bin(self, eng, st, args, kw, node):
        a = args[0]
        ok, c = concrete(a)
        if ok and isinstance(c, int):
            yield st, const(bin(c))
            return
        f = z3.Function("int_bin", z3.IntSort(), z3.StringSort())
        yield st, V(STR, f(a.term))

    def bi_int(self, eng, st, args, kw, node):
        a = args[0]
        if isinstance(a, V):
            if a.kind == INT:
                yield st, a
                return
            if a.kind == BOOL:
                yield st, V(INT, z3.If(a.term, 1, 0))
                return
            if a.kind == REAL:
                # truncation toward zero
                t = z3.If(a.term >= 0, z3.ToInt(a.term), -z3.ToInt(-a.term))
                yield st, V(INT, t)
                return
            if a.kind == STR:
                ok, c = concrete(a)
                if ok:
                    try:
                        yield st, const(int(c))
                    except ValueError:
                        eng.raise_exc(st, "ValueError", node)
                    return
                for st1, isn in eng.fork(st, str_is_int(a.term), "int()"):
                    if isn:
                        yield st1, V(INT, str_int(a.term))
                    else:
                        eng.raise_exc(st1, "ValueError", node)
                return
        if isinstance(a, VNone):
            eng.raise_exc(st, "TypeError", node)
            return
        raise Untranslatable(f"int() of {a!r}", node)

    def bi_float(self, eng, st, args, kw, node):
        a = args[0]
        if isinstance(a, V):
            if a.kind == REAL:
                yield st, a
                return
            if a.kind == INT:
                yield st, V(REAL, z3.ToReal(a.term))
                return
            if a.kind == STR:
                for st1, isn in eng.fork(st, str_is_float(a.term), "float()"):
                    if isn:
                        yield st1, V(REAL, str_float(a.term))
                    else:
                        eng.raise_exc(st1, "ValueError", node)
                return
        raise Untranslatable(f"float() of {a!r}", node)

    def bi_str(self, eng, st, args, kw, node):
        if not args:
            yield st, const("")
            return
        a = args[0]
        yield st, eng.to_str(a, st)

    def bi_repr(self, eng, st, args, kw, node):
        yield st, eng.to_str(args[0], st)

    def bi_bool(self, eng, st, args, kw, node):
        yield st, V(BOOL, eng.truth(args[0], st))

    def bi_round(self, eng, st, args, kw, node):
        a = args[0]
        if len(args) > 1:
            # round(x, n): value within 10^-n / 2 of x; keep an abstract real
            r = fresh(REAL, "rounded")
            ok, n = concrete(args[1])
            if ok:
                eps = z3.RealVal(1) / z3.RealVal(2 * 10 ** n)
                ar = z3.ToReal(a.term) if a.kind == INT else a.term
                st.assume(z3.And(r.term >= ar - eps, r.term <= ar + eps))
            yield st, r
            return
        if a.kind == INT:
            yield st, a
            return
        r = fresh(INT, "rounded")
        st.assume(z3.And(z3.ToReal(r.term) >= a.term - z3.RealVal("0.5"), z3.ToReal(r.term) <= a.term + z3.RealVal("0.5")))
        yield st, r

    def bi_abs(self, eng, st, args, kw, node):
        a = args[0]
        yield st, V(a.kind, z3.If(a.term >= 0, a.term, -a.term))

    def bi_isinstance(self, eng, st, args, kw, node):
        a, c = args
        names = [x.name for x in (c.items if isinstance(c, (VTuple, VList)) else [c]) if isinstance(x, VClass)]
        prim = [x for x in (c.items if isinstance(c, (VTuple, VList)) else [c]) if isinstance(x, VFunc)]
        res = False
        if isinstance(a, V) and isinstance(a.kind, Ref):
            res = any(self.is_subclass(eng, a.kind.cls, n) for n in names)
        elif isinstance(a, VExc):
            from .engine import exc_isinstance
            res = any(exc_isinstance(a.cls, n) for n in names)
        elif isinstance(a, V):
            pn = {p.name for p in prim}
            res = (a.kind == STR and "str" in pn) or (a.kind == INT and "int" in pn) or (a.kind == BOOL and ("bool" in pn or "int" in pn)) \
                or (a.kind == REAL and "float" in pn) or (isinstance(a.kind, Seq) and "list" in pn) or (isinstance(a.kind, SetK) and "set" in pn) \
                or (isinstance(a.kind, Map) and "dict" in pn)
        elif isinstance(a, VList):
            res = any(p.name == "list" for p in prim)
        elif isinstance(a, VTuple):
            res = any(p.name == "tuple" for p in prim)
        elif isinstance(a, VDict):
            res = any(p.name == "dict" for p in prim)
        yield st, const(bool(res))

    def is_subclass(self, eng, cls, target):
        seen, todo = set(), [cls]
        while todo:
            c = todo.pop()
            if c == target:
                return True
            if c in seen:
                continue
            seen.add(c)
            todo += eng.schema.get(c, {}).get("bases", [])
            info = eng.index.classes.get(c)
            if info:
                todo += [b.split(".")[-1] for b in info["bases"]]
        return False

    def bi_issubclass(self, eng, st, args, kw, node):
        a, c = args
        if isinstance(a, VClass) and isinstance(c, VClass):
            yield st, const(self.is_subclass(eng, a.name, c.name))
            return
        if isinstance(a, V) and isinstance(a.kind, Ref) and isinstance(c, VClass):
            h = eng.schema_lookup(a.kind.cls, "methods", "__issubclass__")
            if h is not None:
                yield from h(eng, st, a, [c], {}, node)
                return
        raise Untranslatable("issubclass", node)

    def bi_hasattr(self, eng, st, args, kw, node):
        a, n = args
        ok, name = concrete(n)
        if isinstance(a, V) and isinstance(a.kind, Ref) and ok:
            h = eng.schema_lookup(a.kind.cls, "hasattr", name)
            if h is not None:
                yield from h(eng, st, a, node)
                return
            owner, kind = eng.field_kind(a.kind.cls, name)
            yield st, const(kind is not None or eng.index.method(a.kind.cls, name) is not None)
            return
        raise Untranslatable("hasattr", node)

    def bi_print(self, eng, st, args, kw, node):
        yield st, NONE

    def bi_any(self, eng, st, args, kw, node):
        a = args[0]
        if isinstance(a, VGen):
            yield st, self.quantify_gen(eng, a, st, exists=True)
            return
        if isinstance(a, (VList, VTuple)):
            yield st, V(BOOL, z3.Or([eng.truth(x, st) for x in a.items] or [z3.BoolVal(False)]))
            return
        raise Untranslatable("any()", node)

    def bi_all(self, eng, st, args, kw, node):
        a = args[0]
        if isinstance(a, VGen):
            yield st, self.quantify_gen(eng, a, st, exists=False)
            return
        if isinstance(a, (VList, VTuple)):
            yield st, V(BOOL, z3.And([eng.truth(x, st) for x in a.items] or [z3.BoolVal(True)]))
            return
        raise Untranslatable("all()", node)

    def bi_sum(self, eng, st, args, kw, node):
        a = args[0]
        if isinstance(a, VGen):
            a = self.realize_gen(eng, a, st, "list")
        if isinstance(a, (VList, VTuple)):
            acc = args[1] if len(args) > 1 else const(0)
            for x in a.items:
                k, ta, tb = self.num_pair(acc, x)
                acc = V(k, ta + tb)
            yield st, acc
            return
        raise Untranslatable("sum of symbolic sequence", node)

    def bi_next(self, eng, st, args, kw, node):
        a = args[0]
        if isinstance(a, VGen):
            yield from self.next_of_gen(eng, a, args[1] if len(args) > 1 else None, st, node)
            return
        raise Untranslatable("next()", node)

    def bi_iter(self, eng, st, args, kw, node):
        yield st, args[0]

    def bi_range(self, eng, st, args, kw, node):
        if len(args) == 1:
            yield st, VRange(const(0), args[0])
        elif len(args) == 2:
            yield st, VRange(args[0], args[1])
        else:
            raise Untranslatable("range with step", node)

    def bi_enumerate(self, eng, st, args, kw, node):
        yield st, VIter("enumerate", [args[0]])

    def bi_zip(self, eng, st, args, kw, node):
        yield st, VIter("zip", list(args))

    # ------------------------------------------------------------------ spec builtins
    def spec_old(self, eng, e, st):
        if eng.entry_state is None:
            raise SpecError("old() outside a postcondition")
        ent = eng.entry_state
        pre = st.copy()
        pre.heap, pre.pyheap, pre.ghost, pre.alloc = dict(ent.heap), dict(ent.pyheap), dict(ent.ghost), ent.alloc
        pre.local_fields = {k: dict(v) for k, v in ent.local_fields.items()}
        pre.fresh_refs, pre.fresh_terms = ent.fresh_refs, dict(ent.fresh_terms)
        frame = {"__closure__": st.frames[-1]}
        for k, v in ent.frames[-1].items():
            if k != "__closure__":
                frame[k] = v
        # quantifier-bound names of the current frame chain stay visible through the closure link
        for k, v in st.frames[-1].items():
            if k not in ent.frames[-1] and k != "__closure__":
                frame[k] = v
        pre.frames.append(frame)
        v = eng.ev_merged(e.args[0], pre)
        yield st, v

    def _quant(self, eng, e, st, is_forall):
        dom_expr, lam = e.args[0], e.args[1]
        if not isinstance(lam, ast.Lambda):
            raise SpecError("quantifier body must be a lambda")
        doms = list(eng.ev(dom_expr, st)) if not isinstance(dom_expr, (ast.IfExp, ast.BoolOp, ast.Call, ast.Attribute)) else []
        if len(doms) == 1:
            st1, dom = doms[0]
        else:
            st1, dom = st, eng.ev_merged(dom_expr, st)
        names = [a.arg for a in lam.args.args]
        if isinstance(dom, (VList, VTuple)) and not (dom.items and isinstance(dom.items[0], Kind)):
            # finite python-level domain: conjunction / disjunction
            terms = []
            for item in dom.items:
                frame = {"__closure__": st1.frames[-1], names[0]: item}
                st1.frames.append(frame)
                t = eng.ev_merged(lam.body, st1, want_bool=True)
                st1.frames.pop()
                terms.append(t.term)
            yield st1, V(BOOL, (z3.And if is_forall else z3.Or)(terms or [z3.BoolVal(is_forall)]))
            return
        kinds = dom.items if isinstance(dom, (VList, VTuple)) else [dom]
        if all(isinstance(k, Kind) for k in kinds):
            bound = [fresh(k, n) for k, n in zip(kinds, names)]
            guard = z3.BoolVal(True)
        elif isinstance(dom, V) and isinstance(dom.kind, SetK):
            bound = [fresh(dom.kind.elem, names[0])]
            guard = z3.Select(dom.term, bound[0].term)
        elif isinstance(dom, V) and isinstance(dom.kind, Seq):
            # index based encoding: forall j. 0 <= j < len -> body(seq[j])
            j = fresh(INT, "qj")
            frame = {"__closure__": st1.frames[-1], names[0]: V(dom.kind.elem, dom.kind.at(dom.term, j.term))}
            st1.frames.append(frame)
            eng.bound_stack.append((j.term, z3.And(j.term >= 0, j.term < dom.kind.len(dom.term))))
            try:
                body = eng.ev_merged(lam.body, st1, want_bool=True)
            finally:
                eng.bound_stack.pop()
            st1.frames.pop()
            guard = z3.And(j.term >= 0, j.term < dom.kind.len(dom.term))
            if is_forall:
                yield st1, V(BOOL, safe_forall([j.term], z3.Implies(guard, body.term)))
            else:
                yield st1, V(BOOL, z3.Exists([j.term], z3.And(guard, body.term)))
            return
        elif isinstance(dom, V) and isinstance(dom.kind, Map):
            bound = [fresh(dom.kind.key, names[0])]
            guard = z3.Select(dom.kind.dom(dom.term), bound[0].term)
        elif isinstance(dom, VRange):
            bound = [fresh(INT, names[0])]
            guard = z3.And(dom.lo.term <= bound[0].term, bound[0].term < dom.hi.term)
        else:
            raise SpecError(f"unsupported quantifier domain {dom!r}")
        frame = {"__closure__": st1.frames[-1]}
        for n, b in zip(names, bound):
            frame[n] = b
        st1.frames.append(frame)
        for b in bound:
            eng.bound_stack.append((b.term, guard))
        try:
            body = eng.ev_merged(lam.body, st1, want_bool=True)
        finally:
            for b in bound:
                eng.bound_stack.pop()
        st1.frames.pop()
        vars_ = [b.term for b in bound]
        if is_forall:
            yield st1, V(BOOL, safe_forall(vars_, z3.Implies(guard, body.term)))
        else:
            yield st1, V(BOOL, z3.Exists(vars_, z3.And(guard, body.term)))

    def spec_forall(self, eng, e, st):
        yield from self._quant(eng, e, st, True)

    def spec_exists(self, eng, e, st):
        yield from self._quant(eng, e, st, False)

    def spec_implies(self, eng, e, st):
        a = eng.ev_merged(e.args[0], st, want_bool=True)
        b = eng.ev_merged(e.args[1], st, want_bool=True)
        yield st, V(BOOL, z3.Implies(a.term, b.term))

    def spec_iff(self, eng, e, st):
        a = eng.ev_merged(e.args[0], st, want_bool=True)
        b = eng.ev_merged(e.args[1], st, want_bool=True)
        yield st, V(BOOL, a.term == b.term)

    def spec_let(self, eng, e, st):
        """let(value, lambda v: body): evaluate value once and bind it."""
        v = eng.ev_merged(e.args[0], st)
        lam = e.args[1]
        frame = {"__closure__": st.frames[-1], lam.args.args[0].arg: v}
        st.frames.append(frame)
        try:
            r = eng.ev_merged(lam.body, st)
        finally:
            st.frames.pop()
        yield st, r

    def spec_with_field(self, eng, e, st):
        """with_field(obj, "field", value, lambda: expr): value of expr in the state where obj.field := value."""
        obj = eng.ev_merged(e.args[0], st)
        ok, fname = concrete(eng.ev_merged(e.args[1], st))
        val = eng.ev_merged(e.args[2], st)
        lam = e.args[3]
        st2 = st.copy()
        owner, kind = eng.field_kind(obj.kind.cls, fname)
        eng.write_field(st2, obj, owner, fname, kind, val)
        base = len(st2.pc)
        r = eng.ev_merged(lam.body, st2)
        # facts established while evaluating in the updated state are definitional: keep them
        for c in st2.pc[base:]:
            if c.get_id() in st2.facts:
                st.assume(c)
        yield st, r

    def spec_fresh(self, eng, e, st):
        for st1, k in eng.ev(e.args[0], st):
            yield st1, fresh(k, "spec")

    # ------------------------------------------------------------------ with / loops (filled in loops.py mixin)
    def with_stmt(self, eng, s, st):
        from . import loops
        yield from loops.with_stmt(self, eng, s, st)

    def while_loop(self, eng, s, st):
        from . import loops
        yield from loops.while_loop(self, eng, s, st)

    def for_loop(self, eng, s, it, st):
        from . import loops
        yield from loops.for_loop(self, eng, s, it, st)

    def comprehension(self, eng, e, st, how):
        from . import loops
        yield from loops.comprehension(self, eng, e, st, how)

    def realize_gen(self, eng, g, st, how):
        from . import loops
        return loops.realize_gen(self, eng, g, st, how)

    def quantify_gen(self, eng, g, st, exists):
        from . import loops
        return loops.quantify_gen(self, eng, g, st, exists)

    def next_of_gen(self, eng, g, default, st, node):
        from . import loops
        yield from loops.next_of_gen(self, eng, g, default, st, node)
