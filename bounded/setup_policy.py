"""Bounded stand-in for C12: the state operations of avocado_i2n.states.setup (check/get/set/unset/push/pop/show_states)
follow the documented policy table (README "get_mode / set_mode / unset_mode") composed with the root (check_mode)
policy, and a plain store model.  The real functions run against an in-memory StateBackend registered in
setup.BACKENDS (object -> root flag + set of state names) that records every backend call.

Scope (stated bound), one net "net1", vms vm1..vmN with images image1..imageM each (same image names in every vm):
 table cases: op in check/get/set/unset/push/pop x state in {launch, root, 0root, boot, 0boot} x all 25 two-letter
   modes over {a,r,i,f,x} + the default x check_mode in a small list x target object of type nets | nets/vms |
   nets/vms/images (the LAST vm / image, all others are populated distractors) x state present/absent x root
   present/absent x layouts (quick: 1x1 with all states, 2x2 with launch+boot; thorough: 1x1,2x2,1x2,2x1); plus
   variants: skip_types (addressed type / other types), read-only image (or image_readonly globally), mode given with
   an object suffix, and multi-object targets (all images / all vms / every object) with every presence vector
   over {root+state, root only, neither} (quick: up to 4 objects and 10 modes; thorough: up to 7 objects).
 sequences: all sequences of <= 2 (quick) / <= 3 (thorough) steps from a fixed alphabet of check/get/set/unset/push/
   pop steps on one object, from 3 initial stores, for the three object types.

Obligations (oracle written from the README table, not from the code):
 check_table            check_states returns "root exists (after the root policy) and state is a root keyword or stored"
 get_table/set_table/unset_table
                        outcome kind (ok / TestAbortError / TestError) and, when ok, the action calls on each addressed
                        object are exactly: reuse -> get (get_root for a root keyword) for get, nothing for set/unset;
                        ignore -> nothing; force -> set: [unset+]set, unset: unset (the *_root calls for root keywords);
                        abort -> TestAbortError; any other letter -> TestError; correct state name and state object
 push_pop               push == set with mode push_mode (default "af"); pop == get("ra") then unset("fa"); root keywords
                        are skipped without any backend call
 abort_frame            a call that raises made no mutating backend call (set/unset/set_root/unset_root/vm.destroy)
 not_addressed_untouched objects without a state parameter, objects of skip_types and read-only images see no backend
                        call at all (show_states: lists exactly the other objects' states)
 store_model            after every step of a sequence the store equals the set-of-names model (and show_states agrees)
 no_unexpected_exception only TestAbortError / TestError may escape
Modelling choices: unset_root / vm.destroy drop the object with all its states; check_mode first letter only r|f.
"""
import itertools
import json
import logging
import os
import random
import sys
import time

sys.path.insert(0, os.environ.get("VERIF_REPO", "/repo"))

from avocado.core import exceptions  # noqa: E402
from virttest.utils_params import Params  # noqa: E402
from avocado_i2n.states import setup as ss  # noqa: E402

logging.disable(logging.CRITICAL)
ROOTS = ["root", "0root", "boot", "0boot"]          # README / property: reserved root keywords
CHAIN = ["nets", "vms", "images"]
MUTATING = {"set", "unset", "set_root", "unset_root"}
# documented table: (letter -> action if present, letter -> action if missing)
TABLE = {"get": ({"a": "abort", "r": "reuse", "i": "ignore"}, {"a": "abort", "i": "ignore"}),
         "set": ({"a": "abort", "r": "reuse", "f": "force"}, {"a": "abort", "f": "force"}),
         "unset": ({"r": "reuse", "f": "force"}, {"a": "abort", "i": "ignore"})}
DEFAULT_MODE = {"get": "ra", "set": "ff", "unset": "fi", "push": "af", "check": "rf"}


class Store:
    roots, states, calls = set(), {}, []

    @classmethod
    def reset(cls, content):
        """content: key -> [root, [states]]"""
        cls.roots = {k for k, (r, _) in content.items() if r}
        cls.states = {k: set(s) for k, (_, s) in content.items()}
        cls.calls = []

    @classmethod
    def snapshot(cls):
        return {k: [k in cls.roots, sorted(s)] for k, s in cls.states.items()}


class FakeVM:
    def __init__(self, name):
        self.name = name

    def destroy(self, gracefully=True):
        key = "net1/" + self.name
        Store.calls.append(("unset_root", key, None))       # a destroyed vm == removed vm root
        Store.roots.discard(key)
        Store.states.setdefault(key, set()).clear()


class FakeEnv:
    def __init__(self):
        self.vms = {}

    def get_vm(self, name):
        return self.vms.setdefault(name, FakeVM(name))


ENV = FakeEnv()


class DictBackend(ss.StateBackend):
    """In-memory backend; the object is identified by the restricted nets/vms/images parameters."""

    @staticmethod
    def _key(params, obj, what):
        depth = CHAIN.index(params["object_type"].split("/")[-1])
        key = "/".join(params[c] for c in CHAIN[:depth + 1])
        good = obj is ENV if depth == 0 else (isinstance(obj, FakeVM) and obj.name == params["vms"])
        Store.calls.append((what if good else what + "!wrong-object", key,
                            params.get(what + "_state") if what in ("get", "set", "unset") else None))
        Store.states.setdefault(key, set())
        return key

    @classmethod
    def show(cls, params, object=None):
        return sorted(Store.states[cls._key(params, object, "show")])

    @classmethod
    def get(cls, params, object=None):
        cls._key(params, object, "get")

    @classmethod
    def set(cls, params, object=None):
        Store.states[cls._key(params, object, "set")].add(params["set_state"])

    @classmethod
    def unset(cls, params, object=None):
        Store.states[cls._key(params, object, "unset")].discard(params["unset_state"])

    @classmethod
    def check_root(cls, params, object=None):
        return cls._key(params, object, "check_root") in Store.roots

    @classmethod
    def get_root(cls, params, object=None):
        cls._key(params, object, "get_root")

    @classmethod
    def set_root(cls, params, object=None):
        Store.roots.add(cls._key(params, object, "set_root"))

    @classmethod
    def unset_root(cls, params, object=None):
        key = cls._key(params, object, "unset_root")
        Store.roots.discard(key)
        Store.states[key].clear()


# ---------------------------------------------------------------- oracle (from the documented table)
def root_step(obj, cm):
    """Root policy on obj=(root, frozenset(states)): -> (kind, mutating calls, obj')."""
    root, states = obj
    if not root:
        if cm[1] == "f":
            return "ok", [("set_root", None)], (True, states)
        return ("ok", [], obj) if cm[1] == "r" else ("error", [], obj)
    if cm[0] == "f":
        return "ok", [("unset_root", None), ("set_root", None)], (True, frozenset())
    return "ok", [], obj


def op_step(op, state, mode, cm, obj):
    """-> dict(kinds=set of allowed outcome kinds, calls=expected action calls, obj=store after, root_muts, value)."""
    if op in ("push", "pop") and state in ROOTS:
        return dict(kinds={"ok"}, calls=[], obj=obj, root_muts=[], value=None, untouched=True)
    if op == "push":
        return op_step("set", state, mode or DEFAULT_MODE["push"], cm, obj)
    if op == "pop":
        first = op_step("get", state, "ra", cm, obj)
        if first["kinds"] != {"ok"}:
            return first
        second = op_step("unset", state, "fa", cm, first["obj"])
        second["root_muts"] = first["calls"] + second["root_muts"]
        if second["kinds"] == {"ok"}:
            second["calls"] = first["calls"] + second["calls"]
        return second
    kind, muts, (root, states) = root_step(obj, cm)
    res = dict(kinds={kind}, calls=[], obj=obj, root_muts=muts, value=None)
    if kind != "ok":
        return res
    isroot = state in ROOTS
    present = root and (isroot or state in states)
    if op == "check":
        res.update(calls=muts, obj=(root, states), value=present)
        return res
    mode = mode or DEFAULT_MODE[op]
    action = TABLE[op][0 if present else 1].get(mode[0] if present else mode[1])
    if action is None or action == "abort":
        res["kinds"] = {"abort" if action else "error"}
        return res
    calls = []
    if (op, action) == ("get", "reuse"):
        calls = [("get_root", None)] if isroot else [("get", state)]
    elif (op, action) == ("set", "force"):
        if isroot:
            calls = ([("unset_root", None)] if present else []) + [("set_root", None)]
            root, states = True, (frozenset() if present else states)
        elif not root:                       # nothing to save the state on: must raise without alteration
            res["kinds"] = {"error", "abort"}
            return res
        else:
            calls = ([("unset", state)] if present else []) + [("set", state)]
            states = states | {state}
    elif (op, action) == ("unset", "force"):
        if isroot:
            calls, root, states = [("unset_root", None)], False, frozenset()
        else:
            calls, states = [("unset", state)], states - {state}
    res.update(calls=muts + calls, obj=(root, states))
    return res


# ---------------------------------------------------------------- case construction / execution
def layout_objects(nvms, nimgs):
    """All objects (key, type) in the documented hierarchy; images of a vm, then the vm, ..., finally the net."""
    out = []
    for v in range(1, nvms + 1):
        out += [(f"net1/vm{v}/image{i}", "nets/vms/images") for i in range(1, nimgs + 1)]
        out.append((f"net1/vm{v}", "nets/vms"))
    return out + [("net1", "nets")]


def suffix_of(key):
    parts = key.split("/")
    return "_nets" if len(parts) == 1 else f"_vms_{parts[1]}" if len(parts) == 2 else f"_images_{parts[2]}_{parts[1]}"


def targets_of(target, nvms, nimgs):
    objs = layout_objects(nvms, nimgs)
    if target.startswith("all"):
        typ = {"all-images": "nets/vms/images", "all-vms": "nets/vms", "all": None}[target]
        return [k for k, t in objs if typ in (None, t)], {"all-images": "_images", "all-vms": "_vms", "all": ""}[target]
    key = {"nets": "net1", "vms": f"net1/vm{nvms}", "images": f"net1/vm{nvms}/image{nimgs}"}[target]
    return [key], suffix_of(key)


def build_params(inp, op, state, mode):
    p = Params()
    p["nets"] = "net1"
    p["vms"] = " ".join(f"vm{v}" for v in range(1, inp["nvms"] + 1))
    for v in range(1, inp["nvms"] + 1):
        p[f"images_vm{v}"] = " ".join(f"image{i}" for i in range(1, inp["nimgs"] + 1))
    p["states_chain"] = "nets vms images"
    p["states_nets"] = p["states_vms"] = p["states_images"] = "dict"
    _, sfx = targets_of(inp["target"], inp["nvms"], inp["nimgs"])
    msfx = sfx if inp.get("mode_style") == "suffix" else ""
    if state is not None:
        p[f"{op}_state{sfx}"] = state
    if mode is not None:
        p[f"{op}_mode{msfx}"] = mode
    if inp.get("check_mode") is not None:
        p[f"check_mode{msfx}"] = inp["check_mode"]
    if inp.get("skip_types"):
        p["skip_types"] = inp["skip_types"]
    if inp.get("readonly") == "target":
        p["image_readonly" + sfx.replace("_images", "", 1)] = "yes"
    elif inp.get("readonly") == "global":
        p["image_readonly"] = "yes"
    return p


def call_real(op, params):
    """-> (kind, value, detail)"""
    try:
        return "ok", getattr(ss, f"{op}_states")(params, ENV), None
    except exceptions.TestAbortError as e:
        return "abort", None, str(e)[:80]
    except exceptions.TestError as e:
        return "error", None, str(e)[:80]
    except Exception as e:  # noqa
        return "crash", None, f"{type(e).__name__}: {e}"[:160]


def norm(calls):
    """Action calls compared with the table: drop observations (check_root/show) and the no-op get_root."""
    return [[c[0], c[2]] for c in calls if c[0].split("!")[0] not in ("check_root", "show", "get_root") or "!" in c[0]]


def initial_store(inp, addressed):
    objs = layout_objects(inp["nvms"], inp["nimgs"])
    content = {k: [True, [inp["state"], "other"] if inp["state"] not in ROOTS else ["other"]] for k, _ in objs}
    for k in addressed:
        root, has = inp["present"][k]
        content[k] = [bool(root), (["keep"] if root else []) + ([inp["state"]] if has and inp["state"] not in ROOTS else [])]
    return content


def effective(inp, addressed):
    skip = (inp.get("skip_types") or "").split()
    types = dict(layout_objects(inp["nvms"], inp["nimgs"]))
    out = [k for k in addressed if types[k] not in skip]
    if inp.get("readonly"):
        out = [k for k in out if types[k] != "nets/vms/images"]
    return sorted(out, key=[k for k, _ in layout_objects(inp["nvms"], inp["nimgs"])].index)


def run_table(inp):
    """One call of one operation; returns (failures, nontrivial)."""
    op, state, mode = inp["op"], inp["state"], inp.get("mode")
    addressed, _ = targets_of(inp["target"], inp["nvms"], inp["nimgs"])
    before = initial_store(inp, addressed)
    Store.reset(before)
    kind, value, detail = call_real(op, build_params(inp, op, state, mode))
    after, calls = Store.snapshot(), Store.calls
    acting = effective(inp, addressed)
    cm = inp.get("check_mode") or DEFAULT_MODE["check"]
    exp = {k: op_step(op, state, mode, cm, (before[k][0], frozenset(before[k][1]))) for k in acting}
    raising = [k for k in acting if exp[k]["kinds"] != {"ok"}]
    kinds = set().union(*[exp[k]["kinds"] for k in raising]) if raising else {"ok"}
    ob = "push_pop" if op in ("push", "pop") else f"{op}_table"
    fails = []

    def fail(obligation, observed, expected, cls=None):
        f = {"obligation": obligation, "input": inp, "observed": observed, "expected": expected}
        if cls:
            f["class"] = cls
        fails.append(f)

    if kind == "crash":
        fail("no_unexpected_exception", detail, sorted(kinds), "crash-" + detail.split(":")[0])
        return fails, True
    touched = sorted({c[1] for c in calls if c[1] not in acting
                      or exp[c[1]].get("untouched")})
    if touched:
        fail("not_addressed_untouched", [list(c) for c in calls if c[1] in touched][:6], "no backend call on " + str(touched),
             ("skipped-or-readonly-touched" if set(touched) & set(addressed) else "foreign-object-touched") + f"-by-{op}")
    if kind not in kinds and touched and set(touched) & set(addressed):
        pass                                 # consequence of acting on a skipped / read-only object (reported above)
    elif kind not in kinds:
        fail(ob, [kind, detail], sorted(kinds), f"outcome-{kind}-instead-of-{'|'.join(sorted(kinds))}")
    elif kind != "ok":
        muts = [c for c in calls if c[0].split("!")[0] in MUTATING]
        if muts or after != before:
            first = raising[0]
            seq = [[m, first, s] for m, s in exp[first]["root_muts"] if m in MUTATING]
            for k in acting[:acting.index(first)]:
                seq = [[m, k, s] for m, s in exp[k]["calls"] if m in MUTATING] + seq
            cls = "unexplained-alteration-before-abort"
            if sorted(map(list, muts), key=str) == sorted(seq, key=str):
                rm = [m for m, _ in exp[first]["root_muts"] if m in MUTATING]
                cls = ("earlier-object-altered-before-abort" if len(seq) > len(rm) else
                       "root-recreated-before-abort" if "unset_root" in rm else "root-created-before-abort")
            fail("abort_frame", [list(m) for m in muts][:8], "no mutating backend call before raising " + kind, cls)
    else:
        for k in acting:
            mine = [c for c in calls if c[1] == k]
            want = [[m, s] for m, s in exp[k]["calls"] if m != "get_root"]
            if norm(mine) != want or (("get_root", None) in exp[k]["calls"] and not any(c[0] == "get_root" for c in mine)):
                fail(ob, {k: norm(mine)}, {k: [list(c) for c in exp[k]["calls"]]}, f"wrong-calls-{op}")
                break
            if after[k] != [exp[k]["obj"][0], sorted(exp[k]["obj"][1])]:
                fail(ob, {k: after[k]}, {k: [exp[k]["obj"][0], sorted(exp[k]["obj"][1])]}, f"wrong-store-{op}")
                break
            if op == "check" and not exp[k]["value"]:
                break                        # a missing state may end the check early: later objects unconstrained
        if op == "check" and bool(value) != all(exp[k]["value"] for k in acting):
            fail(ob, value, all(exp[k]["value"] for k in acting), "wrong-check-result")
    return fails, bool(raising) or any(exp[k]["calls"] or exp[k]["value"] for k in acting)


def run_show(inp):
    addressed, _ = targets_of("all", inp["nvms"], inp["nimgs"])
    inp = dict(inp, target="all", state="launch", present={k: [True, i % 2 == 0] for i, k in enumerate(addressed)})
    Store.reset(initial_store(inp, addressed))
    kind, value, detail = call_real("show", build_params(inp, "show", None, None))
    acting = effective(inp, addressed)
    want = sorted(s for k in acting for s in Store.states[k])
    fails = []
    if kind != "ok":
        fails.append({"obligation": "no_unexpected_exception", "input": inp, "observed": [kind, detail], "expected": want})
    elif sorted(value) != want or any(c[1] not in acting for c in Store.calls):
        fails.append({"obligation": "not_addressed_untouched", "input": inp, "observed": sorted(value), "expected": want,
                      "class": "show-lists-wrong-objects"})
    return fails, True


STEPS = [("check", "s1", None), ("check", "root", None), ("get", "s1", None), ("get", "s1", "ri"), ("get", "s1", "ii"),
         ("get", "boot", None), ("set", "s1", None), ("set", "s1", "af"), ("set", "s1", "rf"), ("set", "s1", "ra"),
         ("set", "s2", "ff"), ("set", "root", "ff"), ("set", "0root", "af"), ("unset", "s1", None), ("unset", "s1", "fa"),
         ("unset", "s1", "ri"), ("unset", "s2", "fi"), ("unset", "root", "fi"), ("push", "s1", None), ("push", "s1", "ff"),
         ("push", "root", None), ("pop", "s1", None), ("pop", "s2", None), ("pop", "0boot", None)]
INITS = [[False, []], [True, []], [True, ["s1"]]]


def run_seq(inp):
    """A sequence of steps on one object against the set-of-names model."""
    key = targets_of(inp["target"], 1, 1)[0][0]
    base = dict(nvms=1, nimgs=1, target=inp["target"], check_mode=inp.get("check_mode"))
    content = {k: [True, ["s1", "other"]] for k, _ in layout_objects(1, 1)}
    content[key] = [inp["init"][0], list(inp["init"][1])]
    Store.reset(content)
    cm = inp.get("check_mode") or DEFAULT_MODE["check"]
    fails, nontrivial = [], False
    for n, (op, state, mode) in enumerate(inp["steps"]):
        before = Store.snapshot()
        model = op_step(op, state, mode, cm, (before[key][0], frozenset(before[key][1])))
        Store.calls = []
        kind, value, detail = call_real(op, build_params(base, op, state, mode))
        after = Store.snapshot()
        nontrivial = nontrivial or bool(model["calls"]) or model["kinds"] != {"ok"}
        f = None
        if kind == "crash":
            f = ("no_unexpected_exception", detail, sorted(model["kinds"]), "crash-in-sequence")
        elif kind not in model["kinds"]:
            f = ("store_model", [kind, detail], sorted(model["kinds"]), "sequence-outcome")
        elif kind != "ok" and after != before:
            rm = [m for m, _ in model["root_muts"]]
            got = [c[0] for c in Store.calls if c[0] in MUTATING]
            cls = "unexplained-alteration-before-abort" if got != rm or any(c[1] != key for c in Store.calls) else \
                "root-recreated-before-abort" if "unset_root" in rm else "root-created-before-abort"
            f = ("abort_frame", after[key], before[key], cls)
        elif kind == "ok":
            want = dict(before)
            want[key] = [model["obj"][0], sorted(model["obj"][1])]
            if after != want:
                f = ("store_model", after, want, f"store-differs-after-{op}")
            elif op == "check" and bool(value) != model["value"]:
                f = ("store_model", value, model["value"], "check-disagrees-with-store")
        if f:
            fails.append({"obligation": f[0], "input": dict(inp, steps=inp["steps"][:n + 1]), "observed": f[1],
                          "expected": f[2], "class": f[3]})
            if f[0] != "abort_frame":
                break
    return fails, nontrivial


def run_case(inp):
    return {"table": run_table, "show": run_show, "seq": run_seq}[inp["kind"]](inp)


# ---------------------------------------------------------------- enumeration
def modes_all():
    return [None] + ["".join(m) for m in itertools.product("arifx", repeat=2)]


def table_cases(tier):
    thorough = tier != "quick"
    states = ["launch"] + ROOTS
    cms = [None, "rr", "ff"] + (["rf", "fr", "rx"] if thorough else [])
    layouts = [(1, 1), (2, 2)] + ([(1, 2), (2, 1)] if thorough else [])
    pres = [[True, True], [True, False], [False, False], [False, True]]
    for (nv, ni), target, op in itertools.product(layouts, ["images", "vms", "nets"], ["check", "get", "set", "unset", "push", "pop"]):
        key = targets_of(target, nv, ni)[0][0]
        for state, cm, pr in itertools.product(states if thorough or (nv, ni) == (1, 1) else ["launch", "boot"], cms, pres):
            base = dict(kind="table", op=op, state=state, check_mode=cm, nvms=nv, nimgs=ni, target=target, present={key: pr})
            for mode in (modes_all() if op in ("get", "set", "unset", "push") else [None]):
                yield dict(base, mode=mode)
            if not pr[0] and pr[1]:
                continue
            few = [None, "ff", "ra", "fa", "xx"] if op != "pop" and op != "check" else [None]
            types = [t for _, t in layout_objects(nv, ni)]
            mine = types[[k for k, _ in layout_objects(nv, ni)].index(key)]
            others = " ".join(sorted({t for t in types if t != mine}))
            for mode in few:
                yield dict(base, mode=mode, skip_types=mine)
                yield dict(base, mode=mode, skip_types=others)
                yield dict(base, mode=mode, readonly="target" if target == "images" else "global")
                if thorough or mode in (None, "ff"):
                    yield dict(base, mode=mode, mode_style="suffix")
    # multi-object targets: every presence vector, roots present (and one absent-root variant)
    multi = [((2, 1), "all-vms"), ((1, 2), "all-images"), ((2, 2), "all-images"), ((1, 1), "all")]
    for (nv, ni), target in multi + ([((2, 1), "all"), ((2, 2), "all")] if thorough else []):
        keys = targets_of(target, nv, ni)[0]
        vectors = list(itertools.product([[True, True], [True, False], [False, False]], repeat=len(keys)))
        for op, state, cm in itertools.product(["check", "get", "set", "unset", "push", "pop"], ["launch", "boot"], [None, "rr"]):
            ms = modes_all() if thorough and len(keys) < 7 else [None, "ff", "fa", "af", "ra", "ri", "ii", "fi", "rx", "aa"]
            for vec, mode in itertools.product(vectors, ms if op in ("get", "set", "unset", "push") else [None]):
                yield dict(kind="table", op=op, state=state, mode=mode, check_mode=cm, nvms=nv, nimgs=ni, target=target,
                           present=dict(zip(keys, vec)), **({"skip_types": "nets"} if target == "all" and vec[0][1] else {}))
    for (nv, ni), skip, ro in itertools.product(layouts, [None, "nets", "nets/vms", "nets/vms/images", "nets nets/vms"], [None, "global"]):
        yield dict(kind="show", nvms=nv, nimgs=ni, skip_types=skip, readonly=ro)


def seq_cases(tier):
    depth = 2 if tier == "quick" else 3
    for target, cm, init in itertools.product(["images", "vms", "nets"], [None, "rr"], INITS):
        for n in range(1, depth + 1):
            for steps in itertools.product(STEPS, repeat=n):
                yield dict(kind="seq", target=target, check_mode=cm, init=init, steps=[list(s) for s in steps])


def main():
    saved = dict(ss.BACKENDS)
    ss.BACKENDS["dict"] = DictBackend
    try:
        if "--replay" in sys.argv:
            inp = json.loads(sys.argv[sys.argv.index("--replay") + 1])
            fails, _ = run_case(inp)
            print(json.dumps({"ok": not fails, "failures": fails}, indent=1, default=str))
            return 1 if fails else 0
        tier = os.environ.get("VERIF_TIER", "quick")
        random.seed(int(os.environ.get("VERIF_SEED", "0") or 0))     # the enumeration itself is deterministic
        budgets = (80, 30) if tier == "quick" else (800, 350)      # seconds: table cases, sequences
        cases, nontrivial, exhaustive = 0, set(), True
        per_ob, classes, kept, samples = {}, {}, {}, []

        def within(gen, seconds):
            nonlocal exhaustive
            t0 = time.time()
            for x in gen:
                if time.time() - t0 > seconds:
                    exhaustive = False
                    return
                yield x

        for inp in itertools.chain(within(table_cases(tier), budgets[0]), within(seq_cases(tier), budgets[1])):
            fails, nt = run_case(inp)
            cases += 1
            if cases % 9973 == 1 and len(samples) < 6:
                samples.append(inp)
            if nt:
                nontrivial.add(json.dumps(inp, sort_keys=True))
            op = inp.get("op")
            for ob in ({"table": [f"{op}_table" if op not in ("push", "pop") else "push_pop", "abort_frame",
                                  "not_addressed_untouched"], "show": ["not_addressed_untouched"],
                        "seq": ["store_model", "abort_frame"]}[inp["kind"]] + ["no_unexpected_exception"]):
                per_ob[ob] = per_ob.get(ob, 0) + 1
            for f in fails:
                ck = (f["obligation"], f.get("class", ""))
                classes[ck] = classes.get(ck, 0) + 1
                kept.setdefault(ck, [])
                if len(kept[ck]) < 2:
                    kept[ck].append(f)
        # at most 10 failures, every (obligation, class) represented before any class gets a second one
        order = sorted(kept, key=lambda ck: classes[ck])
        failures = [kept[ck][i] for i in (0, 1) for ck in order if len(kept[ck]) > i][:10]
        res = {"name": "setup_policy", "obligations": per_ob, "cases": cases, "distinct_nontrivial": len(nontrivial),
               "rule": "non-trivial = the oracle expects at least one backend action call or an exception for an addressed object "
                       "(sequences: in at least one step); distinct by full input",
               "bound": f"tier={tier}: 1 net x <=2 vms x <=2 images, states launch+4 root keywords, 25 modes+default, check_mode "
                        f"{'default/rr/ff/rf/fr/rx' if tier != 'quick' else 'default/rr/ff'}, present x root x 3 object types, skip_types/"
                        f"readonly/suffix variants, all 3^n presence vectors of multi-object targets (all vms 2x1, all images 1x2 and 2x2, every object 1x1"
                        f"{'' if tier == 'quick' else ', 2x1 and 2x2 (2x2: 10 modes)'}; quick: 10 modes), "
                        f"sequences of <= {2 if tier == 'quick' else 3} of {len(STEPS)} steps x 3 inits x 3 types x 2 check modes",
               "exhaustive": exhaustive, "samples": samples, "failures": failures,
               "failure_classes": {f"{o}:{c}": n for (o, c), n in sorted(classes.items())}}
        print("BOUNDED-RESULT " + json.dumps(res, default=str))
        return 0
    finally:
        ss.BACKENDS.clear()
        ss.BACKENDS.update(saved)


if __name__ == "__main__":
    sys.exit(main())
