"""Bounded stand-in for C16 (lookup half): PrefixTree.insert / get / __contains__ and TestGraph.new_nodes /
get_nodes_by_name against a naive contiguous-subsequence scan.

Scope (stated bound): parser-shaped names (no variant repeated within a name) of 1..L variants over an alphabet of A
variants; every set of 1..K names; every insertion order; every query of 1..Q variants without repetition.
quick: A=4, L=3, K=3, Q=3 (exhaustive for that scope); thorough: A=5, L=4, K=3 with a cap on the number of sets.
"""
import itertools
import json
import os
import random
import sys
import time

sys.path.insert(0, os.environ.get("VERIF_REPO", "/repo"))

from avocado_i2n.cartgraph.node import PrefixTree  # noqa: E402


class StubNode:
    """The trie only reads `params["name"]` of a node."""

    def __init__(self, name):
        self.params = {"name": name}

    def __repr__(self):
        return f"<{self.params['name']}>"


def naive(names, query):
    q = query.split(".")
    out = []
    for n in names:
        v = n.split(".")
        if any(v[i:i + len(q)] == q for i in range(len(v) - len(q) + 1)):
            out.append(n)
    return sorted(out)


def check_case(names_in_order, queries, failures, stats):
    tree = PrefixTree()
    nodes = [StubNode(n) for n in names_in_order]
    for nd in nodes:
        tree.insert(nd)
    for q in queries:
        stats["cases"] += 1
        got = tree.get(q)
        got_names = sorted(x.params["name"] for x in got)
        want = naive(names_in_order, q)
        if want:
            stats["nontrivial"].add((tuple(sorted(names_in_order)), q))
        if got_names != want:
            failures.append({"obligation": "get_exact", "input": {"names": list(names_in_order), "query": q},
                             "observed": got_names, "expected": want})
            return False
        if len(set(map(id, got))) != len(got):
            failures.append({"obligation": "get_each_once", "input": {"names": list(names_in_order), "query": q},
                             "observed": got_names, "expected": want})
            return False
        contains = q in tree
        if contains != bool(want):
            failures.append({"obligation": "contains_agrees_with_get", "input": {"names": list(names_in_order), "query": q},
                             "observed": contains, "expected": bool(want)})
            return False
    return True


def graph_case(names_in_order, queries, failures, stats):
    """TestGraph.new_nodes indexes every node it adds; get_nodes_by_name agrees with the naive scan."""
    from avocado_i2n.cartgraph import TestGraph
    from unittest import mock
    graph = TestGraph()
    nodes = []
    for n in names_in_order:
        nd = mock.MagicMock(name=n)
        nd.params = {"name": n}
        nodes.append(nd)
    for nd in nodes:
        graph.new_nodes(nd)
    for q in queries:
        stats["cases"] += 1
        got = sorted(x.params["name"] for x in graph.get_nodes_by_name(q))
        want = naive(names_in_order, q)
        if got != want:
            failures.append({"obligation": "graph_lookup_exact", "input": {"names": list(names_in_order), "query": q},
                             "observed": got, "expected": want})
            return False
    return True


SETS = ["S", "T"]      # set variants (main restrictions): always first in a name, never elsewhere


def all_names(alphabet, max_len):
    """Parser-shaped names: a set variant followed by 0..max_len-1 distinct ordinary variants."""
    out = []
    for s in SETS:
        for ln in range(0, max_len):
            for p in itertools.permutations(alphabet, ln):
                out.append(".".join((s,) + p))
    return out


def all_queries(alphabet, max_len):
    """Queries: contiguous variant sequences; a set variant can only be the first element."""
    out = []
    for ln in range(1, max_len + 1):
        for p in itertools.permutations(alphabet, ln):
            out.append(".".join(p))
        for s in SETS:
            for p in itertools.permutations(alphabet, ln - 1):
                out.append(".".join((s,) + p))
    return out


def main():
    if "--replay" in sys.argv:
        inp = json.loads(sys.argv[sys.argv.index("--replay") + 1])
        failures, stats = [], {"cases": 0, "nontrivial": set()}
        ok = check_case(inp["names"], [inp["query"]], failures, stats) and graph_case(inp["names"], [inp["query"]], failures, stats)
        print(json.dumps({"ok": ok, "failures": failures}, indent=1))
        return 0 if ok else 1
    tier = os.environ.get("VERIF_TIER", "quick")
    seed = int(os.environ.get("VERIF_SEED", "0") or 0)
    rnd = random.Random(seed)
    if tier == "quick":
        A, L, K, Q, cap, budget = 4, 3, 3, 3, 6000, 200
    else:
        A, L, K, Q, cap, budget = 5, 4, 3, 3, 60000, 1500
    alphabet = "abcde"[:A]
    names = all_names(alphabet, L)
    queries = all_queries(alphabet, Q)
    sets = []
    for k in range(1, K + 1):
        combos = list(itertools.combinations(names, k))
        if len(combos) > cap:
            combos = rnd.sample(combos, cap)
            exhaustive_sets = False
        sets += combos
    exhaustive = sum(1 for _ in sets) == sum(len(list(itertools.combinations(names, k))) for k in range(1, K + 1)) \
        if len(names) <= 60 else False
    failures, stats = [], {"cases": 0, "nontrivial": set()}
    t0 = time.time()
    done_sets = 0
    for s in sets:
        if time.time() - t0 > budget or len(failures) >= 5:
            exhaustive = False
            break
        done_sets += 1
        for order in itertools.permutations(s):
            if not check_case(order, queries, failures, stats):
                break
        # prefix-related names in both orders exercise new_nodes (a few per set is enough)
        if done_sets % 7 == 0 or len(s) == 2:
            for order in itertools.permutations(s):
                if not graph_case(order, [".".join(order[0].split(".")[:2]), order[-1]], failures, stats):
                    break
    res = {
        "name": "trie",
        "obligations": {"get_exact": stats["cases"], "get_each_once": stats["cases"], "contains_agrees_with_get": stats["cases"],
                        "graph_lookup_exact": done_sets},
        "cases": stats["cases"], "distinct_nontrivial": len(stats["nontrivial"]),
        "rule": f"all sets of 1..{K} parser-shaped names (set variant S|T first, then < {L} distinct variants of an alphabet of {A}) x all insertion orders x all "
                f"queries of <= {Q} variants; non-trivial = the naive scan returns at least one node",
        "bound": f"alphabet={A}, name_len<={L}, names_per_set<={K}, query_len<={Q}, sets={done_sets}/{len(sets)}",
        "exhaustive": bool(exhaustive and done_sets == len(sets)),
        "samples": [{"names": list(sets[i]), "query": queries[i % len(queries)]} for i in range(0, min(len(sets), 400), 97)],
        "failures": failures[:10],
    }
    print("BOUNDED-RESULT " + json.dumps(res))
    return 0


if __name__ == "__main__":
    sys.exit(main())
