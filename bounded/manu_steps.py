"""Bounded stand-in for C20: manual steps act once per selected vm and worker, in the given order.

Drives the REAL `Manu.run` (plugins/manu.py) -> `cmd_parser.params_from_cmd` -> step functions of `intertest_setup`
(with_cartesian_graph, _parse_and_iterate_for_objects_and_workers, _parse_one_node_for_all_objects_per_worker,
_reuse_tool_with_param_dict) -> real graph parsing and worker traversal, with the infrastructure faked the way
selftests/isolation/test_intertest_setup.py does it (new_job, remote door, login, worker start, spawner, run_test_task).
Every step function of the module is wrapped by a recorder, so the calls made by Manu.run and the test runs made by the
fake runner end up in one ordered event log that is compared with an oracle written from the property statement.

Obligations
  chain_order_and_retcode  every step of `setup=<s0>,<s1>,..` is called exactly once, in list order, with tag 0m<i>, the
                           same config object and the selected vms; a step that returns non-None/non-0, raises, or (real
                           step) has a failing test run never prevents later steps; return code is 1 iff some step
                           failed; an invalid command line gives return code 1 before any step is called.
  repeated_steps_each_called  a step named k times in the chain is called k times (own id: chain_order_and_retcode
                           stays checkable on such chains; FAILS on the pinned tree, Params.objects() drops duplicates).
  reusing_step_failure_reported  the same return code clause for collect/create/clean, which reuse get/set/unset (own id;
                           FAILS on the pinned tree: _reuse_tool_with_param_dict drops the reused tool's return code).
  once_per_vm_and_worker   per state step (check/get/set/unset/push/pop/collect/create/clean), on every worker every
                           selected vm that is compatible with that worker (oracle table transcribed from
                           tp_folder/configs/nets.cfg) is covered by exactly one test run and nothing else is run
                           (unselected or incompatible vms: zero runs); every run has vms=<that vm> and carries the step's
                           parameters (vm_action, skip_image_processing, the user's command line parameter, unset's
                           default/overridden unset_mode, root state of collect/create/clean) and no parameter leaked from
                           an earlier step of the chain; runs of step i happen between the call of step i and the call of
                           step i+1 and are named with tag 0m<i>.
  multi_vm_once_per_vm_and_worker  the same coverage clause, read literally, for the one-node-for-all-vms steps boot and
                           shutdown (FAILS on the pinned tree when only some of the selected vms fit a worker).
  no_unexpected_exception  Manu.run itself never raises.

Scope (stated bound)
  quick:    chains: all sequences of 1..3 steps over 6 fake steps (None, 0, 1, -1, raise RuntimeError, raise ValueError)
            + the real noop, plus a fixed list of chains mixing real steps (passing and failing) with fakes, plus 7 invalid
            command lines; steps: {check,get,set,unset,push,pop} x 7 non-empty subsets of {vm1,vm2,vm3} x worker sets
            {net5,net1} (and {net1} for single vms, alternative vm variants on {net5}); boot/shutdown on the same worker sets.
  thorough: fake alphabet of 9 (adds 2, "error", raise EmptyCartesianProduct), more mixed chains; steps additionally
            collect, create, clean, boot, shutdown; selections additionally "no vms parameter"; worker sets: all singles
            and pairs of {net1,net2,net5} + 2 reversed pairs; 3 vm variant assignments. Cases run in VERIF_JOBS
            (default min(8, cpus)) forked processes; a wall-clock budget (VERIF_BUDGET seconds, default 100 / 1000) cuts
            the enumeration (then exhaustive=false and the bound states how many cases ran).
"""
import collections
import contextlib
import itertools
import json
import logging
import multiprocessing
import os
import random
import shutil
import sys
import tempfile
import time
import warnings

warnings.filterwarnings("ignore")
sys.path.insert(0, os.environ.get("VERIF_REPO", "/repo"))
_real_stdout = sys.stdout
sys.stdout = sys.stderr                     # nothing but our own lines may reach stdout

import asyncio  # noqa: E402
from unittest import mock  # noqa: E402
from avocado_i2n import intertest_setup as intertest  # noqa: E402
from avocado_i2n import params_parser as param  # noqa: E402
from avocado_i2n.plugins.manu import Manu  # noqa: E402
from avocado_i2n.plugins.runner import TestRunner  # noqa: E402

logging.disable(logging.CRITICAL)

VMS = ["vm1", "vm2", "vm3"]
DEFAULT_VARIANT = {"vm1": "CentOS", "vm2": "Win10", "vm3": "Ubuntu"}       # objects-overwrite.cfg default_only_<vm>
ALT_VARIANT = {"vm1": "Fedora", "vm2": "Win7", "vm3": "Kali"}
PER_VM_STEPS = ["check", "get", "set", "unset", "push", "pop", "collect", "create", "clean"]
MULTI_VM_STEPS = ["boot", "shutdown"]
ACTION = {"collect": "get", "create": "set", "clean": "unset"}              # vm_action of the reusing tools
FAKES = {"fk_none": None, "fk_zero": 0, "fk_one": 1, "fk_neg": -1, "fk_two": 2, "fk_str": "error",
         "fk_raise_rt": RuntimeError, "fk_raise_val": ValueError, "fk_raise_ecp": param.EmptyCartesianProduct}
COVER = {False: "once_per_vm_and_worker", True: "multi_vm_once_per_vm_and_worker"}
FAKE_FAILS = {k: v not in (None, 0) for k, v in FAKES.items()}
INVALID = [["ccc"], ["vms=vmX"], ["vms=vm1,vm9"], ["only_vm7=CentOS"], ["only_nets=net1", "nets=net2"],
           ["only=nonexistent_variant"], ["default_only=bogus"]]


def compatible(net, vm, variant):
    """Oracle transcribed from nets.cfg: net3: only_vm1=CentOS,Fedora no_vm2=WinXP,Win8; net5: only_vm1=Fedora no_vm2=Win7."""
    if net == "net3":
        return variant in ("CentOS", "Fedora") if vm == "vm1" else variant not in ("WinXP", "Win8") if vm == "vm2" else True
    if net == "net5":
        return variant == "Fedora" if vm == "vm1" else variant != "Win7" if vm == "vm2" else True
    return True


# ---------------------------------------------------------------- fakes and recorders (one event log per case)
STATE = {"events": [], "config": None, "fail_actions": (), "depth": 0, "logdir": "/tmp"}


class FakeDoor:
    """Stands in for avocado_i2n.cartgraph.node.door: every state scan/sync succeeds silently."""
    DUMP_CONTROL_DIR = "/tmp"
    run_subcontrol = staticmethod(lambda session, path: None)
    set_subcontrol_parameter = staticmethod(lambda path, key, value: path)
    set_subcontrol_parameter_dict = staticmethod(lambda path, key, value: path)


async def fake_run_test_task(self, node):
    await asyncio.sleep(0.01)
    p = node.params
    rec = {k: p.get(k) for k in ("vms", "nets", "vm_action", "skip_image_processing", "marker", "get_state_images",
                                 "set_state_images", "unset_state_images", "pool_scope")}
    rec["prefix"] = node.long_prefix
    rec["unset_mode"] = {vm: p.object_params(vm).get("unset_mode") for vm in p.objects("vms")}
    STATE["events"].append(("run", rec))
    status = "FAIL" if p.get("vm_action") in STATE["fail_actions"] else "PASS"
    tid = type("FakeTestID", (), {"uid": node.id_test.uid, "name": p["name"]})()
    self.job.result.tests.append({"name": tid, "status": status, "time_elapsed": "1", "logdir": STATE["logdir"]})
    return status == "PASS"


@contextlib.contextmanager
def fake_new_job(config):
    job = mock.MagicMock()
    job.logdir, job.timeout, job.config = STATE["logdir"], 120, config
    job.result.tests = []
    loader, runner = config["graph"].l, config["graph"].r
    loader.logdir = job.logdir
    runner.job = job
    yield job


def recorder(name, behaviour):
    """Step function that logs its call (only when called by Manu.run, not when reused by another tool)."""
    def step(config, tag=""):
        if STATE["depth"] == 0:
            STATE["events"].append(("call", {"step": name, "tag": tag, "same_config": config is STATE["config"],
                                             "selected": sorted(config.get("vm_strs", {}))}))
        STATE["depth"] += 1
        try:
            if callable(behaviour) and not isinstance(behaviour, type):
                return behaviour(config, tag=tag)
            if isinstance(behaviour, type):
                raise behaviour("scripted failure of step %s" % name)
            return behaviour
        finally:
            STATE["depth"] -= 1
    step.__name__ = name
    return step


def install():
    for target, new in [("avocado_i2n.intertest_setup.new_job", fake_new_job),
                        ("avocado_i2n.cartgraph.worker.remote.wait_for_login", mock.MagicMock()),
                        ("avocado_i2n.cartgraph.node.door", FakeDoor),
                        ("avocado_i2n.cartgraph.worker.TestWorker.start", mock.MagicMock()),
                        ("avocado_i2n.plugins.runner.SpawnerDispatcher", mock.MagicMock())]:
        mock.patch(target, new).start()
    mock.patch.object(TestRunner, "run_test_task", fake_run_test_task).start()
    for name in ["noop"] + PER_VM_STEPS + MULTI_VM_STEPS:
        setattr(intertest, name, recorder(name, getattr(intertest, name)))
    for name, behaviour in FAKES.items():
        setattr(intertest, name, recorder(name, behaviour))


# ---------------------------------------------------------------- one case
def cmdline(inp):
    params = ["setup=" + ",".join(inp["steps"])]
    if inp.get("vms") is not None:
        params.append("vms=" + ",".join(inp["vms"]))
    params += ["only_%s=%s" % (vm, var) for vm, var in sorted((inp.get("variants") or {}).items())]
    if inp.get("nets"):
        params.append("nets=" + ",".join(inp["nets"]))
    return params + list(inp.get("extra") or []) + list(inp.get("invalid") or [])


def run_case(inp):
    """Run Manu.run once on the command line described by `inp`; return the list of failures (empty = conforms)."""
    STATE.update(events=[], fail_actions=tuple(inp.get("fail_actions") or ()), depth=0)
    config = STATE["config"] = {"i2n.manu.params": cmdline(inp)}
    fails = []

    def fail(obligation, cls, observed, expected):
        fails.append({"obligation": obligation, "class": cls, "input": inp, "observed": observed, "expected": expected})

    try:
        rc = Manu().run(config)
    except BaseException as error:  # noqa: B902 - anything escaping Manu.run is a finding
        fail("no_unexpected_exception", "manu_run_raised:" + type(error).__name__, repr(error)[:300], "a return code")
        return fails
    calls = [e[1] for e in STATE["events"] if e[0] == "call"]
    steps = inp["steps"]
    if inp.get("invalid"):
        if rc != 1 or calls:
            fail("chain_order_and_retcode", "invalid_cmdline_not_rejected_before_steps",
                 {"rc": rc, "calls": [c["step"] for c in calls]}, {"rc": 1, "calls": []})
        return fails

    # -- oracle: selection, coverage per step, failing steps
    selected = sorted(inp["vms"]) if inp.get("vms") is not None else list(VMS)
    variants = dict(DEFAULT_VARIANT, **(inp.get("variants") or {}))
    nets = inp.get("nets") or []
    coverage = collections.Counter((vm, net) for net in nets for vm in selected if compatible(net, vm, variants[vm]))
    failing = []
    for step in steps:
        if step in FAKES:
            failing.append(FAKE_FAILS[step])
        else:
            failing.append(step != "noop" and ACTION.get(step, step) in STATE["fail_actions"] and bool(coverage))
    want_calls = [(s, "0m%d" % i) for i, s in enumerate(steps)]
    got_calls = [(c["step"], c["tag"]) for c in calls]
    dedup = list(dict.fromkeys(steps))
    if got_calls != want_calls and got_calls == [(s, "0m%d" % i) for i, s in enumerate(dedup)]:
        # its own clause, so that the other clauses stay checkable on chains that name a step twice
        fail("repeated_steps_each_called", "repeated_step_called_only_once", got_calls, want_calls)
        steps = dedup                           # keep checking the runs of the steps that were called
    elif got_calls != want_calls:
        n = len(got_calls)
        if n < len(want_calls) and got_calls == want_calls[:n] and n > 0 and failing[n - 1]:
            cls = "stopped_after_failing_step"
        elif [c[0] for c in got_calls] == list(steps):
            cls = "wrong_tag"
        elif sorted(c[0] for c in got_calls) == sorted(steps):
            cls = "wrong_order"
        else:
            cls = "wrong_calls"
        fail("chain_order_and_retcode", cls, got_calls, want_calls)
    if any(not c["same_config"] for c in calls):
        fail("chain_order_and_retcode", "different_config_object", "step got another config", "the config given to Manu.run")
    if any(c["selected"] != selected for c in calls):
        fail("chain_order_and_retcode", "selection_not_passed_to_step", [c["selected"] for c in calls], selected)
    want_rc = 1 if any(failing) else 0
    if rc != want_rc and want_rc and all(s in ACTION for s, f in zip(inp["steps"], failing) if f):
        fail("reusing_step_failure_reported", "collect_create_clean_failure_not_reported", rc, want_rc)
    elif rc != want_rc:
        fail("chain_order_and_retcode", "retcode_0_despite_failing_step" if want_rc else "retcode_1_without_failing_step",
             rc, want_rc)
    if got_calls != [(s, "0m%d" % i) for i, s in enumerate(steps)]:
        return fails                            # the runs cannot be attributed to steps reliably

    # -- runs of each step: segment the event log at the calls made by Manu.run
    segments, current = {}, None
    for kind, rec in STATE["events"]:
        if kind == "call":
            current = rec["tag"]
        else:
            segments.setdefault(current, []).append(rec)
    marker = dict(x.split("=", 1) for x in inp.get("extra") or [])
    for i, step in enumerate(steps):
        runs = segments.get("0m%d" % i, [])
        if step in FAKES or step == "noop":
            if runs:
                fail("once_per_vm_and_worker", "runs_during_step_without_tests", runs[:3], [])
            continue
        ob = COVER[step in MULTI_VM_STEPS]
        got = collections.Counter((vm, r["nets"]) for r in runs for vm in (r["vms"] or "").split())
        if got != coverage:
            extra, missing = got - coverage, coverage - got
            if any(vm not in selected for vm, _ in extra):
                cls = "run_for_unselected_vm"
            elif any(not compatible(net, vm, variants[vm]) for vm, net in extra):
                cls = "run_on_incompatible_worker"
            elif extra:
                cls = "vm_covered_more_than_once_on_worker"
            elif step in MULTI_VM_STEPS and {n for _, n in missing} <= {n for n in nets if any(
                    not compatible(n, vm, variants[vm]) for vm in selected)}:
                cls = "multi_vm_step_skips_worker_with_some_incompatible_vm"
            else:
                cls = "selected_vm_not_covered_on_compatible_worker"
            fail(ob, cls, {"step": step, "extra": sorted(extra.elements()),
                           "missing": sorted(missing.elements())}, sorted(coverage.elements()))
            continue
        for r in runs:
            want = {"vm_action": ACTION.get(step, step), "marker": marker.get("marker")}
            if step in PER_VM_STEPS:
                want["skip_image_processing"] = "yes"
                if len(r["vms"].split()) != 1:
                    fail(ob, "state_step_run_not_restricted_to_one_vm", r["vms"], "a single vm")
                for op in ("get", "set", "unset"):
                    want[op + "_state_images"] = "root" if step in ACTION and ACTION[step] == op else None
                if step in ("unset", "clean"):
                    r = dict(r, unset_mode=r["unset_mode"].get(r["vms"]))
                    want["unset_mode"] = marker.get("unset_mode", "fi")
                if step in ACTION:
                    own = "own" in (r["pool_scope"] or "").split()
                    if own != (step != "collect"):
                        fail(ob, "step_param_wrong:pool_scope", r["pool_scope"],
                             "without own" if step == "collect" else "own")
            for key, val in want.items():
                if r.get(key) != val:
                    leak = key.endswith("_state_images") and val is None
                    fail(ob, ("param_leaked_from_earlier_step:" if leak else "step_param_wrong:") + key,
                         {"step": step, key: r.get(key), "vms": r["vms"], "nets": r["nets"]}, {key: val})
            if not (r["prefix"] or "").startswith("0m%d" % i):
                fail(ob, "run_not_named_with_step_tag", r["prefix"], "0m%d..." % i)
    if None in segments:
        fail("once_per_vm_and_worker", "runs_before_first_step", segments[None][:3], [])
    return fails


def safe_case(inp):
    try:
        return run_case(inp)
    except BaseException as error:  # noqa: B902 - harness/oracle trouble must not kill the enumeration
        return [{"obligation": "no_unexpected_exception", "class": "harness_error:" + type(error).__name__, "input": inp,
                 "observed": repr(error)[:300], "expected": "no exception"}]


# ---------------------------------------------------------------- scope
def subsets():
    return [list(c) for k in (1, 2, 3) for c in itertools.combinations(VMS, k)]


def chain_cases(tier):
    fakes = ["fk_none", "fk_zero", "fk_one", "fk_neg", "fk_raise_rt", "fk_raise_val"]
    if tier != "quick":
        fakes += ["fk_two", "fk_str", "fk_raise_ecp"]
    alphabet, sel, cases = fakes + ["noop"], subsets() + [None], []
    for n in (1, 2, 3):
        for chain in itertools.product(alphabet, repeat=n):
            cases.append({"steps": list(chain), "vms": sel[len(cases) % len(sel)], "nets": ["net1"]})
    base = {"vms": ["vm3"], "nets": ["net1"], "extra": ["marker=c%d" % len(cases)]}
    mixed = [(["check"], []), (["get"], ["get"]), (["fk_raise_rt", "check"], []), (["fk_one", "get", "fk_zero"], []),
             (["get", "check"], ["get"]), (["get", "fk_none"], ["get"]), (["check", "get", "fk_zero"], ["get"]),
             (["unset", "unset"], ["unset"]), (["create", "check"], []), (["clean", "unset", "collect", "get"], []),
             (["boot", "fk_raise_val", "shutdown"], ["boot"]), (["noop", "pop", "push"], ["push"]),
             (["create"], ["set"]), (["clean", "fk_none"], ["unset"]), (["fk_zero", "collect"], ["get"])]
    if tier != "quick":
        real = ["check", "get", "set", "unset", "push", "pop", "collect", "create", "clean", "boot", "shutdown"]
        mixed += [([a, b], f) for a in real for b in real for f in ([], [ACTION.get(a, a)])]
        mixed += [([a, k, b], [ACTION.get(a, a)]) for a in real[:4] for b in real[4:8] for k in ("fk_raise_rt", "fk_none")]
    cases += [dict(base, steps=s, fail_actions=f) for s, f in mixed]
    # a failing real step with no compatible (vm, worker) pair has nothing to fail on
    cases.append({"steps": ["get", "fk_none"], "vms": ["vm1"], "nets": ["net5"], "fail_actions": ["get"]})
    chains = [["fk_none"], ["fk_one", "fk_none"], ["noop", "fk_raise_rt", "fk_zero"]]
    head = [{"steps": c, "invalid": bad} for bad in INVALID for c in (chains if tier != "quick" else chains[1:2])]
    n = len(alphabet) + len(alphabet) ** 2 + len(alphabet) ** 3
    return head + cases[n:] + cases[:n]         # invalid command lines, mixed real chains, then the fake-step product


def step_cases(tier):
    cases = []
    if tier == "quick":
        for si, step in enumerate(PER_VM_STEPS[:6]):
            for sel in subsets():
                vms = None if (len(sel) == 3 and si % 2) else sel
                for nets in (["net1"], ["net5", "net1"])[len(sel) > 1:]:
                    cases.append({"steps": [step], "vms": vms, "nets": nets, "extra": ["marker=q%d" % len(cases)]})
                if len(sel) != 2:
                    alt = {vm: ALT_VARIANT[vm] for vm in sel}
                    cases.append({"steps": [step], "vms": vms, "variants": alt, "nets": ["net5"], "extra": ["marker=alt"]})
        for step in MULTI_VM_STEPS:
            for sel in subsets():
                for nets in (["net1"], ["net5", "net1"])[len(sel) > 1:]:
                    cases.append({"steps": [step], "vms": sel, "nets": nets, "extra": ["marker=m%d" % len(cases)]})
        cases.append({"steps": ["unset"], "vms": ["vm1", "vm3"], "nets": ["net1"], "extra": ["unset_mode=ff"]})
        return cases
    pool = ["net1", "net2", "net5"]       # net3/net4 accept every vm variant available in the sample suite
    netsets = [[n] for n in pool] + [list(c) for c in itertools.combinations(pool, 2)] + [["net5", "net1"], ["net2", "net1"]]
    for step in PER_VM_STEPS + MULTI_VM_STEPS:
        for sel in subsets() + [None]:
            for nets in netsets:
                for variants in ({}, {vm: ALT_VARIANT[vm] for vm in sel or VMS}, {"vm1": "Fedora"}):
                    extra = ["marker=t%d" % len(cases)]
                    if step in ("unset", "clean") and len(cases) % 3 == 0:
                        extra.append("unset_mode=ff")
                    cases.append({"steps": [step], "vms": sel, "variants": variants, "nets": nets, "extra": extra})
    return cases


def nontrivial(inp):
    if inp.get("invalid"):
        return True
    variants = dict(DEFAULT_VARIANT, **(inp.get("variants") or {}))
    real = [s for s in inp["steps"] if s not in FAKES and s != "noop"]
    covered = any(compatible(n, vm, variants[vm]) for n in inp.get("nets") or [] for vm in inp.get("vms") or VMS)
    return len(inp["steps"]) >= 2 or any(FAKE_FAILS.get(s) for s in inp["steps"]) or (bool(real) and covered)


def main():
    out = _real_stdout
    STATE["logdir"] = tempfile.mkdtemp(prefix="manu_steps_")
    try:
        install()
        if "--replay" in sys.argv:
            inp = json.loads(sys.argv[sys.argv.index("--replay") + 1])
            fails = safe_case(inp)
            print(json.dumps({"ok": not fails, "failures": fails}, indent=1, default=str), file=out)
            return 1 if fails else 0
        tier = os.environ.get("VERIF_TIER", "quick")
        seed = int(os.environ.get("VERIF_SEED", "0") or 0)
        budget = float(os.environ.get("VERIF_BUDGET", "0") or 0) or (100 if tier == "quick" else 1000)
        jobs = int(os.environ.get("VERIF_JOBS", "0") or 0) or min(8, os.cpu_count() or 1)
        chains, steps = chain_cases(tier), step_cases(tier)
        random.Random(seed).shuffle(steps)      # cheap chain cases first; a budget cut then drops a seeded sample of steps
        cases = chains + steps
        t0, done, failures, cut = time.time(), 0, [], False
        counts, distinct = collections.Counter(), set()
        with multiprocessing.get_context("fork").Pool(jobs) as pool:
            results = pool.imap(safe_case, cases, chunksize=1)
            for inp in cases:
                try:
                    fails = results.next(timeout=max(1.0, budget - (time.time() - t0)))
                except multiprocessing.TimeoutError:
                    cut = True
                    pool.terminate()
                    break
                done += 1
                failures += fails
                real = [s for s in inp["steps"] if s not in FAKES and s != "noop" and not inp.get("invalid")]
                counts["no_unexpected_exception"] += 1
                counts["chain_order_and_retcode"] += 1
                counts["repeated_steps_each_called"] += len(set(inp["steps"])) < len(inp["steps"])
                counts["reusing_step_failure_reported"] += any(ACTION.get(s) in (inp.get("fail_actions") or []) for s in real)
                counts["once_per_vm_and_worker"] += bool(set(real) & set(PER_VM_STEPS))
                counts["multi_vm_once_per_vm_and_worker"] += bool(set(real) & set(MULTI_VM_STEPS))
                if nontrivial(inp):
                    distinct.add(json.dumps(inp, sort_keys=True))
                if done % 100 == 0:
                    print("progress %d/%d cases, %d failures, %.0fs" % (done, len(cases), len(failures), time.time() - t0),
                          file=out, flush=True)
        by_class = collections.OrderedDict()
        for f in sorted(failures, key=lambda f: (len(json.dumps(f["input"])), json.dumps(f["input"], sort_keys=True))):
            by_class.setdefault((f["obligation"], f["class"]), []).append(f)      # smallest input of every class first
        ranked = [fs[0] for fs in by_class.values()] + [f for fs in by_class.values() for f in fs[1:]]
        res = {
            "name": "manu_steps", "obligations": dict(counts), "cases": done, "distinct_nontrivial": len(distinct),
            "rule": "a case is one Manu.run command line; non-trivial = chain of >= 2 steps, or a failing fake step, or an "
                    "invalid command line, or a real step with at least one compatible (selected vm, worker) pair",
            "bound": "tier=%s: %d chain cases (1..3 steps over %d fake/noop steps + mixed real chains + %d invalid command "
                     "lines) and %d step cases (steps x vm selections of {vm1,vm2,vm3} x 1..2 workers x vm variants); "
                     "ran %d/%d in %.0fs with %d processes; failure classes: %s"
                     % (tier, len(chains), 7 if tier == "quick" else 10, len(INVALID), len(steps), done, len(cases),
                        time.time() - t0, jobs, sorted({"%s=%d" % (k[1], len(v)) for k, v in by_class.items()})),
            "exhaustive": not cut and done == len(cases),
            "samples": [cases[i] for i in range(0, len(cases), max(1, len(cases) // 5))][:6],
            "failures": ranked[:10],
        }
        print("BOUNDED-RESULT " + json.dumps(res, default=str), file=out, flush=True)
        return 0
    finally:
        shutil.rmtree(STATE["logdir"], ignore_errors=True)


if __name__ == "__main__":
    sys.exit(main())
