"""Bounded stand-in for C06 (parsed dependency graph is well formed) and the parsing clauses of C09 (workers get
equivalent linked copies; lazy == eager; parsing is deterministic).

The REAL parser (TestGraph.parse_object_trees / parse_paths_to_object_roots / parse_branches_for_node_and_object /
parse_cloned_branches_for_node_and_object / parse_shared_root_from_object_roots, TestNode.descend_from_node /
bridge_with_node / clone_as_source / validate) is run offline on the shipped sample suite ($VERIF_REPO/tp_folder) for a
finite list of selections (restriction string x per-vm variant restriction x nets/workers) and every resulting graph is
compared with simple graph-theoretic oracles written from the property statement.

Scope (stated bound):
  quick   : 9 selections: tutorial_get..implicit_both (3 vms, cloning; 2 nets; + lazy), tutorial_gui (3 nets), tutorial3 (2 nets;
            parsed twice), tutorial_gui..client_noop with multi-variant vm2 on a cluster net and the restricted net3,
            tutorial_finale (deep cloning, 2 nets), tutorial1 (2 nets; twice; lazy), tutorial1 with multi-variant vm1 on
            net2 + restricted net5, tutorial2 (1 net; twice; lazy) and client_noop+implicit_both selected together (1 net);
            plus ALL sequences of <= 3 descend_from_node calls over 3 nodes x 2 objects (exhaustive).
  thorough: 13 restriction strings covering every main test set (tutorial1, tutorial2, minimal, tutorial3 under
            normal/leaves/all, tutorial_gui, tutorial_get, implicit_both, tutorial_finale, a two-set selection, an internal
            setup node) x 4 vm restrictions (single variants, vm1 multi-variant, vm2 multi-variant, Fedora) x 5 worker sets
            (net1 | net1 net2 | net2 net3 net4 | net1 net5 | cluster1.net6 cluster1.net7 net1), each parsed eagerly, (for the
            single-variant case) twice, and lazily in 1-2 seeded orders of the (flat test, worker) pairs. The 13 two-worker
            single-variant selections come first, the rest in an order seeded by VERIF_SEED; a wall-clock budget (18 min,
            VERIF_BUDGET) cuts the tail, `exhaustive` tells whether the whole list was covered.
  Selections run in VERIF_JOBS (default 4 quick / 8 thorough) forked processes; results are merged in list order.

Obligations (one clause each):
  acyclic                       no dependency cycle (setup edges)
  single_root_reaches_all       exactly one node without parents, it is the shared root, every node reachable from it
  edges_symmetric               b in setup(a) with objects S  <=>  a in cleanup(b) with the same S (S non-empty, objects of a),
                                both ends registered in the graph; descend_from_node accumulates objects per edge (model)
  unique_ids                    no two nodes of the graph have the same id (prefix-name)
  unique_producer               per object with a declared dependency (`get`) a non-flat, non-clone-source test has exactly
                                one parent through that object, of the same worker, using the same object variant and
                                setting exactly the required state (any state if only the root state is required), and no
                                other registered test could provide it; a clone source has one clone per available
                                producer; no parent through an object without dependency; a test has the same parents (and
                                clones) whatever else is selected with it
  one_net_and_named_vms         objects[0] is the only net object and equals the `nets` parameter; `vms` parameter names
                                exactly the vm objects (each once); the net is the worker named in the test name
  clone_sources_not_runnable    a node with clones answers False to should_run/should_clean, has a "0"-prefix, is not a
                                clone itself and its clones are distinct registered nodes of the same worker
  validate_accepts              TestNode.validate() raises for no node
  bridging_symmetric_shared_registers   nodes that differ only in the worker are bridged pairwise and symmetrically, to
                                nothing else, without repetition, and share the same four EdgeRegister objects (which stay
                                four different registers)
  worker_copies_equivalent      per-worker subgraphs agree (tests modulo set prefix and net, parents and edge objects);
                                a restricted worker has a subset of the tests of an unrestricted one
  lazy_equals_eager             lazily expanded tests == eagerly parsed tests, each with the same parents; every selected flat
                                test is expanded for and linked to its expansions of every compatible worker
  parse_deterministic           two parses of the same input give the same ids, edges, bridges and clones
  no_unexpected_exception       parsing raises nothing but EmptyCartesianProduct (selection empty for the given objects)

Not covered here: generated suites with random setup DAGs; lazy expansion interleaved with a real traversal (the expansion
loop of traverse_object_trees is replayed by `parse_lazy` without running tests).
"""
import atexit
import itertools
import json
import logging
import os
import random
import re
import shutil
import sys
import tempfile
import time

REPO = os.environ.get("VERIF_REPO", "/repo")
sys.path.insert(0, REPO)
logging.disable(logging.CRITICAL)
# avocado creates temporary directories on import/use: keep them in one private place that is removed at exit
_TMP, _PID = tempfile.mkdtemp(prefix="graph_wf_"), os.getpid()
os.environ["TMPDIR"] = tempfile.tempdir = _TMP
atexit.register(lambda: os.getpid() == _PID and shutil.rmtree(_TMP, ignore_errors=True))

from avocado_i2n import params_parser as param  # noqa: E402
from avocado_i2n.cartgraph import TestGraph  # noqa: E402
from avocado_i2n.cartgraph.node import EdgeRegister  # noqa: E402

ONE = {"vm1": "only CentOS\n", "vm2": "only Win10\n", "vm3": "only Ubuntu\n"}
MULTI1 = {"vm1": "", "vm2": "only Win10\n", "vm3": "only Ubuntu\n"}
MULTI2 = {"vm1": "only CentOS\n", "vm2": "", "vm3": "only Ubuntu\n"}
FEDORA = {"vm1": "only Fedora\n", "vm2": "only Win10\n", "vm3": "only Ubuntu\n"}
#: nets that carry their own vm restrictions in nets.cfg of the sample suite
RESTRICTED_NETS = {"localhost.net3", "localhost.net5", "cluster1.net7", "cluster2.net9"}
REGISTERS = ("_picked_by_setup_nodes", "_picked_by_cleanup_nodes", "_dropped_setup_nodes", "_dropped_cleanup_nodes")


def sel(restr, vms, nets, lazy=0, twice=False):
    """A selection: restriction, vm restrictions, nets, number of lazy orders to try, whether to parse twice."""
    return {"restr": restr, "vms": vms, "nets": nets, "lazy": lazy, "twice": twice}


def selections(tier, seed=0):
    if tier == "quick":
        # longest first (the pool starts them in this order and a time budget cut, if any, drops the cheapest shapes)
        return [
            sel("leaves..tutorial_get..implicit_both", ONE, "net1 net2", lazy=1),
            sel("leaves..tutorial_gui", ONE, "net1 net2 net4"),
            sel("normal..tutorial3", ONE, "net1 net2", twice=True),
            sel("leaves..tutorial_gui..client_noop", MULTI2, "cluster1.net6 net3"),
            sel("leaves..tutorial_finale", ONE, "net1 net2"),
            sel("normal..tutorial1", ONE, "net1 net2", lazy=1, twice=True),
            sel("normal..tutorial1", MULTI1, "net2 net5"),
            sel("normal..tutorial2", ONE, "net1", lazy=1, twice=True),
            sel("leaves..tutorial_gui..client_noop,leaves..tutorial_get..implicit_both", ONE, "net1"),
        ]
    out = []
    sets = ["normal..tutorial1", "normal..tutorial2", "minimal", "normal..tutorial3", "leaves..tutorial3", "all..tutorial3",
            "leaves..tutorial_gui", "normal..tutorial_gui", "leaves..tutorial_get", "leaves..tutorial_get..implicit_both",
            "leaves..tutorial_finale", "all..tutorial_get..explicit_clicked,all..tutorial1", "nonleaves..connect"]
    nets = ["net1", "net1 net2", "net2 net3 net4", "net1 net5", "cluster1.net6 cluster1.net7 net1"]
    for nt, vm, rs in itertools.product(nets, [ONE, MULTI1, MULTI2, FEDORA], sets):
        if vm is not ONE and rs in ("leaves..tutorial3", "all..tutorial3"):
            continue   # the 16 `remote` variants dominate the run time without adding shapes
        out.append(sel(rs, vm, nt, lazy=2 if len(nt.split()) > 1 else 1, twice=vm is ONE))
    # all test sets on two plain workers first, then the rest in a seeded order (the time budget cuts the tail evenly)
    first = [s for s in out if s["vms"] is ONE and s["nets"] == "net1 net2"]
    rest = [s for s in out if s not in first]
    random.Random(seed).shuffle(rest)
    return first + rest


# ---------------------------------------------------------------- naming helpers (oracle side)

def split_name(node):
    """(set-invariant test name incl. vm variants, worker part of the name or None for a flat node)."""
    name, net = node.params["name"], None
    if ".nets." in name:
        net = name.rsplit(".nets.", 1)[1]
        # the net variant is repeated after every vm of the test: drop all repetitions
        name = name.replace(".nets." + net, "")
    best = ""
    for restr in node.params.objects("main_restrictions"):
        if name.startswith(restr + ".") and len(restr) > len(best):
            best = restr
    return (name[len(best) + 1:] if best else name), net


def obj_ids(objs):
    return sorted(str(getattr(o, "id", o)) for o in objs)


def snapshot_ids(graph):
    out = []
    for n in graph.nodes:
        out.append([n.id, sorted([p.id, obj_ids(s)] for p, s in n.setup_nodes.items()),
                    sorted(b.id for b in n.bridged_nodes), sorted(c.id for c in n.cloned_nodes)])
    return sorted(out)


def snapshot_keys(graph):
    """{(test key, net): sorted parents [(key, net), object ids]} of composite nodes, ignoring flat parents and the root;
    for a clone source its clones instead."""
    out = {}
    for n in graph.nodes:
        if n.is_flat():
            continue
        if n.cloned_nodes:
            # a clone source is never run: which of the alternative producers it stays attached to is immaterial (it depends on
            # the order in which the producers were met), its clones are what matters
            deps = sorted([list(split_name(c)), ["clone"]] for c in n.cloned_nodes)
        else:
            deps = sorted([list(split_name(p)), obj_ids(s)] for p, s in n.setup_nodes.items() if not p.is_flat())
        out.setdefault(split_name(n), []).append(deps)
    return {k: sorted(v) for k, v in out.items()}


# ---------------------------------------------------------------- oracles

class Report:
    def __init__(self):
        self.failures, self.obligations, self.seen, self.eager_keys = [], {}, {}, {}

    def used(self, ob):
        self.obligations[ob] = self.obligations.get(ob, 0) + 1

    def fail(self, ob, inp, observed, expected, cls):
        key = (ob, cls)
        self.seen[key] = self.seen.get(key, 0) + 1
        if self.seen[key] <= 2:
            self.failures.append({"obligation": ob, "input": inp, "observed": observed, "expected": expected, "class": cls})


def check_graph(graph, inp, rep, eager):
    nodes = list(graph.nodes)
    nset = set(nodes)
    nid = lambda n: n.id  # noqa: E731

    # acyclic (iterative three-colour DFS over setup edges)
    rep.used("acyclic")
    colour, cycle = {}, None
    for start in nodes:
        if start in colour:
            continue
        stack = [(start, iter(list(start.setup_nodes)))]
        colour[start] = 1
        while stack and cycle is None:
            n, it = stack[-1]
            for p in it:
                if colour.get(p) == 1:
                    cycle = [nid(x) for x, _ in stack] + [nid(p)]
                    break
                if p not in colour:
                    colour[p] = 1
                    stack.append((p, iter(list(p.setup_nodes))))
                    break
            else:
                colour[n] = 2
                stack.pop()
        if cycle:
            rep.fail("acyclic", inp, cycle[-6:], "no cycle", "cycle")
            break

    # single_root_reaches_all
    rep.used("single_root_reaches_all")
    starts = [n for n in nodes if len(n.setup_nodes) == 0]
    roots = [n for n in nodes if n.is_shared_root()]
    if len(starts) != 1 or len(roots) != 1 or starts[0] is not roots[0]:
        rep.fail("single_root_reaches_all", inp, {"parentless": [nid(n) for n in starts][:5], "shared_roots": [nid(n) for n in roots][:5]},
                 "one parentless node == the shared root", "not_one_start")
    else:
        seen, todo = {roots[0]}, [roots[0]]
        while todo:
            for c in todo.pop().cleanup_nodes:
                if c not in seen:
                    seen.add(c)
                    todo.append(c)
        missed = [nid(n) for n in nodes if n not in seen]
        if missed:
            rep.fail("single_root_reaches_all", inp, missed[:5], "all nodes reachable from the root", "unreachable")

    # edges_symmetric
    rep.used("edges_symmetric")
    for a in nodes:
        for b, objs in a.setup_nodes.items():
            if not a.is_flat() and not set(objs) <= set(a.objects) and (not b.is_flat() or b.is_shared_root()):
                rep.fail("edges_symmetric", inp, {"child": nid(a), "parent": nid(b), "setup": obj_ids(objs)},
                         "a dependency is recorded for objects of the child", "foreign_edge_object")
            back = b.cleanup_nodes.get(a)
            if b not in nset or not objs or back is None or set(back) != set(objs):
                rep.fail("edges_symmetric", inp, {"child": nid(a), "parent": nid(b), "setup": obj_ids(objs), "cleanup": None if back is None else obj_ids(back),
                                                  "parent_registered": b in nset}, "same non-empty object set on both ends", "setup_edge")
        for b, objs in a.cleanup_nodes.items():
            back = b.setup_nodes.get(a)
            if b not in nset or not objs or back is None or set(back) != set(objs):
                rep.fail("edges_symmetric", inp, {"parent": nid(a), "child": nid(b), "cleanup": obj_ids(objs), "setup": None if back is None else obj_ids(back),
                                                  "child_registered": b in nset}, "same non-empty object set on both ends", "cleanup_edge")

    # unique_ids
    rep.used("unique_ids")
    ids = [n.id for n in nodes]
    dups = sorted({i for i in ids if ids.count(i) > 1})
    if dups or len(nset) != len(nodes):
        rep.fail("unique_ids", inp, dups[:5], "all ids different", "duplicate_id")

    workers = {w.params["name"].split("nets.", 1)[1]: w for w in graph.workers.values()}
    all_clones = {c for n in nodes for c in n.cloned_nodes}

    def producers(n, o, net):
        """Registered runnable tests of the worker that can provide what `n` requires of `o`: named by the `get` restriction of
        the object, using the same vm variants as `n`, and setting the required (or, for the root state, any) state of `o`."""
        op = o.object_typed_params(n.params)
        dep, want = op.get("get"), op.get("get_state")
        if ".." in dep or "," in dep or " " in dep:
            return None     # only plain variant sequences are interpreted by this oracle (all the sample suite uses)
        mine = {x.suffix: x.id for x in n.objects if x.key == "vms"}
        out = []
        for m in nodes:
            if m is n or m.is_flat() or m.cloned_nodes or split_name(m)[1] != net:
                continue
            if not any(x.id == o.id and x.key == o.key for x in m.objects):
                continue
            if any(x.key == "vms" and mine.get(x.suffix, x.id) != x.id for x in m.objects):
                continue
            made = o.object_typed_params(m.params).get("set_state")
            if re.search(r"(\.|^)" + re.escape(dep) + r"(\.|$)", m.params["name"]) and made and (want in ("", None, "0root") or made == want):
                out.append(m)
        return out

    for n in nodes:
        # validate_accepts
        rep.used("validate_accepts")
        try:
            n.validate()
        except Exception as error:  # noqa: BLE001
            rep.fail("validate_accepts", inp, f"{nid(n)}: {type(error).__name__}: {error}"[:400], "no exception", type(error).__name__)
        if n.is_flat():
            continue
        key, net = split_name(n)

        # one_net_and_named_vms
        rep.used("one_net_and_named_vms")
        nets = [o for o in n.objects if o.key == "nets"]
        vms = sorted(o.suffix for o in n.objects if o.key == "vms")
        obs = {"node": nid(n), "first": n.objects[0].key, "nets": [o.suffix for o in nets], "param_nets": n.params.objects("nets"),
               "vms": vms, "param_vms": sorted(n.params.objects("vms")), "name_net": net}
        if not (len(nets) == 1 and n.objects[0] is nets[0] and n.params.objects("nets") == [nets[0].suffix]
                and vms == sorted(n.params.objects("vms")) and len(set(vms)) == len(vms) and len(vms) > 0
                and net in (nets[0].suffix, "localhost." + nets[0].suffix) and net in workers):
            rep.fail("one_net_and_named_vms", inp, obs, "one net first == param nets == worker in name; vms == param vms", "objects_vs_params")

        # clone_sources_not_runnable
        if len(n.cloned_nodes) > 0:
            rep.used("clone_sources_not_runnable")
            worker = workers.get(net)
            try:
                run, clean = n.should_run(worker), n.should_clean(worker)
            except Exception as error:  # noqa: BLE001
                run = clean = f"{type(error).__name__}: {error}"
            clones = list(n.cloned_nodes)
            ok = (run is False and clean is False and n.prefix.startswith("0") and n not in all_clones
                  and len(set(clones)) == len(clones) and all(c in nset and c is not n and split_name(c)[1] == net for c in clones))
            if not ok:
                rep.fail("clone_sources_not_runnable", inp, {"node": nid(n), "should_run": run, "should_clean": clean, "clones": [nid(c) for c in clones]},
                         "not run, not cleaned, 0-prefix, distinct registered clones", "runnable_source")
            # unique_producer for a clone source: its clones together descend from every available producer
            rep.used("unique_producer")
            for o in n.objects:
                if not o.object_typed_params(n.params).get("get"):
                    continue
                cands = producers(n, o, net)
                used = {p for c in clones for p, objs in c.setup_nodes.items() if o in objs}
                if cands is not None and set(cands) != used:
                    rep.fail("unique_producer", inp, {"node": nid(n), "object": o.id, "producers": sorted(nid(c) for c in cands),
                                                      "parents_of_clones": sorted(nid(p) for p in used)},
                             "one clone per available producer", "clone_per_producer")
            continue

        # unique_producer
        rep.used("unique_producer")
        for o in n.objects:
            op = o.object_typed_params(n.params)
            want, dep = op.get("get_state"), op.get("get")
            via = [p for p, objs in n.setup_nodes.items() if o in objs and not p.is_flat() and not p.is_shared_root()]
            obs = {"node": nid(n), "object": o.id, "get": dep, "get_state": want, "parents": [nid(p) for p in via]}
            if not dep:
                if via:
                    rep.fail("unique_producer", inp, obs, "no parent through an object without dependency", "parent_without_requirement")
                continue
            if len(via) != 1:
                rep.fail("unique_producer", inp, obs, "exactly one parent", "no_producer" if not via else "many_producers")
                continue
            p = via[0]
            same_variant = any(po.id == o.id and po.key == o.key for po in p.objects)
            made = o.object_typed_params(p.params).get("set_state")
            obs.update({"parent_net": split_name(p)[1], "parent_set_state": made, "same_variant": same_variant})
            if split_name(p)[1] != net:
                rep.fail("unique_producer", inp, obs, "parent of the same worker", "foreign_worker")
            elif not same_variant:
                rep.fail("unique_producer", inp, obs, "parent on the same object variant", "foreign_variant")
            elif not made or (want not in ("", None, "0root") and made != want):
                rep.fail("unique_producer", inp, obs, f"parent sets {want}", "wrong_state")
            else:
                cands = producers(n, o, net)
                if cands is not None and cands != [p]:
                    obs["producers"] = sorted(nid(c) for c in cands)
                    rep.fail("unique_producer", inp, obs, "the parent is the only available producer", "unrecorded_producer")

    # bridging_symmetric_shared_registers + worker_copies_equivalent
    classes = {}
    for n in nodes:
        if not n.is_flat():
            classes.setdefault(split_name(n)[0], []).append(n)
    if len(workers) > 1:
        rep.used("bridging_symmetric_shared_registers")
        for key, members in classes.items():
            for a in members:
                got = list(a.bridged_nodes)
                regs = [getattr(a, r) for r in REGISTERS]
                obs = {"node": nid(a), "bridged": sorted(nid(b) for b in got), "class": sorted(nid(b) for b in members)}
                if len(set(got)) != len(got) or set(got) != set(members) - {a} or any(a not in b.bridged_nodes for b in got):
                    rep.fail("bridging_symmetric_shared_registers", inp, obs, "bridged with exactly the other members, symmetrically", "bridge_set")
                elif any(getattr(b, r) is not getattr(a, r) for b in members for r in REGISTERS):
                    rep.fail("bridging_symmetric_shared_registers", inp, obs, "identical register objects within the class", "register_not_shared")
                elif len({id(r) for r in regs}) != 4 or not all(isinstance(r, EdgeRegister) for r in regs):
                    rep.fail("bridging_symmetric_shared_registers", inp, obs, "four different EdgeRegister objects", "register_aliased")
        if eager:
            rep.used("worker_copies_equivalent")
            per = {}
            for (key, net), deps in snapshot_keys(graph).items():
                per.setdefault(net, {})[key] = [[[d[0][0], d[1]] for d in alt] for alt in deps]
            for a, b in itertools.permutations(sorted(per), 2):
                diff = sorted(k for k in per[a] if k in per[b] and per[a][k] != per[b][k])
                extra = sorted(k for k in per[b] if k not in per[a]) if a not in RESTRICTED_NETS else []
                if diff or extra:
                    rep.fail("worker_copies_equivalent", inp, {"workers": [a, b], "different_parents": diff[:3], "only_in_second": extra[:3]},
                             "same tests with the same parents", "copy_differs")
    return {"nodes": len(nodes), "composite": sum(len(m) for m in classes.values()),
            "clone_sources": sum(1 for n in nodes if n.cloned_nodes), "workers": len(workers)}


# ---------------------------------------------------------------- drivers

def parse_eager(s):
    return TestGraph.parse_object_trees(None, s["restr"], "", dict(s["vms"]), {"nets": s["nets"]})


def parse_lazy(s, order_seed):
    """On-demand expansion as done by traverse_object_trees, for all (flat test, worker) pairs in a seeded order."""
    params = {"nets": s["nets"]}
    graph = TestGraph()
    graph.restrs.update(s["vms"])
    flat = TestGraph.parse_flat_nodes(s["restr"])
    for n in flat:
        n.update_restrs(dict(s["vms"]))
    graph.new_nodes(flat)
    root = graph.parse_shared_root_from_object_roots()
    graph.new_workers(TestGraph.parse_workers(params))
    pairs = [(n, w) for n in flat for w in graph.workers.values()]
    random.Random(order_seed).shuffle(pairs)
    for n, w in pairs:
        if n.is_unrolled(w):
            continue
        for parents, _, current in graph.parse_paths_to_object_roots(n, w.net, params):
            for parent in parents:
                if parent.is_object_root():
                    parent.descend_from_node(root, parent.get_terminal_object())
            current.validate()
    return graph


def run_selection(s, seed, rep):
    """Parse and check one selection in all requested modes; returns (stats or None, number of graphs checked)."""
    base = {"restr": s["restr"], "vms": s["vms"], "nets": s["nets"], "lazy": s["lazy"], "twice": s["twice"], "seed": seed}
    graphs = 0

    def guarded(mode, fn):
        try:
            return fn()
        except param.EmptyCartesianProduct:
            return None
        except Exception as error:  # noqa: BLE001
            rep.used("no_unexpected_exception")
            rep.fail("no_unexpected_exception", dict(base, mode=mode), f"{type(error).__name__}: {error}"[:400], "graph or EmptyCartesianProduct",
                     type(error).__name__)
            return False

    rep.used("no_unexpected_exception")
    eager = guarded("eager", lambda: parse_eager(s))
    if not eager:
        return None, graphs
    stats = check_graph(eager, dict(base, mode="eager"), rep, True)
    graphs += 1
    if s["twice"]:
        again = guarded("eager2", lambda: parse_eager(s))
        rep.used("parse_deterministic")
        if again:
            graphs += 1
            one, two = snapshot_ids(eager), snapshot_ids(again)
            if one != two:
                diff = [x for x in one if x not in two][:2] + [x for x in two if x not in one][:2]
                rep.fail("parse_deterministic", dict(base, mode="eager2"), diff, "identical ids, edges, bridges and clones", "second_parse_differs")
    want = snapshot_keys(eager)
    rep.eager_keys = want
    for k in range(s["lazy"]):
        order = seed * 1000 + k
        lazy = guarded(f"lazy{order}", lambda: parse_lazy(s, order))
        rep.used("lazy_equals_eager")
        if not lazy:
            if lazy is None:
                rep.fail("lazy_equals_eager", dict(base, mode=f"lazy{order}"), "EmptyCartesianProduct", "same tests as eager", "lazy_empty")
            continue
        graphs += 1
        check_graph(lazy, dict(base, mode=f"lazy{order}"), rep, False)
        got = snapshot_keys(lazy)
        # every selected (flat) test is expanded for every compatible worker and linked to its expansions
        for f in lazy.nodes:
            if not f.is_flat() or f.is_shared_root():
                continue
            fkey = split_name(f)[0]
            for w in lazy.workers.values():
                net = w.params["name"].split("nets.", 1)[1]
                kids = sorted(split_name(c)[0] for c in f.cleanup_nodes if not c.is_flat() and split_name(c)[1] == net)
                expected = sorted(k for k, n in want if n == net and k.split(".vms.")[0] == fkey)
                stray = [k for k in kids if not (k + ".").startswith(fkey + ".")]
                if stray or bool(kids) != bool(expected) or not set(expected) <= set(kids):
                    rep.fail("lazy_equals_eager", dict(base, mode=f"lazy{order}"), {"flat": f.id, "worker": net, "children": kids[:4]},
                             {"eager tests of that name": expected[:4]}, "flat_test_not_expanded_or_linked")
        if got != want:
            rep.fail("lazy_equals_eager", dict(base, mode=f"lazy{order}"),
                     {"missing": sorted(map(list, set(want) - set(got)))[:3], "extra": sorted(map(list, set(got) - set(want)))[:3],
                      "different_parents": [[list(k), got[k], want[k]] for k in sorted(set(got) & set(want)) if got[k] != want[k]][:2]},
                     "same composite tests with the same parents", "lazy_differs")
    return stats, graphs


def descend_case(seq):
    """Run one sequence of descend_from_node calls (child, parent, object indices) and compare with a dictionary model."""
    from avocado_i2n.cartgraph import TestNode
    nodes, objs, model = [TestNode(str(i), None) for i in range(3)], ["o1", "o2"], {}
    for c, p, o in seq:
        nodes[c].descend_from_node(nodes[p], objs[o])
        model.setdefault((c, p), set()).add(objs[o])
    got_setup = {(c, nodes.index(p)): set(s) for c in range(3) for p, s in nodes[c].setup_nodes.items()}
    got_cleanup = {(nodes.index(c), p): set(s) for p in range(3) for c, s in nodes[p].cleanup_nodes.items()}
    show = lambda d: sorted([list(k), sorted(v)] for k, v in d.items())  # noqa: E731
    return got_setup == model and got_cleanup == model, {"setup": show(got_setup), "cleanup": show(got_cleanup)}, show(model)


def check_descend_scope(rep):
    """Exhaustive small scope for TestNode.descend_from_node alone: all sequences of <= 3 calls over 3 nodes x 2 objects
    (the sample suite has no test depending on one parent through two objects)."""
    calls = [(c, p, o) for c in range(3) for p in range(3) if c != p for o in range(2)]
    count = 0
    for seq in itertools.chain.from_iterable(itertools.product(calls, repeat=k) for k in (1, 2, 3)):
        count += 1
        ok, observed, model = descend_case(seq)
        if not ok:
            rep.fail("edges_symmetric", {"descend_calls": [list(x) for x in seq]}, observed, model, "descend_model")
    rep.obligations["edges_symmetric"] = rep.obligations.get("edges_symmetric", 0) + count
    return count


def pool_job(args):
    """Run one selection in a worker process; everything returned is plain data (deterministic per selection)."""
    s, seed = args
    rep, t1 = Report(), time.time()
    try:
        stats, graphs = run_selection(s, seed, rep)
    except Exception as error:  # noqa: BLE001 - a graph so broken that an oracle itself trips over it
        stats, graphs = None, 0
        rep.fail("no_unexpected_exception", {"restr": s["restr"], "vms": s["vms"], "nets": s["nets"], "lazy": s["lazy"], "twice": s["twice"],
                                             "seed": seed, "mode": "check"}, f"{type(error).__name__}: {error}"[:400], "checkable graph", "check_crashed")
    return {"stats": stats, "graphs": graphs, "failures": rep.failures, "obligations": rep.obligations, "time": time.time() - t1,
            "keys": [[list(k), v] for k, v in rep.eager_keys.items()]}


def compare_selections(known, s, keys, seed, rep):
    """A test has the same parents whatever else is selected with it (same vm restrictions, same worker)."""
    mine = {tuple(k): v for k, v in keys}
    for other, theirs in known.get(json.dumps(s["vms"], sort_keys=True), []):
        diff = sorted(k for k in mine if k in theirs and mine[k] != theirs[k])
        # ... and selecting more tests never removes a test (or a clone of it) from a worker's copy
        for small, large, a, b in ((theirs, mine, other, s), (mine, theirs, s, other)):
            if set(a["restr"].split(",")) <= set(b["restr"].split(",")):
                diff += sorted(k for k in small if k not in large and k[1] in {n for _, n in large})
        if diff or (set(mine) & set(theirs)):
            rep.used("unique_producer")
        if diff:
            rep.fail("unique_producer", {"restr": s["restr"], "vms": s["vms"], "nets": s["nets"], "lazy": 0, "twice": False, "seed": seed, "mode": "eager",
                                         "other": {"restr": other["restr"], "nets": other["nets"]}},
                     [[list(k), mine.get(k), theirs.get(k)] for k in diff[:2]], "same tests with the same parents in both selections",
                     "parents_depend_on_selection")
    known.setdefault(json.dumps(s["vms"], sort_keys=True), []).append((s, mine))



def main():
    if "--replay" in sys.argv:
        inp = json.loads(sys.argv[sys.argv.index("--replay") + 1])
        rep = Report()
        if "descend_calls" in inp:
            ok, observed, model = descend_case(inp["descend_calls"])
            print(json.dumps({"ok": ok, "observed": observed, "expected": model}))
            return 0 if ok else 1
        s = sel(inp["restr"], inp["vms"], inp["nets"], inp.get("lazy", 0), inp.get("twice", False))
        stats, _ = run_selection(s, int(inp.get("seed", 0)), rep)
        if inp.get("other"):
            known, keys = {}, [[list(k), v] for k, v in rep.eager_keys.items()]
            other = pool_job((sel(inp["other"]["restr"], inp["vms"], inp["other"]["nets"]), 0))
            compare_selections(known, sel(inp["other"]["restr"], inp["vms"], inp["other"]["nets"]), other["keys"], 0, Report())
            compare_selections(known, s, keys, int(inp.get("seed", 0)), rep)
        print(json.dumps({"ok": not rep.failures, "stats": stats, "failures": rep.failures[:10]}, indent=1))
        return 1 if rep.failures else 0
    tier = os.environ.get("VERIF_TIER", "quick")
    seed = int(os.environ.get("VERIF_SEED", "0") or 0)
    budget = int(os.environ.get("VERIF_BUDGET", 110 if tier == "quick" else 1080))
    jobs = max(1, min(int(os.environ.get("VERIF_JOBS", "4" if tier == "quick" else "8")), os.cpu_count() or 1))
    todo = selections(tier, seed)
    rep, t0, done, graphs, nontrivial, samples, total_nodes, known = Report(), time.time(), 0, 0, set(), [], 0, {}
    import multiprocessing
    pool = multiprocessing.get_context("fork").Pool(jobs)
    micro = check_descend_scope(rep)
    try:
        # results are consumed in the fixed order of the selections, so the outcome does not depend on scheduling
        # and a selection is only dropped if it has not finished when the time budget is over
        pending = [pool.apply_async(pool_job, ((s, seed),)) for s in todo]
        for s, job in zip(todo, pending):
            while not job.ready() and time.time() - t0 <= budget:
                job.wait(1)
            if not job.ready():
                continue
            out = job.get()
            stats = out["stats"]
            done += 1
            graphs += out["graphs"]
            for ob, count in out["obligations"].items():
                rep.obligations[ob] = rep.obligations.get(ob, 0) + count
            for f in out["failures"]:
                rep.fail(f["obligation"], f["input"], f["observed"], f["expected"], f["class"])
            compare_selections(known, s, out["keys"], seed, rep)
            if stats:
                total_nodes += stats["nodes"]
                if stats["composite"] > 3 * stats["workers"]:
                    nontrivial.add(json.dumps([s["restr"], s["vms"], s["nets"]], sort_keys=True))
                if len(samples) < 4:
                    samples.append({"restr": s["restr"], "vms": s["vms"], "nets": s["nets"], "stats": stats})
            print(f"# {done}/{len(todo)} {s['restr']} | {s['nets']} | {json.dumps(s['vms'])} -> {stats} in {out['time']:.1f}s "
                  f"failures={len(rep.failures)}", flush=True)
    finally:
        pool.terminate()
        pool.join()
    res = {
        "name": "graph_wf", "obligations": rep.obligations, "cases": graphs + micro, "distinct_nontrivial": len(nontrivial),
        "rule": "case = one parsed graph (eager, repeated eager or lazy) of a selection (restriction x vm restrictions x nets) of the sample suite; "
                "non-trivial selection = parses to more than 3 composite tests per worker (i.e. has real setup chains below the leaves)",
        "bound": f"tier={tier}: {done}/{len(todo)} selections, {graphs} graphs, {total_nodes} nodes in eager graphs; lazy orders seeded by {seed}; "
                 f"plus {micro} descend_from_node call sequences (<=3 calls, 3 nodes, 2 objects)",
        "exhaustive": done == len(todo), "samples": samples, "failures": rep.failures[:10],
    }
    print("BOUNDED-RESULT " + json.dumps(res))
    return 0


if __name__ == "__main__":
    sys.exit(main())
