"""Bounded native check of the schedule-level properties C01, C02, C03, C04, C05 and C08 on the REAL traversal code.

`TestGraph.traverse_object_trees` (with the real traverse_node / reverse_node / traverse_terminal_node, TestRunner.run_test_node,
TestNode.default_run_decision / default_clean_decision / should_rerun / scan_states / sync_states / pull_locations, pick_*/drop_*)
is run by all workers of a scenario under a VIRTUAL clock (an event loop whose time jumps to the next timer, so every
`asyncio.sleep` - test durations, the 30 s result polling of run_test_node, the back-off from occupied nodes - is ordered by the
scenario's durations and nothing really sleeps).  Only the infrastructure seams are replaced, by stateful fakes:

 * `avocado_i2n.cartgraph.node.door`  -> PoolDoor: a model of which (object, state) exists in which location (the shared pool
   and every worker's own pool).  `check` (scan_states) answers from the model (ShellCmdError with "AssertionError" when a
   checked state is neither in the asking worker's own pool [scope has `own`] nor in the shared pool [scope has `shared`]),
   `unset` (sync_states) removes from the asking worker's own pool, `get` (pool_filter=copy) copies into it.  Every request is
   recorded with its virtual time.
 * `TestRunner.run_test_task`          -> a coroutine that records an observation at entry (worker, node, parameters, virtual
   time, availability of every required state), sleeps the scenario's virtual duration, reports the scenario's status in
   `job.result.tests` (or nothing: "NOREPORT") and on PASS saves the states the test sets into the executing worker's own pool
   (where the real backends save them: `set` with `own` in pool_scope; without `own` the real backend raises, so the test
   ERRORs).  A test whose required state is not available ERRORs (what get_mode "ra" = abort does); a state fetched from
   another location is also copied into the own pool (the real `get` downloads into the cache).
 * `avocado_i2n.cartgraph.worker.remote.wait_for_login` -> a token session naming the worker it was opened for.
 The graph of a configuration (selection, workers, eager/lazy) is parsed once with the real parser and every scenario runs in a
 forked copy of it; scenario parameters are written into the node parameters (same effect as parse-time parameters for the keys
 used here, none of which influences parsing) and are also the traversal parameters (used by the lazy expansion).
 `virttest.utils_params.Params.copy/object_params` (trusted, not part of the repo) are replaced by equivalent memoising versions
 for speed; VERIF_SLOW_PARAMS=1 keeps the originals (cross-checked: identical verdicts and event counts on the quick tier).

Scenario space (the stated bound)
  selections  normal..tutorial1 | normal..tutorial1,normal..tutorial2 (two tests sharing the on_customize setup) |
              normal..tutorial3 (two vms, two setup chains) | leaves..tutorial_gui (two vms, two leaves, one removable leaf state) |
              leaves..tutorial_get..explicit_noop (three vms, one permanent; a removable state WITH a dependant);
              vm restrictions vm1=CentOS vm2=Win10 vm3=Ubuntu (one variant per vm);
  workers     net1 | net1 net2 | net1 net2 net3 (graph parsed up front) and, lazily expanded during the traversal (flat nodes),
              net1 net2, net1 net2 net3 and net1 net5 (net5's own restriction vm1=Fedora excludes every selected test);
  pools       every state a setup (non-leaf) test of the selection can produce: absent / in the shared pool / in one worker's own
              pool.  quick: none, all shared, all in net1's or net2's own pool, each single state in each of these three places,
              every prefix of the state list shared; thorough: in addition ALL placements of every pair of states over shared + every
              own pool, 12 seeded random populations per configuration and the populations of the random points;
  durations   per test class a value of {1, 2, 5} (rotations of the pattern) plus a per-worker offset out of {0, .05, .1, .25, .5,
              1, 2}; all below the test timeout (100 s; 1000 s with NOREPORT);
  outcomes    all PASS, or one chosen test class (incl. the object creation pre-step) FAIL / ERROR / NOREPORT on its first try
              or on every try (+ the induced ERRORs of tests started without their state); plus 4 (thorough 16) scenarios where the install
              fails on its first try and the creation pre-step on its second (and third) execution;
  settings    max_tries {1,2,3} x rerun_status {"", fail, pass} x stop_status {"", fail, pass} x max_concurrent_tries {unset,1,2},
              pool_scope {default "own swarm cluster shared", "own", "own shared", "shared" (thorough)}, unset_mode {default,
              "fi" for all objects, "fi" for vm states only, "fi" for image states only} (also combined with max_tries=2 and
              pool_scope "own shared"), dry_run {no, yes}, pool_filter {reuse, copy (thorough)}.
  quick (503 scenarios) and thorough (about 6950 scenarios incl. 1000 seeded random points of the full product) take the systematic
  slices listed in `enumerate_scenarios`: A pools x durations, B scopes/cleanup/dry run x pools x durations, C one failing class
  x retry settings (full product for tutorial1 on two workers in the thorough tier), C2 two-step creation failures, D lazy graphs
  (+ E random points).  `exhaustive` tells whether the whole list of the tier was run within VERIF_BUDGET seconds (default 100 / 1000;
  the list of every configuration is shuffled with VERIF_SEED so that a budget cut removes a uniform part of every slice).
  Environment: VERIF_REPO, VERIF_TIER (quick|thorough), VERIF_SEED, VERIF_JOBS (8), VERIF_BUDGET; `--replay '<scenario json>'` re-runs
  one scenario, prints its trace (virtual times, door requests, pools) and exits 1 if an obligation still fails.

Obligations (every scenario is judged by all of them)
  C01_required_state_available      at every test start each required state (get_state of a non-permanent object) exists in the
                                    own pool (scope has own) or in a listed get_location permitted by the scope; exception: the
                                    producing setup test / creation step had a non-passing attempt before, in this run
  C08_own_worker_only               executing worker == worker the node was parsed for (name, nets, nets_* connection parameters,
                                    net object), the worker's restrictions do not exclude the node's vm variants, state requests
                                    use the session of the node's worker
  C08_sources_are_producers         "<wid>:" sources of a required state == workers with a PASS attempt of its producer before
                                    this start (and still holding the state); the shared pool is listed; access parameters of
                                    named workers are present
  C02_terminates                    all workers return without exception within the caps (400000 loop steps, 200000 virtual s, 40 executions of one
                                    test class, 90 s wall; else class "livelock")
  C02_every_selected_test_reported  every selected test class was executed at least once and no result is left UNKNOWN; dry run:
                                    nothing executed, no state changed
  C03_run_count                     executions per test class and reuse scope <= max(1, max_tries) (unless a state it produces was
                                    removed in between); a class whose states were all found at its first examination in a scope
                                    is not executed there; no clone source / flat test is executed
  C04_concurrency_bound             at no instant more than max_concurrent_tries (default max_tries, else 1) workers of a reuse
                                    scope execute the same class (creation pre-step + install = one execution); never the same
                                    node object twice at once
  C05_cleanup_not_before_dependants an unset request names only states of objects with unset_mode f., and no test requiring the
                                    removed state (same reuse scope) is running at that moment or starts later without the state
                                    having been produced again
  Reuse scope of the (lxc, localhost) workers used here: the whole run if pool_scope contains `swarm`, else the single worker.
The oracles are written from the statements in /verif/properties.jsonl, not from the code; where the statement is silent nothing is
demanded (e.g. nothing requires a removable state to be removed eventually, or retries to happen).  VERIF_STRICT_C01=1 adds an
opt-in diagnostic (not an obligation) for tests started between two tries of their producer.
Failure classes found on the unchanged tree: C01/finished_elsewhere_own_pool (a state found only in another worker's own pool makes
the setup count as finished for everybody), C03/creation_install_over_budget and C03/creation_prestep_over_budget (object creation
exceeds max_tries: the try is registered only after the awaited pre-step / a failed pre-step is never registered) and
C02_terminates/livelock (install fails, then the pre-step fails once: the pre-step is repeated forever).
Not covered: remote/cluster spawners and swarm-narrowed scopes, multi-variant vms, cloned tests, replayed previous jobs, crash
points, pre-existing leaf states.
"""
import atexit
import itertools
import json
import logging
import os
import random
import re
import shutil
import sys
import tempfile
import time
import traceback
import warnings
import zlib

warnings.filterwarnings("ignore")
REPO = os.environ.get("VERIF_REPO", "/repo")
sys.path.insert(0, REPO)
logging.disable(logging.CRITICAL)
_TMP, _PID = tempfile.mkdtemp(prefix="traversal_scenarios_"), os.getpid()
os.environ["TMPDIR"] = tempfile.tempdir = _TMP
os.environ.setdefault("HOME", _TMP)
os.chdir(_TMP)
atexit.register(lambda: os.getpid() == _PID and shutil.rmtree(_TMP, ignore_errors=True))

import asyncio  # noqa: E402
from unittest import mock  # noqa: E402
from aexpect.exceptions import ShellCmdError  # noqa: E402
import avocado_i2n.cartgraph.node as nodemod  # noqa: E402
import avocado_i2n.cartgraph.worker as workermod  # noqa: E402
from avocado_i2n.cartgraph import TestGraph, TestSwarm, TestWorker  # noqa: E402
from avocado_i2n.plugins.runner import TestRunner  # noqa: E402

from virttest.utils_params import Params  # noqa: E402


def _fast_params():
    """Equivalent, faster `copy` / `object_params` of the (trusted, non-repo) virttest Params.  The originals copy ~300 keys
    one by one through __setitem__ on every call, which dominates the run time of a traversal (object_typed_params is called
    thousands of times per scenario).  Here a copy is a C-level dict copy and the result of `object_params(name)` is memoised
    per content: every Params carries a cache `_opc` {name: (derived data, cache of the derived content)} that is shared by
    unmodified copies and dropped (rebound, never cleared) by the instance that is modified (__setitem__/__delitem__, through
    which all MutableMapping mutators go).  Same results, same key order.  VERIF_SLOW_PARAMS=1 keeps the originals (used to
    cross-check that no verdict changes)."""
    def clone(self, data, opc):
        new = self.__class__.__new__(self.__class__)
        new.__dict__.update(self.__dict__)
        new.data = data
        new.__dict__["_opc"] = opc
        return new

    def setitem(self, key, item):
        self.__dict__["_opc"] = None
        self.data[key] = item

    def delitem(self, key):
        self.__dict__["_opc"] = None
        del self.data[key]

    def cache_of(self):
        opc = self.__dict__.get("_opc")
        if opc is None:
            opc = self.__dict__["_opc"] = {}
        return opc

    def copy(self):
        return clone(self, dict(self.data), cache_of(self))

    def object_params(self, obj_name):
        opc = cache_of(self)
        hit = opc.get(obj_name)
        if hit is None:
            suffix = "_" + obj_name
            data = dict(self.data)
            for key in [k for k in data if k.endswith(suffix)]:
                data[key.split(suffix)[0]] = data[key]
            hit = opc[obj_name] = (data, {})
        return clone(self, dict(hit[0]), hit[1])
    Params.copy, Params.object_params, Params.__setitem__, Params.__delitem__ = copy, object_params, setitem, delitem


if os.environ.get("VERIF_SLOW_PARAMS") != "1":
    _fast_params()

NAME = "traversal_scenarios"
VM_STRS = {"vm1": "only CentOS\n", "vm2": "only Win10\n", "vm3": "only Ubuntu\n"}
OBLIGATIONS = ["C01_required_state_available", "C08_own_worker_only", "C08_sources_are_producers", "C02_terminates",
               "C02_every_selected_test_reported", "C03_run_count", "C04_concurrency_bound", "C05_cleanup_not_before_dependants"]
STRICT_C01 = os.environ.get("VERIF_STRICT_C01") == "1"
DEFINITE = {"PASS", "FAIL", "ERROR", "WARN", "SKIP", "CANCEL", "INTERRUPTED"}
MAX_STEPS, MAX_VTIME, MAX_WALL, MAX_RUNS_PER_CLASS = 400000, 200000.0, 90.0, 40
RANDOM_POINTS = 1000


# ------------------------------------------------------------------ virtual time

class Livelock(Exception):
    pass


class VirtualLoop(asyncio.SelectorEventLoop):
    """Event loop whose clock jumps to the next scheduled timer when nothing is ready: sleeps cost no wall time."""

    def __init__(self):
        super().__init__()
        self.vtime, self.steps, self.wall0 = 0.0, 0, time.time()

    def time(self):
        return self.vtime

    def _run_once(self):
        self.steps += 1
        if not self._ready and self._scheduled:
            when = min(h._when for h in self._scheduled if not h._cancelled) if any(
                not h._cancelled for h in self._scheduled) else None
            if when is not None and when > self.vtime:
                self.vtime = when
        if self.steps > MAX_STEPS or self.vtime > MAX_VTIME or (self.steps % 512 == 0 and time.time() - self.wall0 > MAX_WALL):
            raise Livelock(f"steps={self.steps} vtime={self.vtime:.1f}")
        super()._run_once()


# ------------------------------------------------------------------ helpers on real nodes (oracle side)

def key_of(shortname):
    """Worker-invariant class of a test: its shortname without net and vm variant components, e.g. internal.automated.customize.vm1
    or leaves.tutorial_gui.client_noop.vm1.vm2 (every vm has a single variant in the stated scope)."""
    name = re.sub(r"\.(?:cluster\d+\.)?net\d+(?=\.|$)", "", shortname)
    m = re.match(r"^(.*?)\.vm\d", name)
    head = m.group(1) if m else name
    vms = ".".join(re.findall(r"\.(vm\d)\b", name))
    return head + ("." + vms if vms else "")


def ckey(node):
    return key_of(node.params["shortname"])


def short(key):
    return key


def stateful_objects(node, do):
    out = []
    for o in node.objects:
        if o.key not in ("images", "vms"):
            continue
        state = o.object_typed_params(node.params).get(f"{do}_state")
        if state and state not in ("0root",):
            out.append((o, state))
    return out


def producer_of(node, obj, state):
    """The setup node of `node` through `obj` that sets `state` (the producing setup test), or None."""
    for parent, objs in node.setup_nodes.items():
        if parent.is_flat():
            continue
        if obj in objs or obj.long_suffix in [x.long_suffix for x in objs]:
            for po, ps in stateful_objects(parent, "set"):
                if po.long_suffix == obj.long_suffix and ps == state:
                    return parent
    return None


def fail_list(sc):
    """The failing classes of a scenario: `fail` is None, one spec or a list of specs."""
    fail = sc.get("fail")
    return [] if not fail else ([fail] if isinstance(fail, dict) else list(fail))


def scope_of(pool_scope, worker_id):
    """Reuse scope of an lxc worker on localhost: the whole run unless the pool scope is narrowed below the swarm."""
    return "run" if "swarm" in pool_scope.split() else worker_id


# ------------------------------------------------------------------ the harness state and the fakes

class Harness:
    def __init__(self, graph, sc):
        self.graph, self.sc = graph, sc
        self.seq = 0
        self.execs, self.door, self.events = [], [], []
        self.pool = {"shared": set()}
        for w in graph.workers:
            self.pool[w] = set()
        for loc, items in (sc.get("pool") or {}).items():
            self.pool.setdefault(loc, set()).update((o, s) for o, s in items)
        self.initial_pool = {k: sorted(v) for k, v in self.pool.items()}
        self.attempts = {}
        self.loop = None
        self.by_host = {w.params["nets_shell_host"] + ":" + w.params["nets_shell_port"]: w.id for w in graph.workers.values()}

    def tick(self):
        self.seq += 1
        return self.seq

    def now(self):
        return round(self.loop.time(), 4) if self.loop else 0.0

    def duration(self, key, wid):
        d = self.sc.get("dur") or {}
        pattern, rot, woff = d.get("pattern", [1]), d.get("rot", 0), d.get("woff", [0])
        widx = sorted(self.graph.workers).index(wid) if wid in self.graph.workers else 0
        return pattern[(zlib.crc32(key.encode()) + rot) % len(pattern)] + woff[widx % len(woff)]

    # ---- availability model (from the property: a location the worker is allowed and instructed to fetch from)
    def locate(self, worker, node, obj, state):
        """(available, where, listed sources) of a required state for `worker` starting `node`."""
        params = node.params
        scopes = params.get("pool_scope", "").split()
        sources = (obj.object_typed_params(params).get("get_location") or "").split()
        item = (obj.long_suffix, state)
        if "own" in scopes and item in self.pool[worker.id]:
            return True, worker.id, sources
        for src in sources:
            wid, _, path = src.partition(":")
            if not wid:
                if path == params.get("shared_pool") and "shared" in scopes and item in self.pool["shared"]:
                    return True, "shared", sources
                continue
            if wid == worker.id or wid not in self.graph.workers or path != params.get("swarm_pool"):
                continue
            other = self.graph.workers[wid]
            scope = "cluster" if other.params["nets_gateway"] != worker.params["nets_gateway"] else "swarm"
            if scope in scopes and item in self.pool[wid]:
                return True, wid, sources
        return False, None, sources

    def begin(self, node, worker):
        key = ckey(node)
        params = node.params
        ex = {"seq0": self.tick(), "t0": self.now(), "worker": worker.id if worker else None, "ckey": key, "node": node.id,
              "name": params["name"], "nid": id(node), "status": None, "seq1": None, "t1": None,
              "pool_scope": params.get("pool_scope", ""), "needs": [], "sets": [], "problems": [],
              "flat": node.is_flat(), "clone_source": len(node.cloned_nodes) > 0,
              "max_tries": params.get("max_tries"), "max_concurrent_tries": params.get("max_concurrent_tries"),
              "creation": "object_root" in params or params.get("type") == "shared_configure_install",
              "obj_root": params.get("object_root", "")}
        ex["params"] = {k: params[k] for k in params if k == "nets" or k.startswith(("get_state", "get_location", "set_state", "nets_"))
                        or k in ("pool_scope", "vms", "unset_mode", "get_mode")}
        ex["try"] = self.attempts.get(key, 0)
        self.attempts[key] = ex["try"] + 1
        if ex["try"] >= MAX_RUNS_PER_CLASS:
            raise Livelock(f"{key} executed {ex['try']} times (max_tries {params.get('max_tries', 1)}), giving up")
        ex["dur"] = self.duration(key, ex["worker"] or "")
        self.check_own_worker(ex, node, worker)
        if worker is not None:
            for obj, state in stateful_objects(node, "get"):
                if obj.is_permanent():
                    continue
                ok, where, sources = self.locate(worker, node, obj, state)
                producer = producer_of(node, obj, state)
                need = {"obj": obj.long_suffix, "state": state, "ok": ok, "where": where, "sources": sources,
                        "producer": ckey(producer) if producer is not None else None,
                        "producer_root": bool(producer is not None and producer.is_object_root()),
                        "holders": sorted(loc for loc, items in self.pool.items() if (obj.long_suffix, state) in items)}
                ex["needs"].append(need)
                if ok and where != worker.id and "own" in ex["pool_scope"].split():
                    self.pool[worker.id].add((obj.long_suffix, state))       # the real get downloads into the own cache
            for obj, state in stateful_objects(node, "set"):
                ex["sets"].append([obj.long_suffix, state])
        self.execs.append(ex)
        self.events.append(("start", ex))
        return ex

    def check_own_worker(self, ex, node, worker):
        params = node.params
        if worker is None:
            ex["problems"].append(("no_started_worker", "started_worker is None"))
            return
        if not params["name"].endswith("." + worker.params["name"]) or params.get("nets") != worker.id \
                or not node.objects or node.objects[0].long_suffix != worker.id:
            ex["problems"].append(("foreign_worker", {"name_tail": params["name"].rsplit(".nets.", 1)[-1], "nets": params.get("nets"),
                                                       "worker": worker.params["name"]}))
        diff = {k: (params.get(k), v) for k, v in worker.params.items() if k.startswith("nets_") and params.get(k) != v}
        if diff:
            ex["problems"].append(("connection_params_mismatch", diff))
        for o in node.objects:
            if o.key != "vms":
                continue
            variants = o.params["name"].split(".")
            for line in worker.restrs.get(o.suffix, "").splitlines():
                kind, _, rest = line.strip().partition(" ")
                tokens = [t.strip() for t in rest.split(",") if t.strip()]
                hit = any(t in variants for t in tokens)
                if tokens and ((kind == "only" and not hit) or (kind == "no" and hit)):
                    ex["problems"].append(("restricted_worker", {"vm": o.suffix, "restriction": line.strip(), "variant": o.params["name"]}))

    def outcome(self, ex):
        status = "PASS"
        for fail in fail_list(self.sc):        # tries: "all" | "first" | list of attempt numbers (0-based, counted over all workers)
            tries = fail.get("tries", "all")
            if fail["node"] == ex["ckey"] and (tries == "all" or ex["try"] in ([0] if tries == "first" else tries)):
                status = fail["status"]
        if status == "PASS" and any(not n["ok"] for n in ex["needs"]):
            status, ex["aborted"] = "ERROR", "required state missing"
        if status == "PASS" and ex["sets"] and "own" not in ex["pool_scope"].split():
            status, ex["aborted"] = "ERROR", "cannot save a state without own in pool_scope"
        return status

    def end(self, ex, status):
        ex["status"], ex["seq1"], ex["t1"] = status, self.tick(), self.now()
        if status == "PASS":
            for o, s in ex["sets"]:
                self.pool[ex["worker"]].add((o, s))
        self.events.append(("end", ex))


H = None  # the harness of the scenario run by this process


class PoolDoor:
    DUMP_CONTROL_DIR = "/tmp"
    action, params = "check", None

    @staticmethod
    def set_subcontrol_parameter(_, __, do):
        PoolDoor.action = do
        return "ctl"

    @staticmethod
    def set_subcontrol_parameter_dict(_, __, params):
        PoolDoor.params = dict(params)
        return "ctl"

    @staticmethod
    def run_subcontrol(session, path):
        do, params = PoolDoor.action, PoolDoor.params or {}
        wid = getattr(session, "worker_id", None)
        req = {"seq": H.tick(), "t": H.now(), "action": do, "worker": params.get("nets"), "session_worker": wid, "states": [],
               "result": None, "name": params.get("name"), "ckey": key_of(params.get("shortname", "")),
               "pool_scope": params.get("pool_scope", ""), "dry": False}
        H.door.append(req)
        H.events.append(("door", req))
        own = H.pool.setdefault(req["worker"], set())
        scopes = req["pool_scope"].split()
        for key, state in sorted(params.items()):
            m = re.match(rf"^{do}_state_(images|vms)_(\w+)$", key)
            if not m or not state:
                continue
            obj = m.group(2)
            loc_key = ("show" if do == "check" else do) + "_location_" + m.group(1) + "_" + obj
            locations = (params.get(loc_key) or "").split()
            mode = params.get(f"{do}_mode_{m.group(1)}_{obj}", "")
            req["states"].append({"obj": obj, "kind": m.group(1), "state": state, "locations": locations, "mode": mode})
        if do == "check":
            missing = []
            for st in req["states"]:
                item = (st["obj"], st["state"])
                shared_listed = any(loc == ":" + params.get("shared_pool", "") for loc in st["locations"])
                if not (("own" in scopes and item in own) or ("shared" in scopes and shared_listed and item in H.pool["shared"])):
                    missing.append(item)
            req["result"] = "present" if not missing else "missing"
            if missing:
                raise ShellCmdError("pre_state check", 1, "Traceback (most recent call last):\nAssertionError: missing %s" % missing)
        elif do == "unset":
            req["removed"] = []
            for st in req["states"]:
                item = (st["obj"], st["state"])
                if "own" in scopes and item in own:
                    own.discard(item)
                    req["removed"].append(list(item))
            req["result"] = "done"
        elif do == "get":
            for st in req["states"]:
                item = (st["obj"], st["state"])
                sscopes = (params.get(f"pool_scope_{st['kind']}_{st['obj']}") or "").split()     # a sync downloads into the own cache
                if "shared" in sscopes and item in H.pool["shared"]:
                    own.add(item)
            req["result"] = "done"
        else:
            req["result"] = "ignored"


async def fake_run_test_task(self, node):
    ex = H.begin(node, node.started_worker)
    await asyncio.sleep(ex["dur"])
    status = H.outcome(ex)
    if status != "NOREPORT":
        tid = type("TID", (), {"uid": node.id_test.uid, "name": node.params["name"]})()
        self.job.result.tests.append({"name": tid, "status": status, "time_elapsed": "1", "logdir": "."})
    H.end(ex, status)


def fake_wait_for_login(client, host, port, *args, **kwargs):
    session = mock.MagicMock()
    session.worker_id = H.by_host.get(f"{host}:{port}")
    session.cmd_output.return_value = "now"
    return session


# ------------------------------------------------------------------ graph construction (once per configuration, then forked)

def build_graph(cfg):
    """cfg: restr, nets, lazy.  Parsed with default parameters; scenario parameters are applied per scenario (apply_params)."""
    if cfg["lazy"]:
        graph = TestGraph()
        graph.restrs.update(VM_STRS)
        nodes = TestGraph.parse_flat_nodes(cfg["restr"])
        for n in nodes:
            n.update_restrs(VM_STRS)
        graph.new_nodes(nodes)
        graph.parse_shared_root_from_object_roots()
        graph.new_workers(TestGraph.parse_workers({"nets": cfg["nets"]}))
    else:
        graph = TestGraph.parse_object_trees(restriction=cfg["restr"], object_restrs=dict(VM_STRS), params={"nets": cfg["nets"]})
    for n in graph.nodes:
        n.params  # noqa: B018 - materialise the parameter caches before forking
    return graph


def apply_params(graph, overrides):
    """Same effect as giving `overrides` as parse-time parameters: plain keys overwritten in every node's parameters."""
    for n in graph.nodes:
        for k, v in overrides.items():
            n.params[k] = v


def selected_classes(graph, cfg):
    """Classes of the user-selected tests (numeric prefix, not the shared root): known after the traversal also for lazy graphs."""
    out = {}
    for n in graph.nodes:
        if n.is_shared_root() or n.is_flat():
            continue
        if re.fullmatch(r"\d+", n.prefix) and "object_root" not in n.params:
            out.setdefault(ckey(n), []).append(n)
    return out


# ------------------------------------------------------------------ one scenario

def run_scenario(graph, sc, trace=False):
    global H
    H = Harness(graph, sc)
    overrides = {"test_timeout": "1000" if any(f["status"] == "NOREPORT" for f in fail_list(sc)) else "100"}
    overrides.update(sc.get("params") or {})
    apply_params(graph, overrides)
    TestWorker._session_cache = {}
    runner = TestRunner()
    job = mock.MagicMock()
    job.logdir, job.timeout = _TMP, 6000
    job.result = mock.MagicMock()
    job.result.tests = []
    job.config = {"param_dict": {}, "vm_strs": dict(VM_STRS), "tests_str": ""}
    runner.job = job
    runner.status_server = job
    graph.runner = runner
    loop = VirtualLoop()
    H.loop = loop
    asyncio.set_event_loop(loop)
    workers = sorted(graph.workers.values(), key=lambda w: w.params["name"])
    outcome = {"terminated": True, "exception": None}

    async def main():
        await asyncio.gather(*[graph.traverse_object_trees(w, dict(overrides)) for w in workers])

    with mock.patch.object(nodemod, "door", PoolDoor), mock.patch.object(TestRunner, "run_test_task", fake_run_test_task), \
            mock.patch.object(workermod.remote, "wait_for_login", fake_wait_for_login):
        try:
            loop.run_until_complete(main())
        except Livelock as error:
            outcome = {"terminated": False, "exception": "Livelock: " + str(error), "kind": "livelock"}
        except BaseException as error:  # noqa: B902 - judged by the oracle
            tb = traceback.extract_tb(error.__traceback__)
            where = next((f"{os.path.basename(f.filename)}:{f.name}" for f in reversed(tb) if "avocado_i2n" in f.filename), "?")
            outcome = {"terminated": False, "exception": f"{type(error).__name__}: {str(error)[:300]}", "kind": "exception",
                       "etype": type(error).__name__, "where": where, "tb": traceback.format_exc()[-1500:] if trace else None}
    outcome["vtime"], outcome["steps"] = round(loop.vtime, 3), loop.steps
    try:
        for task in asyncio.all_tasks(loop):
            task.cancel()
        loop.close()
    except Exception:  # noqa: B902
        pass
    return judge(graph, sc, outcome, job, overrides)


# ------------------------------------------------------------------ oracles

def describe(ex):
    return {"t0": ex["t0"], "t1": ex["t1"], "worker": ex["worker"], "test": short(ex["ckey"]), "try": ex["try"], "status": ex["status"]}


def judge(graph, sc, outcome, job, overrides):
    fails = []

    def fail(ob, cls, observed, expected):
        fails.append({"obligation": ob, "input": sc, "observed": observed, "expected": expected, "class": cls})

    execs, door = H.execs, H.door
    dry = overrides.get("dry_run") == "yes"
    pool_scope_default = overrides.get("pool_scope", "own swarm cluster shared")

    # ---- C02_terminates
    if not outcome["terminated"]:
        if outcome.get("kind") == "livelock":
            fail("C02_terminates", "livelock", outcome["exception"], "all workers return to the shared root in a bounded number of steps")
        else:
            fail("C02_terminates", f"exception_{outcome['etype']}_{outcome['where']}", outcome["exception"], "no traversal error")
    running_at_end = [e for e in execs if e["seq1"] is None]

    # ---- C01 / C08 at every test start
    for ex in execs:
        for cls, info in ex["problems"]:
            fail("C08_own_worker_only", cls, dict(describe(ex), detail=info), "a test runs on the worker it was parsed for, with its connection parameters")
        for need in ex["needs"]:
            item = [need["obj"], need["state"]]
            prod = need["producer"]
            before = [e for e in execs if e["seq1"] is not None and e["seq1"] < ex["seq0"]]
            attempts = [e for e in before if prod is not None and (e["ckey"] == prod or (need["producer_root"] and e["creation"]
                        and need["obj"] in (e["obj_root"].split("-")[0], *[s[0] for s in e["sets"]])))]
            if not need["ok"]:
                excused = any(e["status"] != "PASS" for e in attempts)
                later_pass = [e for e in execs if e["ckey"] == prod and e["status"] == "PASS" and e["seq1"] is not None and e["seq1"] > ex["seq0"]
                              and scope_of(e["pool_scope"], e["worker"]) == scope_of(ex["pool_scope"], ex["worker"])]
                if excused and later_pass and STRICT_C01:
                    # opt-in diagnostic (VERIF_STRICT_C01=1), NOT an obligation: a stricter reading of the exception clause ("did not
                    # pass" = did not pass at all in this run).  The unchanged tree does this by design when a concurrent try of the
                    # producer is still running, so it is only used to compare a mutant against the unchanged tree.
                    running = [e for e in later_pass if e["seq0"] < ex["seq0"]]
                    fail("C01x_not_between_producer_tries", "started_while_producer_try_running" if running else "started_before_producer_retry",
                         dict(describe(ex), required=item, producer=short(prod), producer_attempts=[describe(e) for e in attempts],
                              passing_attempt=describe(later_pass[0])),
                         "a test does not start without its state while its producing test still passes later in the same run")
                if not excused:
                    removed = [r for r in door if r["action"] == "unset" and r["seq"] < ex["seq0"] and item in r.get("removed", [])]
                    produced_by = sorted({e["worker"] for e in attempts if e["status"] == "PASS" and e["ckey"] == prod})
                    holders = need["holders"]
                    permitted_scope = ex["pool_scope"].split()
                    listed_holder = [h for h in holders if (h == "shared" and any(s.startswith(":") for s in need["sources"]))
                                     or any(s.startswith(h + ":") for s in need["sources"])]
                    if listed_holder:
                        cls = "listed_source_outside_pool_scope"
                    elif holders and produced_by:
                        cls = "produced_elsewhere_not_listed"
                    elif holders:
                        cls = "finished_elsewhere_own_pool" if all(h != "shared" for h in holders) else "present_shared_not_listed"
                    elif removed:
                        cls = "removed_before_use"
                    else:
                        cls = "never_produced"
                    fail("C01_required_state_available", cls,
                         dict(describe(ex), required=item, get_location=need["sources"], pool_scope=permitted_scope, holders=holders,
                              producer=short(prod) if prod else None, producer_attempts=[describe(e) for e in attempts]),
                         "the state exists in the worker's own pool or in a listed, permitted source when the test starts")
            # sources named == producers (C08)
            if prod is None:
                continue
            named = sorted({s.split(":")[0] for s in need["sources"] if s.split(":")[0]})
            producers = sorted({e["worker"] for e in attempts if e["status"] == "PASS" and e["ckey"] == prod})
            holding = [w for w in producers if w in need["holders"]]
            extra = [w for w in named if w not in producers]
            missing = [w for w in holding if w not in named]
            obs = dict(describe(ex), required=item, get_location=need["sources"], producers=producers, holders=need["holders"])
            if extra:
                fail("C08_sources_are_producers", "names_non_producer", obs, "only workers with a passing result of the producing test are named")
            if missing:
                fail("C08_sources_are_producers", "producer_not_named", obs, "every worker that produced the state before this start is named")
            shared = ":" + ex["params"].get("shared_pool", overrides.get("shared_pool", "/mnt/local/images/shared"))
            if shared not in need["sources"]:
                fail("C08_sources_are_producers", "shared_pool_not_named", obs, "the shared pool is a source")
            for w in named:
                worker = graph.workers.get(w)
                lacking = [k for k, v in (worker.params.items() if worker else []) if k.startswith("nets_") and ex["params"].get(f"{k}_{w}") != v]
                if worker is None or lacking:
                    fail("C08_sources_are_producers", "access_params_missing", dict(obs, lacking=lacking[:5]), "access parameters of every named worker")
    for req in door:
        if req["session_worker"] != req["worker"] or req["worker"] not in graph.workers:
            fail("C08_own_worker_only", "door_request_foreign_session", {k: req[k] for k in ("t", "action", "worker", "session_worker", "ckey")},
                 "state requests of a node go through its own worker")

    # ---- C02_every_selected_test_reported
    if outcome["terminated"]:
        if dry:
            if execs:
                fail("C02_every_selected_test_reported", "dry_run_executed", [describe(e) for e in execs[:5]], "nothing is executed in a dry run")
            changed = [r for r in door if r["action"] in ("unset", "get", "set")]
            if changed or {k: sorted(v) for k, v in H.pool.items()} != H.initial_pool:
                fail("C02_every_selected_test_reported", "dry_run_state_changed", [{k: r[k] for k in ("t", "action", "worker", "ckey")} for r in changed[:5]],
                     "no state is changed in a dry run")
        else:
            for key, nodes in sorted(selected_classes(graph, sc).items()):
                done = [e for e in execs if e["ckey"] == key]
                results = [r for n in nodes for r in n.results]
                statuses = [r["status"] for r in results]
                if all(len(n.cloned_nodes) > 0 for n in nodes):
                    continue
                if not done:
                    fail("C02_every_selected_test_reported", "selected_test_never_executed", {"test": short(key), "results": statuses},
                         "every selected test compatible with a worker is executed at least once")
                elif not any(s in DEFINITE for s in statuses):
                    fail("C02_every_selected_test_reported", "no_definite_status", {"test": short(key), "results": statuses},
                         "a definite status is recorded")
            pending = sorted({short(ckey(n)) for n in graph.nodes if not n.is_flat() for r in n.results if r["status"] not in DEFINITE})
            if pending:
                fail("C02_every_selected_test_reported", "unknown_result_left", pending, "no pending status is left after the run")
            if running_at_end:
                fail("C02_every_selected_test_reported", "test_running_at_end", [describe(e) for e in running_at_end], "no test is running when the run ends")

    # ---- C03_run_count
    unset_items = [(r["seq"], tuple(i)) for r in door if r["action"] == "unset" for i in r.get("removed", [])]
    groups = {}
    for ex in execs:
        if ex["flat"] or ex["clone_source"]:
            fail("C03_run_count", "flat_test_executed" if ex["flat"] else "clone_source_executed", describe(ex), "clone sources and flat tests are never executed")
        groups.setdefault((ex["ckey"], scope_of(ex["pool_scope"], ex["worker"])), []).append(ex)
    creation_runs = {}
    for (key, scope), group in groups.items():
        if group[0]["creation"]:
            creation_runs.setdefault((group[0]["obj_root"], scope), {})["install" if group[0]["ckey"].startswith("original.") else "pre"] = len(group)
    for (key, scope), group in sorted(groups.items()):
        tries = max(1, int(group[0]["max_tries"] or 1))
        produced = {tuple(s) for e in group for s in e["sets"]}
        recreated = any(item in produced and group[0]["seq0"] < seq < group[-1]["seq0"] for seq, item in unset_items)
        if len(group) > tries and not recreated:
            cls = "more_runs_than_max_tries"
            if group[0]["creation"]:
                # the two-step object creation: told apart because the mechanisms differ (see the report)
                both = creation_runs.get((group[0]["obj_root"], scope), {})
                cls = "creation_install_over_budget" if both.get("install", 0) > tries else "creation_prestep_over_budget"
            fail("C03_run_count", cls, {"test": short(key), "scope": scope, "max_tries": tries, "runs": [describe(e) for e in group]},
                 f"at most {tries} execution(s) per reuse scope")
    first_exam = {}
    for req in door:
        if req["action"] == "check":
            first_exam.setdefault((req["ckey"], scope_of(req["pool_scope"], req["worker"])), req)
    for (key, scope), req in sorted(first_exam.items()):
        if req["result"] != "present":
            continue
        items = {(s["obj"], s["state"]) for s in req["states"]}
        later = [e for e in groups.get((key, scope), []) if e["seq0"] > req["seq"]]
        if later and not any(item in items and req["seq"] < seq < later[0]["seq0"] for seq, item in unset_items):
            fail("C03_run_count", "executed_although_states_found", {"test": short(key), "scope": scope, "found_at": req["t"], "by": req["worker"],
                                                                      "runs": [describe(e) for e in later]},
                 "a setup test whose states are all found when first examined is not executed in that scope")

    # ---- C04_concurrency_bound
    def conc_class(e):
        return "create:" + (e["obj_root"].split("-")[0] or next((s[0] for s in e["sets"]), "?")) if e["creation"] else e["ckey"]
    if True:
        for ex in execs:
            open_now = [e for e in execs if e is not ex and e["seq0"] < ex["seq0"] and (e["seq1"] is None or e["seq1"] > ex["seq0"])]
            same_node = [e for e in open_now if e["nid"] == ex["nid"]]
            if same_node:
                fail("C04_concurrency_bound", "same_node_twice", [describe(e) for e in same_node + [ex]], "never two executions of the same node at once")
            scope = scope_of(ex["pool_scope"], ex["worker"])
            peers = {e["worker"] for e in open_now if conc_class(e) == conc_class(ex) and scope_of(e["pool_scope"], e["worker"]) == scope}
            peers.add(ex["worker"])
            limit = ex["max_concurrent_tries"] if ex["max_concurrent_tries"] not in (None, "") else (ex["max_tries"] or 1)
            limit = max(1, int(limit))
            if len(peers) > limit:
                fail("C04_concurrency_bound", "too_many_concurrent_workers",
                     {"test": short(ex["ckey"]), "limit": limit, "scope": scope,
                      "running": [describe(e) for e in open_now if conc_class(e) == conc_class(ex)] + [describe(ex)]},
                     f"at most {limit} worker(s) of a reuse scope execute the test at any instant")

    # ---- C05_cleanup_not_before_dependants
    modes = {}
    for n in graph.nodes:
        if n.is_flat():
            continue
        for o, s in stateful_objects(n, "set"):
            modes[(ckey(n), o.long_suffix, s)] = o.object_typed_params(n.params).get("unset_mode", "ri")
    for req in door:
        if req["action"] != "unset":
            continue
        info = {k: req[k] for k in ("t", "worker", "ckey")}
        info["test"] = short(info.pop("ckey"))
        for st in req["states"]:
            item = [st["obj"], st["state"]]
            mode = modes.get((req["ckey"], st["obj"], st["state"]))
            if mode is None or mode[:1] != "f":
                fail("C05_cleanup_not_before_dependants", "unset_not_asked", dict(info, state=item, unset_mode=mode), "only states marked for removal (unset_mode f.) are removed")
                continue
            for ex in execs:     # the request itself always says pool_scope=own: the reuse scope is that of the run's setting
                if not any(n["obj"] == st["obj"] and n["state"] == st["state"] and n["producer"] == req["ckey"] for n in ex["needs"]):
                    continue
                if scope_of(pool_scope_default, ex["worker"]) != scope_of(pool_scope_default, req["worker"]):
                    continue
                if ex["seq0"] < req["seq"] and (ex["seq1"] is None or ex["seq1"] > req["seq"]):
                    fail("C05_cleanup_not_before_dependants", "unset_while_dependant_running", dict(info, state=item, dependant=describe(ex)),
                         "a state is never removed while a dependant is running")
                elif ex["seq0"] > req["seq"]:
                    again = [e for e in execs if e["ckey"] == req["ckey"] and e["status"] == "PASS" and e["seq1"] is not None
                             and req["seq"] < e["seq1"] < ex["seq0"]]
                    if not again:
                        fail("C05_cleanup_not_before_dependants", "unset_while_dependant_pending", dict(info, state=item, dependant=describe(ex)),
                             "a state is removed only after every test depending on it has finished")
    needs = [n for e in execs for n in e["needs"]]
    summary = {"executions": len(execs), "terminated": outcome["terminated"], "vtime": outcome["vtime"], "steps": outcome["steps"],
               "unsets": len([r for r in door if r["action"] == "unset"]), "checks": len([r for r in door if r["action"] == "check"]),
               "needs": len(needs), "needs_with_worker_source": len([n for n in needs if any(not s.startswith(":") for s in n["sources"])]),
               "needs_from_other_worker": len([n for n in needs if n["ok"] and n["where"] not in ("shared",) and any(
                   e["worker"] != n["where"] for e in execs if n in e["needs"])]),
               "overlaps": len([e for e in execs if any(o is not e and o["seq0"] < e["seq0"] and (o["seq1"] is None or o["seq1"] > e["seq0"])
                                                        for o in execs)]),
               "retries": len([e for e in execs if e["try"] > 0]), "non_pass": len([e for e in execs if e["status"] != "PASS"])}
    return fails, summary, outcome


# ------------------------------------------------------------------ enumeration

def producible(restr):
    """(object, state) pairs the setup tests of a selection can produce, in setup-chain order (hand-listed for the sample suite,
    cross-checked against the parsed graph at build time)."""
    chain1 = [["image1_vm1", "install"], ["image1_vm1", "customize"]]
    chain2 = [["image1_vm2", "install"], ["image1_vm2", "customize"]]
    if "tutorial1" in restr or "tutorial2" in restr:
        return chain1 + [["vm1", "on_customize"]]
    if "tutorial3" in restr:
        return chain1 + [["image1_vm1", "connect"]] + chain2
    if "tutorial_gui" in restr:
        return chain1 + [["image1_vm1", "linux_virtuser"]] + chain2 + [["image1_vm2", "windows_virtuser"]]
    if "explicit_noop" in restr:
        return chain1 + [["image1_vm1", "connect"], ["image1_vm1", "linux_virtuser"]] + chain2 + \
            [["image1_vm2", "windows_virtuser"], ["image1_vm2", "guisetup.noop"]]
    raise ValueError(restr)


def pools_quick(states, nets):
    workers = nets.split()
    yield {}
    yield {"shared": states}
    for w in workers[:2]:
        yield {w: states}
    for s in states:
        yield {"shared": [s]}
        for w in workers[:2]:
            yield {w: [s]}
    for i in range(2, len(states)):
        yield {"shared": states[:i]}


def pools_thorough(states, nets, rnd, samples=12):
    workers = nets.split()
    seen = []
    for p in pools_quick(states, nets):
        seen.append(p)
        yield p
    places = ["shared"] + workers
    for a, b in itertools.combinations(range(len(states)), 2):
        for pa, pb in itertools.product(places, repeat=2):
            p = {}
            p.setdefault(pa, []).append(states[a])
            p.setdefault(pb, []).append(states[b])
            if p not in seen:
                seen.append(p)
                yield p
    for _ in range(samples):
        p = {}
        for s in states:
            place = rnd.choice([None, None] + places)
            if place:
                p.setdefault(place, []).append(s)
        if p not in seen:
            seen.append(p)
            yield p


DURS_QUICK = [{"pattern": [1], "rot": 0, "woff": [0]}, {"pattern": [1, 2, 5], "rot": 0, "woff": [0, 0.25, 0.5]},
              {"pattern": [1, 2, 5], "rot": 1, "woff": [0.5, 0, 0.25]}, {"pattern": [5, 1, 2], "rot": 2, "woff": [0, 0.05, 0.1]}]
DURS_MORE = DURS_QUICK + [{"pattern": [1, 2, 5], "rot": 2, "woff": [0.25, 0.5, 0]}, {"pattern": [2], "rot": 0, "woff": [0, 1, 2]},
                          {"pattern": [1, 5], "rot": 1, "woff": [0, 0, 0]}, {"pattern": [5, 2, 1], "rot": 0, "woff": [1, 0, 0.5]}]


def fail_specs(keys, statuses=("FAIL", "ERROR"), tries=("first", "all")):
    for key in keys:
        for status in statuses:
            for t in tries:
                yield {"node": key, "status": status, "tries": t}


def retry_settings():
    out = []
    for mt in ("1", "2", "3"):
        for rerun in ("", "fail", "pass"):
            for stop in ("", "fail", "pass"):
                for mct in ((None, "1", "2") if mt != "1" else (None,)):
                    p = {"max_tries": mt}
                    if rerun:
                        p["rerun_status"] = rerun
                    if stop:
                        p["stop_status"] = stop
                    if mct:
                        p["max_concurrent_tries"] = mct
                    out.append(p)
    return out


RETRY_BASE = [{"max_tries": "1"}, {"max_tries": "2"}, {"max_tries": "3", "stop_status": "pass"}, {"max_tries": "3", "rerun_status": "fail"},
              {"max_tries": "2", "max_concurrent_tries": "2"}, {"max_tries": "3"}, {"max_tries": "3", "max_concurrent_tries": "1"},
              {"max_tries": "2", "stop_status": "fail"}, {"max_tries": "2", "rerun_status": "pass"},
              {"max_tries": "3", "rerun_status": "fail", "stop_status": "pass", "max_concurrent_tries": "2"},
              {"max_tries": "2", "max_concurrent_tries": "1"}, {"max_tries": "3", "stop_status": "fail", "max_concurrent_tries": "2"}]
T12, T1, T3, GUI, GET = "normal..tutorial1,normal..tutorial2", "normal..tutorial1", "normal..tutorial3", "leaves..tutorial_gui", \
    "leaves..tutorial_get..explicit_noop"


def enumerate_scenarios(tier, seed, class_keys):
    """List of (cfg, scenario) pairs.  `class_keys(cfg)` gives the test classes of a configuration (from a parsed graph)."""
    rnd = random.Random(seed)
    thorough = tier != "quick"
    durs = DURS_MORE if thorough else DURS_QUICK
    out = []

    def add(restr, nets, lazy=False, pool=None, dur=None, fail=None, params=None):
        cfg = {"restr": restr, "nets": nets, "lazy": lazy}
        sc = dict(cfg, pool=pool or {}, dur=dur or durs[1], fail=fail, params=params or {})
        out.append((cfg, sc))

    # A: initial pools x durations, no failure, default settings (C01/C03/C08 core)
    #    (selection, workers, number of duration settings quick/thorough, complete pairs of states in the thorough tier)
    plan_a = [(T12, "net1", 0, 1, True), (T12, "net1 net2", 3, 8, True), (T12, "net1 net2 net3", 2, 4, True), (T1, "net1 net2", 1, 4, True),
              (T3, "net1 net2", 1, 4, True), (GUI, "net1 net2", 1, 3, True), (GUI, "net1 net2 net3", 0, 3, False), (GET, "net1 net2", 1, 2, True)]
    for restr, nets, nq, nt, pairs in plan_a:
        states = producible(restr)
        pools = list(pools_thorough(states, nets, rnd) if thorough and pairs else pools_quick(states, nets))
        if not thorough and restr in (GUI, GET):
            pools = pools[:4] + pools[4::2]          # every second single-state population for the large selections
        for i, pool in enumerate(pools):
            for dur in (durs[:nt] if thorough else [durs[(1 + i + j) % 4] for j in range(nq)]):
                add(restr, nets, pool=pool, dur=dur)
    # B: pool scopes x cleanup settings x pools (C05, scope clauses of C03/C04), dry run
    scopes = ["own", "own shared", "shared"] if thorough else ["own", "own shared"]
    for restr, nets in ((T12, "net1 net2"), (T3, "net1 net2"), (GUI, "net1 net2"), (GET, "net1 net2")) + (((T12, "net1 net2 net3"),) if thorough else ()):
        states = producible(restr)
        pools = [{}, {"shared": states}, {"net1": states}, {"shared": states[:2]}, {"net2": states[:1]}]
        for k, pool in enumerate(pools if thorough else pools[:3]):
            for dur in durs[:3] if thorough else [durs[1 + k % 2]]:
                for scope in scopes:
                    add(restr, nets, pool=pool, dur=dur, params={"pool_scope": scope})
                for unset in ({"unset_mode": "fi"}, {"unset_mode_vms": "fi"}, {"unset_mode_images": "fi"}):
                    add(restr, nets, pool=pool, dur=dur, params=unset)
                    if thorough:
                        add(restr, nets, pool=pool, dur=dur, params=dict(unset, pool_scope="own shared"))
                        add(restr, nets, pool=pool, dur=dur, params=dict(unset, max_tries="2"))
                add(restr, nets, pool=pool, dur=dur, params={"dry_run": "yes"})
                if thorough:
                    add(restr, nets, pool=pool, dur=dur, params={"pool_filter": "copy"})
        if not thorough and restr in (T12, GET):
            # removable states while several workers retry the dependants concurrently (the "last worker closes the door" clause)
            for dur in durs[1:]:
                for unset in ({"unset_mode": "fi"}, {"unset_mode_vms": "fi"}):
                    add(restr, nets, pool={}, dur=dur, params=dict(unset, max_tries="2"))
                    add(restr, nets, pool={"shared": states[:2]}, dur=dur, params=dict(unset, max_tries="2", max_concurrent_tries="2"))
    # C: one failing class x retry settings (C02/C03/C04)
    retry = retry_settings()
    #    (selection, workers, retry settings used with EVERY failure spec, failure specs used with EVERY retry setting)
    plan_c = [(T1, "net1 net2", retry if thorough else RETRY_BASE[:4], 99 if thorough else 1),
              (T12, "net1 net2", RETRY_BASE if thorough else RETRY_BASE[1:3], 3 if thorough else 0),
              (T1, "net1", retry[::7] if thorough else RETRY_BASE[1:3], 0)]
    if thorough:
        plan_c += [(T3, "net1 net2", RETRY_BASE[:6], 0), (T12, "net1 net2 net3", RETRY_BASE[:6], 0)]
    else:
        # a test with two setup chains (the second chain is climbed upwards = inverse DFS): first-try failures with retries
        keys = class_keys({"restr": T3, "nets": "net1 net2", "lazy": False})
        for i, f in enumerate(fail_specs(keys, statuses=("FAIL",), tries=("first",))):
            add(T3, "net1 net2", pool=[{}, {"shared": producible(T3)[:1] + producible(T3)[3:4]}][i % 2], dur=durs[1 + i % 2], fail=f,
                params=RETRY_BASE[1 + i % 2])
    for restr, nets, with_all_fails, n_some in plan_c:
        keys = class_keys({"restr": restr, "nets": nets, "lazy": False})
        states = producible(restr)
        fails = [None] + list(fail_specs(keys))
        some = [None] + [f for f in fails[1:] if f["tries"] == "first" and f["status"] == "FAIL"]
        combos = [(f, p) for f in fails for p in with_all_fails] + [(f, p) for f in some[:n_some] for p in retry if p not in with_all_fails]
        for i, (f, p) in enumerate(combos):
            creation = f is not None and f["node"].startswith(("internal.stateless", "original"))
            pool = {} if creation else [{}, {"shared": states[:1]}, {"shared": states}][i % 3]
            add(restr, nets, pool=pool, dur=durs[1 + i % 2], fail=f, params=p)
        norep = list(fail_specs(keys, statuses=("NOREPORT",)))
        for i, f in enumerate(norep if thorough else norep[2::4]):
            add(restr, nets, pool={}, dur=durs[1], fail=f, params=[{"max_tries": "1"}, {"max_tries": "2"}][i % 2])
    # C2: two failing steps of one object creation: the install fails on its first try and the pre-step on its second execution
    for nets in ("net1", "net1 net2"):
        for mt in ("2", "3") if thorough else ("3",):
            for status in ("FAIL", "ERROR") if thorough else ("FAIL",):
                for k, dur in enumerate(durs[:2]):
                    add(T1, nets, dur=dur, params={"max_tries": mt}, fail=[
                        {"node": _INSTALL + "vm1", "status": status, "tries": "first"},
                        {"node": "internal.stateless.noop.vm1", "status": status, "tries": [1] if k == 0 else [1, 2]}])
    # D: lazily expanded graphs (parsing interleaved with the traversal), incl. a worker excluded by its restrictions
    lazy_cases = [(T12, "net1 net2"), (T1, "net1 net5")] + ([(T3, "net1 net2"), (GUI, "net1 net2"), (T12, "net1 net2 net3")] if thorough else [])
    for restr, nets in lazy_cases:
        states = producible(restr)
        pools = [{}, {"shared": states}, {"net1": states}, {"net2": states}, {"shared": states[:2]}]
        for i, pool in enumerate(pools if thorough else (pools[:4] if "net5" not in nets else pools[:2])):
            for dur in (durs[1:3] if thorough else [durs[1 + i % 2]]):
                add(restr, nets, lazy=True, pool=pool, dur=dur)
        add(restr, nets, lazy=True, params={"unset_mode": "fi"})
        if thorough or "net5" not in nets:
            add(restr, nets, lazy=True, params={"max_tries": "2"})
        keys = class_keys({"restr": restr, "nets": "net1 net2", "lazy": False})
        lazy_fails = list(fail_specs(keys, statuses=("FAIL",)))
        for f in lazy_fails[:6] if thorough else (lazy_fails[:6:2] if "net5" not in nets else lazy_fails[4:5]):
            add(restr, nets, lazy=True, fail=f, params={"max_tries": "2"})
    if thorough:
        # E: seeded random points of the full product
        everything = [(T12, "net1 net2"), (T12, "net1 net2 net3"), (T1, "net1 net2"), (T3, "net1 net2"), (GUI, "net1 net2"), (GET, "net1 net2")]
        for _ in range(RANDOM_POINTS):
            restr, nets = rnd.choice(everything)
            states = producible(restr)
            places = ["shared"] + nets.split()
            pool = {}
            for s in states:
                place = rnd.choice([None, None, None] + places)
                if place:
                    pool.setdefault(place, []).append(s)
            dur = {"pattern": rnd.choice([[1, 2, 5], [5, 1, 2], [1], [2, 5], [1, 1, 5]]), "rot": rnd.randrange(3),
                   "woff": [rnd.choice([0, 0.05, 0.25, 0.5, 1]) for _ in range(3)]}
            p = {}
            if rnd.random() < 0.5:
                p["max_tries"] = rnd.choice(["1", "2", "3"])
                if rnd.random() < 0.4:
                    p["rerun_status"] = rnd.choice(["fail", "pass", "error"])
                if rnd.random() < 0.4:
                    p["stop_status"] = rnd.choice(["fail", "pass", "error"])
                if p["max_tries"] != "1" and rnd.random() < 0.5:
                    p["max_concurrent_tries"] = rnd.choice(["1", "2"])
            if rnd.random() < 0.3:
                p["pool_scope"] = rnd.choice(["own", "own shared", "own swarm shared"])
            if rnd.random() < 0.3:
                p.update(rnd.choice([{"unset_mode": "fi"}, {"unset_mode_vms": "fi"}, {"unset_mode_images": "fi"}]))
            f = None
            if rnd.random() < 0.5:
                keys = class_keys({"restr": restr, "nets": nets, "lazy": False})
                f = {"node": rnd.choice(keys), "status": rnd.choice(["FAIL", "ERROR", "FAIL", "ERROR", "NOREPORT"]), "tries": rnd.choice(["first", "all"])}
            add(restr, nets, pool=pool, dur=dur, fail=f, params=p)
    return out


# ------------------------------------------------------------------ execution: one build per shard, one fork per scenario

def run_forked(graph, sc, timeout=180):
    """Run one scenario in a forked child (the parsed graph is inherited copy-on-write and mutated only there)."""
    path = os.path.join(_TMP, f"res_{os.getpid()}.json")
    pid = os.fork()
    if pid == 0:
        code = 0
        try:
            fails, summary, _ = run_scenario(graph, sc)
            with open(path, "w") as fh:
                json.dump({"fails": fails, "summary": summary}, fh, default=str)
        except BaseException:  # noqa: B902
            with open(path, "w") as fh:
                json.dump({"harness_error": traceback.format_exc()[-2000:]}, fh)
            code = 3
        finally:
            os._exit(code)
    t0 = time.time()
    while True:
        done, _ = os.waitpid(pid, os.WNOHANG)
        if done:
            break
        if time.time() - t0 > timeout:
            os.kill(pid, 9)
            os.waitpid(pid, 0)
            return {"harness_error": "scenario timed out (wall)"}
        time.sleep(0.002)
    try:
        with open(path) as fh:
            return json.load(fh)
    except Exception as error:  # noqa: B902
        return {"harness_error": f"no result: {error!r}"}


def run_shard(args):
    cfg, scenarios, deadline = args
    out = {"done": 0, "total": len(scenarios), "nontrivial": 0, "fails": [], "counts": {}, "harness_errors": [], "build_s": 0.0, "cfg": cfg, "coverage": {}}
    if time.time() > deadline:
        return out
    t0 = time.time()
    try:
        graph = build_graph(cfg)
    except BaseException:  # noqa: B902
        out["harness_errors"].append("build failed: " + traceback.format_exc()[-1500:])
        return out
    out["build_s"] = round(time.time() - t0, 1)
    if not cfg["lazy"]:
        out["harness_errors"] += [{"input": cfg, "error": p} for p in check_tables(graph, cfg)]
    kept = {}
    for sc in scenarios:
        if time.time() > deadline:
            break
        res = run_forked(graph, sc)
        out["done"] += 1
        if "harness_error" in res:
            out["harness_errors"].append({"input": sc, "error": res["harness_error"]})
            continue
        if res["summary"]["executions"] > 0:
            out["nontrivial"] += 1
        for k, v in res["summary"].items():
            if isinstance(v, (int, float)) and not isinstance(v, bool):
                out["coverage"]["scenarios_with_" + k] = out["coverage"].get("scenarios_with_" + k, 0) + (1 if v else 0)
                if k in ("executions", "unsets", "checks", "needs", "needs_with_worker_source", "needs_from_other_worker", "overlaps", "retries"):
                    out["coverage"]["total_" + k] = out["coverage"].get("total_" + k, 0) + v
        for f in res["fails"]:
            k = f["obligation"] + "/" + f["class"]
            out["counts"][k] = out["counts"].get(k, 0) + 1
            kept.setdefault(k, [])
            if len(kept[k]) < 3:
                kept[k].append(f)
    out["fails"] = [f for fs in kept.values() for f in fs]
    return out


_INSTALL = "original.unattended_install.cdrom.extra_cdrom_ks.default_install.aio_threads."
CLASS_KEYS = {   # test classes per selection incl. the creation pre-step; checked against the parsed graph in run_shard
    T1: ["internal.automated.customize.vm1", "internal.automated.on_customize.vm1", "normal.nongui.quicktest.tutorial1.vm1", _INSTALL + "vm1",
         "internal.stateless.noop.vm1"],
    T12: ["internal.automated.customize.vm1", "internal.automated.on_customize.vm1", "normal.nongui.quicktest.tutorial1.vm1",
          "normal.nongui.quicktest.tutorial2.files.vm1", _INSTALL + "vm1", "internal.stateless.noop.vm1"],
    T3: ["internal.automated.connect.vm1", "internal.automated.customize.vm1", "internal.automated.customize.vm2", "normal.nongui.tutorial3.vm1.vm2",
         _INSTALL + "vm1", _INSTALL + "vm2", "internal.stateless.noop.vm1", "internal.stateless.noop.vm2"],
    GUI: ["internal.automated.customize.vm1", "internal.automated.customize.vm2", "internal.automated.linux_virtuser.vm1",
          "internal.automated.windows_virtuser.vm2", "leaves.tutorial_gui.client_clicked.vm1.vm2", "leaves.tutorial_gui.client_noop.vm1.vm2",
          _INSTALL + "vm1", _INSTALL + "vm2", "internal.stateless.noop.vm1", "internal.stateless.noop.vm2"],
    GET: ["internal.automated.connect.vm1", "internal.automated.customize.vm1", "internal.automated.customize.vm2", "internal.automated.linux_virtuser.vm1",
          "internal.automated.windows_virtuser.vm2", "leaves.tutorial_get.explicit_noop.vm1.vm2.vm3", _INSTALL + "vm1", _INSTALL + "vm2",
          "tutorial_gui.client_noop.vm1.vm2", "internal.stateless.noop.vm1", "internal.stateless.noop.vm2"],
}


def class_keys(cfg):
    return CLASS_KEYS[cfg["restr"]]


def check_tables(graph, cfg):
    """The hand-written tables (test classes, producible states) must agree with the parsed graph."""
    keys = sorted({ckey(n) for n in graph.nodes if not n.is_flat()})
    keys += sorted({"internal.stateless.noop." + key.rsplit(".", 1)[1] for key in keys if key.startswith("original.")})
    selected = set(selected_classes(graph, cfg))
    states = sorted({(o.long_suffix, st) for n in graph.nodes if not n.is_flat() and ckey(n) not in selected for o, st in stateful_objects(n, "set")})
    problems = []
    if sorted(keys) != sorted(CLASS_KEYS[cfg["restr"]]):
        problems.append(f"class keys of {cfg['restr']}: graph {sorted(keys)} != table {sorted(CLASS_KEYS[cfg['restr']])}")
    if states != sorted(tuple(x) for x in producible(cfg["restr"])):
        problems.append(f"producible states of {cfg['restr']}: graph {states} != table {producible(cfg['restr'])}")
    return problems


def replay(sc):
    cfg = {"restr": sc["restr"], "nets": sc["nets"], "lazy": sc.get("lazy", False)}
    graph = build_graph(cfg)
    fails, summary, outcome = run_scenario(graph, sc, trace=True)
    print("scenario:", json.dumps(sc))
    print("initial pool:", json.dumps(H.initial_pool))
    print("trace (virtual time, event):")
    for kind, ev in H.events:
        if kind == "start":
            needs = ", ".join(f"{n['obj']}:{n['state']}{'' if n['ok'] else ' MISSING'} from {n['where']} (listed {n['sources']})" for n in ev["needs"])
            print(f"  {ev['t0']:9.2f}  {ev['worker']:5s} START {short(ev['ckey'])} try {ev['try']} dur {ev['dur']}" + (f"  needs {needs}" if needs else ""))
        elif kind == "end":
            print(f"  {ev['t1']:9.2f}  {ev['worker']:5s} END   {short(ev['ckey'])} -> {ev['status']}" + (f" ({ev['aborted']})" if ev.get("aborted") else "")
                  + (f"  saves {ev['sets']}" if ev["status"] == "PASS" and ev["sets"] else ""))
        else:
            print(f"  {ev['t']:9.2f}  {str(ev['worker']):5s} DOOR  {ev['action']} {short(ev['ckey'])} {[s['obj'] + ':' + s['state'] for s in ev['states']]} -> {ev['result']}"
                  + (f" removed {ev['removed']}" if ev.get("removed") else ""))
    print("final pool:", json.dumps({k: sorted(v) for k, v in H.pool.items()}))
    print("outcome:", json.dumps({k: v for k, v in outcome.items() if k != "tb"}), json.dumps(summary))
    if outcome.get("tb"):
        print(outcome["tb"])
    for f in fails:
        print("FAILURE", f["obligation"], "/", f["class"], json.dumps(f["observed"], default=str)[:1200])
    print("REPLAY-RESULT " + json.dumps({"ok": not fails, "failures": [{"obligation": f["obligation"], "class": f["class"]} for f in fails]}))
    return 1 if fails else 0


def main():
    if "--replay" in sys.argv:
        return replay(json.loads(sys.argv[sys.argv.index("--replay") + 1]))
    import multiprocessing
    tier = os.environ.get("VERIF_TIER", "quick")
    seed = int(os.environ.get("VERIF_SEED", "0") or 0)
    jobs = int(os.environ.get("VERIF_JOBS", "8") or 8)
    budget = float(os.environ.get("VERIF_BUDGET", "100" if tier == "quick" else "1000"))
    t0 = time.time()
    deadline = t0 + budget
    pairs = enumerate_scenarios(tier, seed, class_keys)
    by_cfg = {}
    for cfg, sc in pairs:
        by_cfg.setdefault(json.dumps(cfg, sort_keys=True), []).append(sc)
    # shards: a configuration is split so that no shard is much longer than the average load per process
    cost = lambda cfg, n: n * (3.0 if cfg["lazy"] else 0.4) + 6.0  # noqa: E731 - rough CPU seconds (scenarios + one graph build)
    total = sum(cost(json.loads(k), len(v)) for k, v in by_cfg.items())
    target = max(20.0, total / (jobs * 2))
    shards = []
    for k, scs in by_cfg.items():
        cfg = json.loads(k)
        random.Random(seed).shuffle(scs)          # a budget cut drops a uniform part of every slice, not the last slices
        parts = max(1, int(round(cost(cfg, len(scs)) / target)))
        for i in range(parts):
            shards.append((cfg, scs[i::parts], deadline))
    shards.sort(key=lambda s: -cost(s[0], len(s[1])))
    ctx = multiprocessing.get_context("fork")
    results = []
    with ctx.Pool(jobs, maxtasksperchild=1) as pool:
        for res in pool.imap_unordered(run_shard, shards, chunksize=1):
            results.append(res)
    cases = sum(r["done"] for r in results)
    planned = sum(r["total"] for r in results)
    counts, failures, harness_errors = {}, [], []
    per = {}
    for r in results:
        harness_errors += r["harness_errors"]
        for k, n in r["counts"].items():
            counts[k] = counts.get(k, 0) + n
        for f in r["fails"]:
            k = f["obligation"] + "/" + f["class"]
            per.setdefault(k, [])
            if len(per[k]) < 4:
                per[k].append(f)
    coverage = {}
    for r in results:
        for k, v in r["coverage"].items():
            coverage[k] = coverage.get(k, 0) + v
    for k in sorted(per):
        per[k].sort(key=lambda f: len(json.dumps(f["input"])))
        failures += per[k]
    for e in harness_errors[:5]:
        failures.append({"obligation": "harness_error", "input": e.get("input") if isinstance(e, dict) else None,
                         "observed": e.get("error") if isinstance(e, dict) else e, "expected": "scenario evaluates", "class": "harness"})
    samples = [sc for _, sc in pairs[::max(1, len(pairs) // 6)]][:6]
    res = {
        "name": NAME, "obligations": {ob: {"cases": cases} for ob in OBLIGATIONS}, "cases": cases,
        "distinct_nontrivial": sum(r["nontrivial"] for r in results),
        "rule": "systematic slices of the stated product (A pools x durations; B pool scopes / cleanup settings / dry run x pools x durations; "
                "C one failing class x retry settings; D lazily expanded graphs)"
                + ("" if tier == "quick" else f" plus {RANDOM_POINTS} seeded random points of the full product")
                + "; every scenario is one complete multi-worker traversal; nontrivial = at least one test was executed",
        "bound": f"tier={tier}: {cases}/{planned} scenarios; real traversal code under a virtual clock with a stateful fake state pool and test "
                 f"runner; 5 selections of the sample suite (tutorial1, tutorial1+2, tutorial3, tutorial_gui, tutorial_get..explicit_noop; one "
                 f"variant per vm) x workers net1 | net1 net2 | net1 net2 net3 eager, net1 net2 | net1 net5(excluded by restrictions)"
                 f"{'' if tier == 'quick' else ' | net1 net2 net3'} lazy x initial pools (each setup state absent/shared/one own pool: none, all, "
                 f"singles, prefixes{'' if tier == 'quick' else ', all placements of pairs, seeded samples'}) x durations {{1,2,5}} + worker offsets "
                 f"x one failing class (FAIL/ERROR/NOREPORT on first/all tries) x max_tries 1..3 x rerun_status x stop_status x "
                 f"max_concurrent_tries x pool_scope {{default, own, own shared{'' if tier == 'quick' else ', shared'}}} x unset_mode "
                 f"{{default, fi, fi vms, fi images}} x dry_run{'' if tier == 'quick' else ' x pool_filter copy'}, sliced as listed in enumerate_scenarios",
        "exhaustive": bool(cases == planned and not harness_errors), "samples": samples, "failures": failures,
        "failure_counts": dict(sorted(counts.items())), "coverage": {k: coverage[k] for k in sorted(coverage) if "vtime" not in k and "steps" not in k},
        "harness_errors": len(harness_errors), "seconds": round(time.time() - t0, 1),
        "shards": len(shards), "build_seconds": round(sum(r["build_s"] for r in results), 1),
    }
    print("BOUNDED-RESULT " + json.dumps(res, default=str))
    return 0


if __name__ == "__main__":
    sys.exit(main())
