"""Bounded stand-in for C05 (removal only if asked / default filter never copies) and the parameter clauses of C01/C08:
TestNode.sync_states, TestNode.scan_states, TestNode.pull_locations and TestNode.shared_result_worker_ids of
avocado_i2n/cartgraph/node.py against oracles written from the property statements.

Real TestNode/TestObject/TestWorker instances are parsed once from the sample suite (tutorial1, tutorial3, connect on
net1..net4, a three-vm node with the permanent vm3); every case works on a clone (same recipe/objects, copied params
plus an overlay).  `avocado_i2n.cartgraph.node.door` is replaced by a recording fake, so every request crossing the seam
(control path, action, params dict, session) is captured; `worker.get_session` is a stub returning a per-worker token.
The oracle resolves per-object values with its own implementation of the (trusted) Params suffix rule.

Scope (stated bound)
 A sync_states: node shapes {vm1, vm1 with 2 images, vm1+vm2, permanent vm3, vm1+vm2+vm3(permanent)} x state layouts
   {image, vm, both, install, none, net+image, only vm2 image, empty string} x global unset_mode {fi fa ff ri ra rf ai ii
   xx '' unset} x one suffixed override (unset_mode_<vm>, _images, _vms, _images_<vm>, _vms_<vm>, _image1_<vm>) x
   pool_filter {reuse block copy bogus '' unset} x pool_scope (all 16 subsets + unset, with copy) x runtime `vms`
   selections x door {ok, ShellCmdError}.  quick: systematic slices of that product (every mode x every filter; one
   override {fi,ri,ai} over global {fi,ri} x {reuse,copy(,bogus)}; all scopes with copy; all selections); thorough: every mode x every override
   x every filter for every layout (about 92k settings, complete unless the time budget is hit, else seeded sample).
   Unrealistic mixes are judged by the "only if" direction alone (f. and r. objects in one node; a permanent install
   next to other states).
 B scan_states: same shapes x state layouts x check_mode {unset, global, per vm} x shared_pool {global, per vm} x fake
   pool populations (all subsets of the checked states up to 3/5 checks, else all/none/one missing) + two error outputs.
 C pull_locations / shared_result_worker_ids: child tutorial3 (vm1, vm2) on net1 (thorough: also net2), 1..2 parents
   (tutorial1, connect) each parsed for net1..net4, bridged or not, edges via {vm1},{vm1,vm2},{net,vm1},{net},
   (vm1|vm2),(vm1|vm1),(net+vm1|vm1+vm2); results lists of length <=2 (thorough <=3; two parents <=1 and <=1, thorough <=2 and <=1) over statuses
   PASS/FAIL/UNKNOWN (thorough +WARN for one parent) x result names of net1, net2, net4 and the unregistered net9; 1..3 workers
   registered in TestSwarm.run_swarms (thorough: also split over two swarms); prefilled get_location; flat node.

Obligations (one clause each)
 A1_unset_only_if_asked       unset request only if a considered object has unset_mode f., names only (for uniform nodes:
                              exactly) unset_state_* of such objects, unset_location ':'+shared_pool, the object's
                              unset_mode, pool_scope 'own'; issued when every considered object asks for it
 A2_default_filter_no_request r. objects only and pool_filter reuse/block/unset: nothing crosses the seam
 A3_copy_is_get_only          pool_filter copy (r. objects): the only request is a 'get' naming get_state/get_location of
                              these objects with a pool_scope that excludes 'own'
 A4_invalid_filter_rejected   other pool_filter values with r. objects -> ValueError (and ValueError only then)
 A5_no_crash_any_setting      no other exception for any setting; objects with other first letters are never named
 A6_node_params_untouched     neither the node's own parameters nor the runtime parameters are altered by a sync
 B1_check_request_exact       check request names exactly check_state/show_location/check_mode of the objects with a state
 B2_scan_verdict              False iff door does not raise, True iff ShellCmdError with AssertionError; leaf -> True, no request
 B3_other_error_runtime       other ShellCmdError -> RuntimeError
 B4_permanent_install_given   install on a permanent object -> False
 B5_no_unexpected_exception   nothing else is raised, node params untouched
 S_own_worker_session         every request uses the session of the node's started worker and pre_state.control
 C0_result_worker_ids_exact   shared_result_worker_ids = registered workers with a visible PASS result
 C1_locations_exact           get_location_<object> = shared pool + '<wid>:<swarm_pool>' exactly for PASS workers
 C2_access_params_copied      nets_* of each named worker copied with suffix _<wid>; nothing for other workers
 C3_idempotent                a second call changes nothing (no token twice)
 C4_unknown_worker_rejected   a worker id that is not registered -> RuntimeError
 C5_no_unexpected_exception   nothing else is raised; flat node untouched
"""
import copy
import itertools
import json
import logging
import os
import random
import sys
import time
import warnings

warnings.filterwarnings("ignore")
sys.path.insert(0, os.environ.get("VERIF_REPO", "/repo"))
logging.disable(logging.CRITICAL)

from unittest import mock  # noqa: E402
from aexpect.exceptions import ShellCmdError  # noqa: E402
from virttest.utils_params import Params  # noqa: E402
import avocado_i2n.cartgraph.node as nodemod  # noqa: E402
from avocado_i2n.cartgraph import TestGraph, TestNode, TestWorker, TestSwarm  # noqa: E402

SHARED = "/mnt/local/images/shared"
VM_RESTRS = {"only_vm1": "CentOS", "only_vm2": "Win10", "only_vm3": "Ubuntu"}
MODES = ["fi", "fa", "ff", "ri", "ra", "rf", "ai", "ii", "xx", "", None]          # None = key removed
FILTERS = ["reuse", "block", "copy", "bogus", "", None]
SCOPES = [" ".join(c) for n in range(5) for c in itertools.combinations(["own", "swarm", "cluster", "shared"], n)] + [None]
LAYOUTS = {"img": {"set_state_images": "s_img"}, "vm": {"set_state_vms": "s_vm"},
           "both": {"set_state_images": "s_img", "set_state_vms": "s_vm"}, "install": {"set_state_images": "install"},
           "leaf": {}, "net+img": {"set_state_nets": "s_net", "set_state_images": "s_img"},
           "vm2only": {"set_state_images_vm2": "s_two"}, "empty": {"set_state_images": "", "set_state_vms": "s_vm"}}
SHAPES = {"vm1": "vm1", "vm1x2": "vm1", "vm1vm2": "vm1", "vm3perm": "vm3", "vm123": "vm2"}   # shape -> vm used in overrides
SELECTIONS = [None, "vm1", "vm2", "vm3", "vm1 vm2", "vm1 vm2 vm3", ""]


class FakeDoor:
    """Recording stand-in of the remote door: control paths are tokens that accumulate the set parameters."""

    DUMP_CONTROL_DIR = "/tmp"

    def __init__(self, behaviour="ok", pool=None):
        self.behaviour, self.pool, self.ctl, self.requests = behaviour, pool, {}, []

    def _derive(self, path, name, value):
        base, settings = self.ctl.get(path, (path, {}))
        token = f"ctl#{len(self.ctl)}"
        self.ctl[token] = (base, dict(settings, **{name: value}))
        return token

    def set_subcontrol_parameter(self, path, name, value):
        return self._derive(path, name, value)

    def set_subcontrol_parameter_dict(self, path, name, value):
        return self._derive(path, name, dict(value))

    def run_subcontrol(self, session, path):
        base, settings = self.ctl.get(path, (path, {}))
        self.requests.append({"path": base, "action": settings.get("action"), "params": settings.get("params"),
                              "session": session, "names": sorted(settings)})
        if self.behaviour == "other_error":
            raise ShellCmdError("cmd", 1, "Traceback: OSError: no space left on device")
        if self.behaviour == "shell_error":
            raise ShellCmdError("cmd", 1, "AssertionError: could not complete")
        if self.behaviour == "pool":       # a state check fails iff a named state is not in the pool
            params = settings.get("params") or {}
            for key, value in params.items():
                if key.startswith("check_state") and (key, value) not in self.pool:
                    raise ShellCmdError("cmd", 1, "Traceback (most recent call last):\nAssertionError: state %s missing" % value)


def resolve(raw, key, chain, default=None):
    """Own implementation of the Params rule: '_name' suffixed keys override suffixless ones, names applied in order."""
    def rec(k, ch):
        if not ch:
            return raw[k] if k in raw else None
        v = rec(k + "_" + ch[-1], ch[:-1])
        return v if v is not None else rec(k, ch[:-1])
    v = rec(key, list(chain))
    return default if v is None else v


def chain_of(obj):
    return [c.suffix for c in obj.composites] + [obj.suffix, obj.key]


BASES = {}
TWINS = {}


def bases():
    """Parse the few real nodes/objects/workers all cases are cloned from (a few seconds)."""
    if BASES:
        return BASES
    import functools
    import avocado_i2n.params_parser as parser_module
    parser_module.all_objects = functools.lru_cache(None)(parser_module.all_objects)   # same answer, parsed once
    graph = TestGraph()
    nets = {n: TestGraph.parse_flat_objects(n, "nets", params=dict(VM_RESTRS), unique=True) for n in ("net1", "net2", "net4")}
    workers = {n: TestWorker(net) for n, net in nets.items()}
    for n, w in workers.items():
        w.params["nets_host"] = "host_of_" + n          # runtime parameter, distinct per worker
        w.session_token = "session-of-" + n
        w.get_session = (lambda tok: (lambda: tok))(w.session_token)
    pd = {"shared_pool": SHARED}
    per_net = {}
    for n, net in nets.items():
        per_net[n] = {r: graph.parse_composite_nodes(r, net, params=pd, unique=True)
                      for r in ("normal..tutorial1", "normal..tutorial3", "nonleaves..connect")}
    full = TestGraph.parse_flat_objects("net1", "nets", unique=True)
    full.update_restrs({"vm1": "only CentOS\n", "vm2": "only Win10\n", "vm3": "only Ubuntu\n"})
    full_net = TestGraph.parse_components_for_object(full, "nets", "", unflatten=True)[-1]
    three = TestGraph.parse_node_from_object(full_net, "normal..tutorial1", params=pd)
    one, two = per_net["net1"]["normal..tutorial1"], per_net["net1"]["normal..tutorial3"]
    image2 = copy.copy(one.objects[2])
    image2.suffix, image2._long_suffix, image2._params_cache = "image2", "image2_vm1", one.objects[2].params.copy()
    extra = {"images_vm1": "image1 image2", "images": "image1 image2", "image_name_image2_vm1": "vm1/second",
             "image_format_image2_vm1": "qcow2"}
    BASES.update({"workers": workers, "per_net": per_net, "shapes": {
        "vm1": (one, list(one.objects), {}), "vm1x2": (one, list(one.objects) + [image2], extra),
        "vm1vm2": (two, list(two.objects), {}),
        "vm3perm": (three, [o for o in three.objects if o.long_suffix in ("net1", "vm3", "image1_vm3")], {}),
        "vm123": (three, list(three.objects), {})}})
    return BASES


def clone(base, objects, overlay, worker):
    node = TestNode("1", base.recipe)
    node._params_cache = base.params.copy()
    for k in [k for k in node._params_cache if k.startswith("set_state")]:
        del node._params_cache[k]
    for k, v in overlay.items():
        if v is None:
            if k in node._params_cache:
                del node._params_cache[k]
        else:
            node._params_cache[k] = v
    node.objects, node.started_worker = list(objects), worker
    return node


def fail(out, obligation, inp, observed, expected, cls):
    out.append({"obligation": obligation, "input": inp, "observed": observed, "expected": expected, "class": cls})


def build_ab(inp):
    b = bases()
    base, objects, extra = b["shapes"][inp["shape"]]
    overlay = dict(extra)
    overlay.update(LAYOUTS[inp["layout"]])
    overlay.update(inp.get("overlay") or {})
    return clone(base, objects, overlay, b["workers"]["net1"]), b["workers"]["net1"]


def exc_class(exc, has_empty_mode):
    if isinstance(exc, KeyError) and exc.args == ("own",):
        return "copy-without-own-in-pool_scope"
    if isinstance(exc, IndexError) and has_empty_mode:
        return "empty-unset_mode"
    if isinstance(exc, AttributeError) and "'list' object has no attribute 'split'" in str(exc):
        return "copy-with-unset-pool_scope"
    return "unexpected-" + type(exc).__name__


# ---------------------------------------------------------------- A: sync_states

def case_sync(inp):
    out = []
    node, worker = build_ab(inp)
    raw = dict(node.params)
    runtime = Params({} if inp.get("vms") is None else {"vms": inp["vms"]})
    selected = None if inp.get("vms") is None else inp["vms"].split()
    f_objs, r_objs, blocked, has_empty_mode = {}, {}, False, False
    for o in node.objects:
        state = resolve(raw, "set_state", chain_of(o))
        if not state:
            continue
        mode = resolve(raw, "unset_mode", chain_of(o), "ri")
        has_empty_mode |= mode == ""
        if mode[:1] not in ("f", "r") or o.key == "nets":
            continue
        vm = o.suffix if o.key == "vms" else o.composites[0].suffix
        if state == "install" and o.is_permanent():
            blocked = True      # externally provided state of a permanent object: never touched
            continue
        if selected is not None and vm not in selected:
            continue
        sfx = f"_{o.key}_{o.suffix}" + (f"_{vm}" if o.key == "images" else "")
        scope = resolve(raw, "pool_scope", chain_of(o))
        (f_objs if mode[0] == "f" else r_objs)[sfx] = {"state": state, "mode": mode, "scope": scope,
                                                       "location": ":" + resolve(raw, "shared_pool", chain_of(o))}
    pfilter = raw.get("pool_filter", "reuse")
    valid_filter = pfilter in ("reuse", "block", "copy")
    door = FakeDoor(inp.get("door", "ok"))
    exc = None
    with mock.patch.object(nodemod, "door", door):
        try:
            node.sync_states(runtime)
        except Exception as error:  # noqa: B902 - judged by the oracle
            exc = error
    reqs = door.requests
    seen = {"exception": repr(exc), "requests": [{"action": r["action"], "keys": {k: v for k, v in (r["params"] or {}).items() if
            k.startswith(("unset_", "get_state", "get_location", "pool_scope"))}} for r in reqs]}
    if exc is not None and not isinstance(exc, ValueError):
        fail(out, "A5_no_crash_any_setting", inp, seen, "no exception", exc_class(exc, has_empty_mode))
        return out
    if isinstance(exc, ValueError) and (valid_filter or not r_objs):
        fail(out, "A4_invalid_filter_rejected", inp, seen, "ValueError only for an invalid pool_filter with r. objects", "spurious-ValueError")
    if exc is None and not valid_filter and r_objs and not f_objs and not blocked:
        fail(out, "A4_invalid_filter_rejected", inp, seen, "ValueError", "invalid-filter-accepted")
    if dict(node.params) != raw or dict(runtime) != ({} if selected is None else {"vms": inp["vms"]}):
        changed = sorted(k for k in set(raw) | set(node.params) if raw.get(k) != node.params.get(k))
        fail(out, "A6_node_params_untouched", inp, changed[:8], "no change", "node-params-altered")
    if len(reqs) > 1:
        fail(out, "A3_copy_is_get_only" if pfilter == "copy" else "A1_unset_only_if_asked", inp, seen, "at most one request", "several-requests")
    for r in reqs:
        params = r["params"] or {}
        if r["session"] != worker.session_token or not str(r["path"]).endswith(os.path.join("controls", "pre_state.control")) \
                or r["names"] != ["action", "params"] or not str(r["path"]).startswith(raw["suite_path"]):
            fail(out, "S_own_worker_session", inp, {"session": r["session"], "path": r["path"], "names": r["names"]},
                 {"session": worker.session_token, "control": "pre_state.control"}, "foreign-session-or-control")
        unset_keys = {k: v for k, v in params.items() if k.startswith("unset_state")}
        get_keys = {k: v for k, v in params.items() if k.startswith("get_state")}
        if r["action"] == "unset":
            want = {"unset_state" + s: d["state"] for s, d in f_objs.items()}
            exact = not r_objs and not blocked
            if not f_objs or not unset_keys or (unset_keys != want if exact else any(want.get(k) != v for k, v in unset_keys.items())):
                fail(out, "A1_unset_only_if_asked", inp, seen, {"unset_states": want},
                     "unset-not-asked" if not f_objs else "unset-names-other-states")
                continue
            for s, d in f_objs.items():
                if "unset_state" + s in unset_keys and (params.get("unset_location" + s) != d["location"] or params.get("unset_mode" + s) != d["mode"]):
                    fail(out, "A1_unset_only_if_asked", inp, seen, {"unset_location" + s: d["location"], "unset_mode" + s: d["mode"]}, "unset-location-or-mode")
            if params.get("pool_scope") != "own":
                fail(out, "A1_unset_only_if_asked", inp, seen, {"pool_scope": "own"}, "unset-scope-not-own")
        elif r["action"] == "get":
            want = {"get_state" + s: d["state"] for s, d in r_objs.items()}
            exact = not f_objs and not blocked
            if pfilter != "copy":
                fail(out, "A2_default_filter_no_request" if valid_filter else "A4_invalid_filter_rejected", inp, seen, "no request", "get-without-copy-filter")
            elif not r_objs or not get_keys or (get_keys != want if exact else any(want.get(k) != v for k, v in get_keys.items())):
                fail(out, "A3_copy_is_get_only", inp, seen, {"get_states": want}, "get-names-other-states")
            else:
                for s, d in r_objs.items():
                    if "get_state" + s not in get_keys:
                        continue
                    # an object without any pool_scope parameter uses the documented default scopes of a sync
                    scope = set((d["scope"] if d["scope"] is not None else "swarm cluster shared").split()) - {"own"}
                    if params.get("get_location" + s) != d["location"] or set(params.get("pool_scope" + s, "own").split()) != scope:
                        fail(out, "A3_copy_is_get_only", inp, seen, {"get_location" + s: d["location"], "pool_scope" + s: sorted(scope)}, "get-location-or-scope")
        else:
            fail(out, "A5_no_crash_any_setting", inp, seen, "unset or get", "unknown-action")
    if not reqs and exc is None and not blocked:
        if f_objs and not r_objs:
            fail(out, "A1_unset_only_if_asked", inp, seen, "one unset request", "asked-unset-not-issued")
        if r_objs and not f_objs and pfilter == "copy":
            fail(out, "A3_copy_is_get_only", inp, seen, "one get request", "copy-get-not-issued")
    if reqs and not f_objs and pfilter in ("reuse", "block") and not any(o["obligation"].startswith("A1") for o in out):
        fail(out, "A2_default_filter_no_request", inp, seen, "no request", "request-with-default-filter")
    return out


def sync_oblig(inp, raw_filter):
    obs = ["A5_no_crash_any_setting", "A6_node_params_untouched", "A1_unset_only_if_asked", "S_own_worker_session"]
    if raw_filter in ("reuse", "block", None):
        obs.append("A2_default_filter_no_request")
    elif raw_filter == "copy":
        obs.append("A3_copy_is_get_only")
    else:
        obs.append("A4_invalid_filter_rejected")
    return obs


# ---------------------------------------------------------------- B: scan_states

def case_scan(inp):
    out = []
    node, worker = build_ab(inp)
    raw = dict(node.params)
    want, permanent_install, given = {}, False, []
    for o in node.objects:
        state = resolve(raw, "set_state", chain_of(o))
        if not state:
            continue
        sfx = f"_{o.key}_{o.long_suffix}"
        if state == "install" and o.is_permanent():
            permanent_install = True
            given.append("check_state" + sfx)
            continue
        want["check_state" + sfx] = state
        want["show_location" + sfx] = ":" + resolve(raw, "shared_pool", chain_of(o))
        want["check_mode" + sfx] = resolve(raw, "check_mode", chain_of(o), "rf")
    checks = sorted((k, v) for k, v in want.items() if k.startswith("check_state"))
    behaviour = inp.get("door", "pool")
    present = [checks[i] for i in inp.get("present", []) if i < len(checks)]
    door = FakeDoor(behaviour, pool=set(present))
    exc = verdict = None
    with mock.patch.object(nodemod, "door", door):
        try:
            verdict = node.scan_states()
        except Exception as error:  # noqa: B902 - judged by the oracle
            exc = error
    reqs = door.requests
    seen = {"exception": repr(exc), "verdict": verdict, "requests": [{"action": r["action"], "keys": {k: v for k, v in (r["params"] or {}).items() if
            k.startswith(("check_", "show_location"))}} for r in reqs]}
    if dict(node.params) != raw:
        fail(out, "B5_no_unexpected_exception", inp, "node params altered", "no change", "node-params-altered")
    if permanent_install:
        # judged only for a truthful door and when no other object of the node carries a state (the shape of real install nodes)
        if not checks and behaviour == "pool" and (exc is not None or verdict is not False):
            fail(out, "B4_permanent_install_given", inp, seen, False, "permanent-install-rescanned")
        if any(k in (r["params"] or {}) for r in reqs for k in given):
            fail(out, "B4_permanent_install_given", inp, seen, "no check of " + " ".join(given), "permanent-install-checked")
        return out
    if not checks:
        if exc is not None or verdict is not True or reqs:
            fail(out, "B2_scan_verdict", inp, seen, {"verdict": True, "requests": 0}, "leaf-scan")
        return out
    if len(reqs) != 1 or reqs[0]["action"] != "check":
        fail(out, "B1_check_request_exact", inp, seen, "one check request", "no-single-check-request")
        return out
    r = reqs[0]
    got = {k: v for k, v in r["params"].items() if k.startswith(("check_state", "check_mode", "show_location"))
           and (k in want or raw.get(k) != v)}        # the node's own (global) parameters are passed along unchanged
    if got != want:
        diff = sorted(k for k in set(got) | set(want) if got.get(k) != want.get(k))
        fail(out, "B1_check_request_exact", inp, {k: got.get(k) for k in diff}, {k: want.get(k) for k in diff},
             "check-" + (diff[0].split("_")[0] + "_" + diff[0].split("_")[1]))
    if r["session"] != worker.session_token or not str(r["path"]).endswith(os.path.join("controls", "pre_state.control")) \
            or r["names"] != ["action", "params"]:
        fail(out, "S_own_worker_session", inp, {"session": r["session"], "path": r["path"]}, worker.session_token, "foreign-session-or-control")
    if behaviour == "other_error":
        if not isinstance(exc, RuntimeError):
            fail(out, "B3_other_error_runtime", inp, seen, "RuntimeError", "control-error-not-raised")
        return out
    if exc is not None:
        fail(out, "B5_no_unexpected_exception", inp, seen, "no exception", "unexpected-" + type(exc).__name__)
        return out
    should_run = behaviour == "shell_error" or any(c not in door.pool for c in checks)
    if verdict is not should_run:
        fail(out, "B2_scan_verdict", inp, seen, should_run, "verdict-inverted" if checks else "leaf-scan")
    return out


# ---------------------------------------------------------------- C: pull_locations / shared_result_worker_ids

EDGES = {"vm1": [["vm1"]], "vm1+vm2": [["vm1", "vm2"]], "net+vm1": [["net", "vm1"]], "net": [["net"]],
         "vm1|vm2": [["vm1"], ["vm2"]], "vm1|vm1": [["vm1"], ["vm1"]], "net+vm1|vm1+vm2": [["net", "vm1"], ["vm1", "vm2"]]}
PARENT_RESTRS = ["normal..tutorial1", "nonleaves..connect"]


def case_pull(inp):
    """inp: child (worker), registered (list of lists = swarms), bridged, edges, results [[ [named, status, holder] ]], prefill, flat"""
    out = []
    b = bases()
    workers, per_net = b["workers"], b["per_net"]
    me = inp.get("child", "net1")
    saved = TestSwarm.run_swarms
    TestSwarm.run_swarms = {f"swarm{i}": TestSwarm(f"swarm{i}", [workers[n] for n in names]) for i, names in enumerate(inp["registered"])}
    registered = [n for names in inp["registered"] for n in names]
    try:
        base_child = per_net[me]["normal..tutorial3"]
        child = clone(base_child, base_child.objects, {"get_location_vm1": inp.get("prefill")}, workers[me])
        objs = {"net": child.objects[0], "vm1": [o for o in child.objects if o.long_suffix == "vm1"][0],
                "vm2": [o for o in child.objects if o.long_suffix == "vm2"][0]}
        edges = EDGES[inp["edges"]]
        passed, parents_of_me = [], []
        for g, comps in enumerate(edges):
            if (g, bool(inp.get("bridged", True))) not in TWINS:     # pull_locations only reads the parents: reuse them
                twins = {n: clone(per_net[n][PARENT_RESTRS[g]], per_net[n][PARENT_RESTRS[g]].objects, {}, None) for n in ("net1", "net2", "net4")}
                if inp.get("bridged", True):
                    for x, y in itertools.combinations(sorted(twins), 2):
                        twins[x].bridge_with_node(twins[y])
                TWINS[(g, bool(inp.get("bridged", True)))] = twins
            twins = TWINS[(g, bool(inp.get("bridged", True)))]
            for twin in twins.values():
                twin.results, twin._cleanup_nodes = [], {}
            visible = set()
            for named, status, holder in (inp["results"][g] if g < len(inp["results"]) else []):
                name = twins[named].params["name"] if named in twins else twins["net1"].params["name"].replace("net1", named)
                holder = named if holder == "named" and named in twins else me      # a replayed result sits on the own node
                twins[holder].results.append({"name": name, "status": status, "time_elapsed": "1"})
                if status == "PASS" and named in registered and (inp.get("bridged", True) or holder == me):
                    visible.add(named)
            for c in comps:
                child.descend_from_node(twins[me], objs[c])
            passed.append(visible)
            parents_of_me.append(twins[me])
            try:
                got_ids = twins[me].shared_result_worker_ids
            except Exception as error:  # noqa: B902
                got_ids = repr(error)
            if got_ids != visible:
                fail(out, "C0_result_worker_ids_exact", inp, sorted(got_ids) if isinstance(got_ids, set) else got_ids, sorted(visible),
                     "worker-without-pass-named" if isinstance(got_ids, set) and got_ids - visible else "pass-worker-missing")
        if inp.get("flat"):
            child.objects = []
        before = dict(child.params)
        want_loc, allowed = {}, set()
        if not inp.get("flat"):
            for comps, ids in zip(edges, passed):
                allowed |= ids
                for c in comps:
                    if c != "net":
                        want_loc.setdefault("get_location_" + objs[c].long_suffix, set()).update(ids)
        swarm_pool = before["swarm_pool"]
        exc = None
        unknown = inp.get("unknown_id")
        try:
            if unknown:
                with mock.patch.object(TestNode, "shared_result_worker_ids", new_callable=mock.PropertyMock) as ids:
                    ids.return_value = {unknown}
                    child.pull_locations()
            else:
                child.pull_locations()
        except Exception as error:  # noqa: B902 - judged by the oracle
            exc = error
        if unknown:
            if not isinstance(exc, RuntimeError):
                fail(out, "C4_unknown_worker_rejected", inp, repr(exc), "RuntimeError", "unknown-worker-accepted")
            return out
        if exc is not None:
            fail(out, "C5_no_unexpected_exception", inp, repr(exc), "no exception", "unexpected-" + type(exc).__name__)
            return out
        after = dict(child.params)
        for key in sorted(set(want_loc) | {k for k in after if k.startswith("get_location") and after.get(k) != before.get(k)}):
            tokens = after.get(key, "").split()
            old = before.get(key, "").split()
            want = ([":" + before["shared_pool"]] + [f"{w}:{swarm_pool}" for w in sorted(want_loc[key])]) if key in want_loc else []
            want_all = old + [t for t in want if t not in old]
            if sorted(tokens) != sorted(want_all):
                extra = [t for t in tokens if t not in want_all]
                fail(out, "C1_locations_exact", inp, {key: tokens}, {key: want_all},
                     "token-twice" if len(set(tokens)) != len(tokens) else ("worker-without-pass-named" if extra else "source-missing"))
        named = {t.split(":")[0] for k in want_loc for t in after.get(k, "").split() if t.split(":")[0] and t not in before.get(k, "").split()}
        for n in named & set(workers):
            missing = [k for k, v in workers[n].params.items() if k.startswith("nets_") and after.get(f"{k}_{n}") != v]
            if missing:
                fail(out, "C2_access_params_copied", inp, {k: after.get(f"{k}_{n}") for k in missing[:4]},
                     {k: workers[n].params[k] for k in missing[:4]}, "access-params-missing")
        foreign = [k for k in after if after.get(k) != before.get(k) and not k.startswith("get_location")
                   and not any(k.startswith("nets_") and k.endswith("_" + n) and k[:-len(n) - 1] in workers[n].params for n in allowed)]
        if foreign:
            fail(out, "C2_access_params_copied", inp, foreign[:6], "only nets_*_<wid> of workers with a PASS result", "foreign-params-added")
        if inp.get("flat") and after != before:
            fail(out, "C5_no_unexpected_exception", inp, "flat node altered", "no change", "flat-node-altered")
        try:
            child.pull_locations()
            again = dict(child.params)
        except Exception as error:  # noqa: B902
            again = repr(error)
        if again != after:
            fail(out, "C3_idempotent", inp, again if isinstance(again, str) else sorted(k for k in again if again[k] != after.get(k)), "unchanged",
                 "second-call-changes")
    finally:
        TestSwarm.run_swarms = saved
    return out


def run_case(inp):
    try:
        return {"A": case_sync, "B": case_scan, "C": case_pull}[inp["part"]](inp)
    except Exception as error:  # noqa: B902 - a harness problem must not hide the other cases
        return [{"obligation": "harness_error", "input": inp, "observed": repr(error), "expected": "oracle evaluates", "class": "harness"}]


# ---------------------------------------------------------------- enumeration

def override_keys(shape):
    vm = SHAPES[shape]
    return [f"unset_mode_{vm}", "unset_mode_images", "unset_mode_vms", f"unset_mode_images_{vm}", f"unset_mode_vms_{vm}", f"unset_mode_image1_{vm}"]


def layouts_for(shape, names):
    return [n for n in names if not (n == "vm2only" and shape in ("vm1", "vm1x2", "vm3perm"))]


def gen_sync(thorough, rnd):
    stale = {"unset_state_images": "stale_u", "get_state_images": "stale_g"}

    def mk(shape, layout, mode, pfilter, extra=None, vms=None, door="ok"):
        overlay = dict(stale, unset_mode=mode, pool_filter=pfilter)
        overlay.update(extra or {})
        inp = {"part": "A", "shape": shape, "layout": layout, "overlay": overlay, "door": door}
        if vms is not None:
            inp["vms"] = vms
        return inp
    for shape in SHAPES:
        for layout in layouts_for(shape, LAYOUTS):                      # 1: every mode x every filter
            for mode in MODES:
                for pfilter in FILTERS:
                    yield mk(shape, layout, mode, pfilter)
        vals = ["fi", "fa", "ri", "rf", "ai", ""] if thorough else ["fi", "ri", "ai"]
        for layout in layouts_for(shape, LAYOUTS if thorough else ["img", "vm", "both"]):    # 2: one suffixed override
            for mode in (MODES if thorough else ["fi", "ri"]):
                for key in override_keys(shape):
                    for val in vals:
                        for pfilter in (FILTERS if thorough else ["reuse", "copy"] + (["bogus"] if key.endswith("s") else [])):
                            yield mk(shape, layout, mode, pfilter, {key: val})
        for layout in layouts_for(shape, ["img", "both", "vm2only"]):   # 3: pool scopes with the copy filter
            for mode in ["ri", "rf", "fi"]:
                for scope in SCOPES:
                    yield mk(shape, layout, mode, "copy", {"pool_scope": scope})
                yield mk(shape, layout, mode, "copy", {"pool_scope_" + SHAPES[shape]: "swarm own", "pool_scope": "own shared"})
        for layout in layouts_for(shape, ["img", "both", "install", "vm2only"]):   # 4: runtime vm selections, failing door
            for mode in ["fi", "ri", "xx"]:
                for pfilter in ["reuse", "copy"]:
                    for vms in SELECTIONS:
                        yield mk(shape, layout, mode, pfilter, vms=vms)
                    yield mk(shape, layout, mode, pfilter, door="shell_error")
                    yield mk(shape, layout, mode, pfilter, {"shared_pool_" + SHAPES[shape]: "/mnt/local/images/other"})


CHECKS = {}


def n_checks(shape, layout):
    """Number of states a scan of this node has to check (objects with a state that is not a permanent install)."""
    if (shape, layout) not in CHECKS:
        node, _ = build_ab({"shape": shape, "layout": layout})
        states = [(resolve(dict(node.params), "set_state", chain_of(o)), o) for o in node.objects]
        CHECKS[(shape, layout)] = len([1 for st, o in states if st and not (st == "install" and o.is_permanent())])
    return CHECKS[(shape, layout)]


def gen_scan(thorough, rnd):
    full = 6 if thorough else 3
    for shape in SHAPES:
        vm = SHAPES[shape]
        for layout in layouts_for(shape, LAYOUTS):
            variants = [{}]
            if thorough or layout in ("img", "both"):
                variants += [{"check_mode": "ff"}, {"check_mode_" + vm: "fa"}, {"shared_pool_" + vm: "/mnt/local/images/other"},
                             {"check_mode_images": "ra"}]
            for extra in variants:
                inp = {"part": "B", "shape": shape, "layout": layout, "overlay": extra}
                for door in ("other_error", "shell_error"):
                    yield dict(inp, door=door)
                k = n_checks(shape, layout)
                if k <= full:
                    subsets = [list(c) for n in range(k + 1) for c in itertools.combinations(range(k), n)]
                else:
                    subsets = [[], list(range(k))] + [[i] for i in range(k)] + [[j for j in range(k) if j != i] for i in range(k)]
                for subset in subsets:
                    yield dict(inp, door="pool", present=subset)


def gen_pull(thorough, rnd):
    statuses = ["PASS", "FAIL", "UNKNOWN"] + (["WARN"] if thorough else [])
    names = ["net1", "net2", "net4", "net9"]
    registrations = [[["net1"]], [["net1", "net2"]], [["net1", "net2", "net4"]]] + ([[["net1", "net4"], ["net2"]]] if thorough else [])
    children = ["net1", "net2"] if thorough else ["net1"]

    def lists(maxlen, holders, statuses=statuses):
        alphabet = [[n, s, h] for n in names for s in statuses for h in holders]
        for ln in range(maxlen + 1):
            for combo in itertools.product(alphabet, repeat=ln):
                yield [list(x) for x in combo]
    for me in children:
        for reg in registrations:
            if me not in [n for names_ in reg for n in names_] or (me != "net1" and len(reg) == 1 and len(reg[0]) != 2):
                continue
            for bridged in (True, False):
                for edges in ("vm1", "vm1+vm2", "net+vm1", "net"):
                    for res in lists(3 if thorough and edges == "vm1" else 2, ["named"]):
                        yield {"part": "C", "child": me, "registered": reg, "bridged": bridged, "edges": edges, "results": [res]}
                for res in lists(1, ["named", "me"]):
                    for prefill in (":" + SHARED, "net4:/mnt/local/images/swarm", ":/elsewhere"):
                        yield {"part": "C", "child": me, "registered": reg, "bridged": bridged, "edges": "vm1", "results": [res], "prefill": prefill}
                    yield {"part": "C", "child": me, "registered": reg, "bridged": bridged, "edges": "vm1+vm2", "results": [res], "flat": True}
                for edges in ("vm1|vm2", "vm1|vm1", "net+vm1|vm1+vm2"):
                    for r1 in list(lists(2 if thorough else 1, ["named"], statuses[:3])):
                        for r2 in list(lists(1, ["named"], statuses[:3])):
                            yield {"part": "C", "child": me, "registered": reg, "bridged": bridged, "edges": edges, "results": [r1, r2]}
            for unknown in ("net9", "net4" if "net4" not in [n for names_ in reg for n in names_] else "net0"):
                yield {"part": "C", "child": me, "registered": reg, "bridged": True, "edges": "vm1",
                       "results": [[["net1", "PASS", "named"]]], "unknown_id": unknown}


def obligations_of(inp):
    if inp["part"] == "A":
        return sync_oblig(inp, inp["overlay"].get("pool_filter"))
    if inp["part"] == "B":
        return ["B1_check_request_exact", "B2_scan_verdict", "B5_no_unexpected_exception", "S_own_worker_session"] + \
            (["B3_other_error_runtime"] if inp.get("door") == "other_error" else []) + (["B4_permanent_install_given"] if inp["layout"] == "install" else [])
    if inp.get("unknown_id"):
        return ["C4_unknown_worker_rejected"]
    return ["C0_result_worker_ids_exact", "C1_locations_exact", "C2_access_params_copied", "C3_idempotent", "C5_no_unexpected_exception"]


def nontrivial(inp):
    """A: some object carries a state and the mode starts with f or r; B: at least one state; C: at least one PASS result."""
    if inp["part"] == "A":
        modes = [v for k, v in inp["overlay"].items() if k.startswith("unset_mode") and v]
        return inp["layout"] != "leaf" and any(m[0] in "fr" for m in modes)
    if inp["part"] == "B":
        return inp["layout"] != "leaf"
    return any(r[1] == "PASS" for rs in inp["results"] for r in rs)


def main():
    if "--replay" in sys.argv:
        inp = json.loads(sys.argv[sys.argv.index("--replay") + 1])
        failures = run_case(inp)
        print(json.dumps({"ok": not failures, "failures": failures}, indent=1, default=str))
        return 1 if failures else 0
    tier = os.environ.get("VERIF_TIER", "quick")
    thorough = tier != "quick"
    rnd = random.Random(int(os.environ.get("VERIF_SEED", "0") or 0))
    bases()
    t0 = time.time()
    obligations, failures, seen_classes, counts, totals = {}, [], {}, {"A": 0, "B": 0, "C": 0}, {}
    cases, distinct, complete, samples = 0, set(), True, []
    plan = (("A", gen_sync, 100000, 780), ("B", gen_scan, 20000, 120), ("C", gen_pull, 150000, 420)) if thorough else \
        (("A", gen_sync, 10 ** 6, 60), ("B", gen_scan, 10 ** 6, 25), ("C", gen_pull, 10 ** 6, 30))
    for part, gen, cap, budget in plan:
        inputs = list(gen(thorough, rnd))
        totals[part] = len(inputs)
        if len(inputs) > cap:                  # seeded systematic sample of the stated scope instead of a truncated prefix
            keep = set(rnd.sample(range(len(inputs)), cap))
            inputs, complete = [x for i, x in enumerate(inputs) if i in keep], False
        t1 = time.time()
        for inp in inputs:
            if time.time() - t1 > budget:
                complete = False
                break
            cases += 1
            counts[part] += 1
            for ob in obligations_of(inp):
                obligations[ob] = obligations.get(ob, 0) + 1
            if nontrivial(inp):
                distinct.add(json.dumps(inp, sort_keys=True))
            if counts[part] % 997 == 1 and len(samples) < 9:
                samples.append(inp)
            for f in run_case(inp):
                key = (f["obligation"], f.get("class"))
                seen_classes[key] = seen_classes.get(key, 0) + 1
                if seen_classes[key] == 1 and len(failures) < 10:
                    failures.append(f)
    res = {
        "name": "sync_scan_pull", "obligations": obligations, "cases": cases, "distinct_nontrivial": len(distinct),
        "rule": "distinct inputs where (A) a stateful object has unset_mode f./r., (B) some object has a state, (C) some result is PASS",
        "bound": f"tier={tier}: sync_states {counts['A']}/{totals['A']} settings (5 node shapes x 8 state layouts x 11 unset_mode x suffixed overrides x 6 pool_filter "
                 f"x 17 pool_scope x 7 vms selections, sliced), scan_states {counts['B']}/{totals['B']} (shapes x layouts x check_mode/shared_pool variants x pool "
                 f"populations), pull_locations {counts['C']}/{totals['C']} (1..2 parents, <=3 workers + 1 unregistered, results lists <= {3 if thorough else 2})",
        "exhaustive": bool(complete), "samples": samples, "failures": failures,
        "failure_classes": {f"{o}:{c}": n for (o, c), n in sorted(seen_classes.items())}, "seconds": round(time.time() - t0, 1),
    }
    print("BOUNDED-RESULT " + json.dumps(res, default=str))
    return 0


if __name__ == "__main__":
    sys.exit(main())
