"""Bounded stand-in for C15: intertest_setup.update reruns exactly the requested path and drops only its dependants;
TestGraph.flag_children / flag_intersection flag exactly the documented node sets.

The REAL update() is driven end to end (real parsing of the shipped sample suite tp_folder, real flagging, bridging and
multi-worker traversal); only infrastructure is faked: the remote door (records every `unset` it is asked to perform),
the avocado job, worker start/login and TestRunner.run_test_task (records every executed test, reports PASS).

ORACLE (written from tp_folder/configs/groups.cfg + sets.cfg + vms.cfg and the property, not from the implementation):
  * PARENT: a vm's state S' is derived from S when the setup/leaf test that sets S' for that vm gets S of the same vm.
  * LEAF_TESTS: which states of vm1/vm2 every leaf test of the sample suite needs/sets, per OS variant of the vm where the
    configuration makes a difference (`connect` is only ever needed by a CentOS vm1); a remove_set selects leaf tests; the
    states "in the graph" for a vm variant are the PARENT-closure of what the selected leaf tests need/set for it.
  * path(from,to) = states from `to` up the PARENT chain until `from`; `install` is produced by the object-root noop
    plus the original unattended_install test, every other state by the setup test of the same name.
  * every selected OS variant of a vm is a vm of its own (own path, own saved states); a variant that is available but not
    selected is another vm: nothing of it is run or removed.
  * remove_set / from_state / to_state of a vm: the vm-suffixed key (remove_set_vm1) wins over the global key, then the
    documented default (leaves / install / customize); keys suffixed with a vm that is not selected mean nothing.

Obligations:
  update_runs_exact_path          executed (vm, variant, setup test) set == tests on path(from,to) of every selected vm variant,
                                  each on a configured worker and (all tests PASS) exactly once over all workers
  update_cleans_only_descendants  removed (worker, vm, variant, state) set == every worker x selected vm variant x states in the
                                  graph of that vm's remove_set strictly derived from to_state (nothing on/before the path,
                                  nothing outside its own remove_set, nothing of other vms / unselected variants)
  unknown_state_rejected          from_state/to_state not in the (remove_set) graph of a selected vm variant -> an exception,
                                  nothing run/removed
  no_unexpected_exception         a valid request must not raise
  flag_children_exact             flagged nodes == descendants (via setup edges) of the unique root, with skip_parents /
                                  skip_children, only the requested flag kind; no/ambiguous root -> AssertionError
  flag_intersection_exact         flagged nodes == nodes whose set-less name occurs in the other graph, honouring
                                  skip_shared_root / skip_object_roots

Scope: vms vm1 / vm2, available vms vm1..vm3; all (from,to) pairs with `from` an ancestor-or-self of `to` among the setup
states install, customize, on_customize, connect, linux_virtuser (vm1) / windows_virtuser (vm2) (12 per vm; pairs whose states
are not in the remove_set graph, e.g. vm2 connect, are rejection cases), plus the documented defaults and unknown / foreign
states; workers 1..2 (thorough: 3 with the default remove_set, also with a multi-variant vm1 / vm2, and with two of the
remove_set_<vm> combinations); remove_set default(leaves), minimal, tutorial1, leaves..tutorial_gui (+normal in thorough).  Three families of requests (a request is the json "input" of a failure:
{"vms", "states": {vm: [from, to]} (vm-suffixed keys), "remove_set" (global key), "nets", and optionally "params": raw extra
vms_params keys, "variants": {vm: "" (all) | [variant, ..]} selected, "available": {vm: ...} available variants}):
  1. one variant per vm (CentOS / Win10), global remove_set: selections {vm1}, {vm1,vm2} (vm2 pairs rotated by the seed), {vm2};
  2. multi-variant selections: vm1 = CentOS+Fedora and/or vm2 = Win10+Win7 (as "" and as `only A,B`), alone, with a
     single-variant other vm and both together, all 12 pairs (i.e. also every from_state other than install); one variant
     selected while both are available (the other one must be left alone);
  3. vm-suffixed parameters for two selected vms: 6 (thorough 9) (remove_set, remove_set_vm1, remove_set_vm2) combinations x the 12 pair
     combinations, the states spelled as both suffixed / global + vm2 suffixed / global + vm1 suffixed (rotating); only the global
     from_state/to_state for two vms; keys suffixed with an unselected vm; families 2 and 3 combined.
Requests are grouped by configuration (a group = the 12 pairs); tasks are chunks of a group run in VERIF_JOBS (default 8)
forked processes.  quick: 44 fixed requests in 10 tasks first (incl. every chain pair once alternating vm1/vm2, rejections, and
minimal multi-variant / suffixed requests), then 3 seed-chosen requests of every group (groups in seeded order), then the next
3 of every group, ... until the wall budget (VERIF_BUDGET, default 80 s; not exhaustive by construction even if the whole
list is done).  thorough: every group in order, 6 requests per task, under a 17 min budget (+ up to 1 min for requests in
flight); `exhaustive` only if the whole list was done.
flag_* checks: every node / name+vm+worker selector of 3 (4 thorough) small parsed graphs x run/clean x skip options;
every ordered graph pair x options for flag_intersection (exhaustive for those graphs).
Speed (infrastructure only, UT_NOCACHE=1 / UT_REALSLEEP=1 switch it off, UT_DEBUG=1 prints every observation on stderr,
UT_DUMP=<file> writes all failures): Reparsable.get_params / get_parser().get_dicts() (pure Cartesian parsing, not under
check) are memoised in-process on the parsed steps; asyncio.sleep of the code under test is capped at 0.02 s (a worker bounced
from an occupied node would wait test_timeout/1000 = 3.6 s per bounce although the fake tests take 0.01 s).
"""
import asyncio
import atexit
import contextlib
import copy
import itertools
import json
import logging
import os
import random
import shutil
import sys
import tempfile
import time
import warnings
from unittest import mock

warnings.simplefilter("ignore")
sys.path.insert(0, os.environ.get("VERIF_REPO", "/repo"))
_stdout, sys.stdout = sys.stdout, sys.stderr         # keep import/log noise of the code under test off stdout
logging.disable(logging.CRITICAL)

from virttest import utils_params  # noqa: E402
from avocado_i2n import intertest_setup, params_parser as param  # noqa: E402
from avocado_i2n.plugins.runner import TestRunner  # noqa: E402
from avocado_i2n.cartgraph import TestGraph  # noqa: E402

AVAILABLE_VMS = {"vm1": "only CentOS\n", "vm2": "only Win10\n", "vm3": "only Ubuntu\n"}
ALL_VARIANTS = {"vm1": ["CentOS", "Fedora"], "vm2": ["Win10", "Win7"], "vm3": ["Ubuntu", "Kali"]}     # vms.cfg / guest-os.cfg
DEFAULT_VARIANTS = {"vm1": ["CentOS"], "vm2": ["Win10"], "vm3": ["Ubuntu"]}
TMPDIR = tempfile.mkdtemp(prefix="update_tool_")
atexit.register(shutil.rmtree, TMPDIR, ignore_errors=True)

# ---------------------------------------------------------------- speed-up: memoise pure Cartesian parsing
_orig_get_params = param.Reparsable.get_params
_PCACHE = {}


def _cached_get_params(self, list_of_keys=None, dict_index=0, **kw):
    sig = tuple((type(s).__name__, getattr(s, "filename", None) or (s.parsable_form() if isinstance(s, param.ParsedDict)
                                                                    else s.content)) for s in self.steps)
    key = (sig, None if list_of_keys is None else tuple(list_of_keys), dict_index)
    if key not in _PCACHE:
        try:
            _PCACHE[key] = (True, dict(_orig_get_params(self, list_of_keys=list_of_keys, dict_index=dict_index, **kw)))
        except Exception as error:  # pylint: disable=W0703
            _PCACHE[key] = (False, error)
    ok, val = _PCACHE[key]
    if not ok:
        raise val
    return utils_params.Params(dict(val))


_orig_get_parser = param.Reparsable.get_parser
_DCACHE = {}


class _CachedParser:
    """Stands for a cartesian_config.Parser whose only used service is get_dicts()."""

    def __init__(self, dicts):
        self.dicts = dicts

    def get_dicts(self):
        for one in self.dicts:
            yield copy.deepcopy(one)


def _cached_get_parser(self, *args, **kw):
    if args or kw:
        return _orig_get_parser(self, *args, **kw)
    sig = tuple((type(s).__name__, getattr(s, "filename", None) or (s.parsable_form() if isinstance(s, param.ParsedDict)
                                                                    else s.content)) for s in self.steps)
    if sig not in _DCACHE:
        try:
            _DCACHE[sig] = (True, list(_orig_get_parser(self).get_dicts()))
        except Exception as error:  # pylint: disable=W0703
            _DCACHE[sig] = (False, error)
    ok, val = _DCACHE[sig]
    if not ok:
        raise val
    return _CachedParser(val)


if not os.environ.get("UT_NOCACHE"):
    param.Reparsable.get_params = _cached_get_params
    param.Reparsable.get_parser = _cached_get_parser

# ---------------------------------------------------------------- speed-up: a worker bounced from an occupied node waits
# test_timeout/1000 = 3.6 s per bounce while the fake tests take 0.01 s; cap every asyncio sleep of the code under test
_orig_sleep = asyncio.sleep


async def _short_sleep(delay, result=None):
    return await _orig_sleep(min(delay, 0.02), result)

# ---------------------------------------------------------------- oracle model of the sample suite
PARENT = {"customize": "install", "on_customize": "customize", "connect": "customize", "linux_virtuser": "customize",
          "windows_virtuser": "customize", "guisetup.noop": "windows_virtuser", "guisetup.clicked": "windows_virtuser",
          "getsetup.noop": "guisetup.noop", "getsetup.clicked": "guisetup.clicked",
          "getsetup.guisetup.noop": "guisetup.noop", "getsetup.guisetup.clicked": "guisetup.clicked"}
# leaf test -> states needed or set per vm ("main" = the vm being updated: quicktest runs on the main vm); a dict instead of a
# list gives them per OS variant of that vm, a variant missing there has no such test (groups.cfg: tutorial3.no_remote gets
# `connect` only for `vm1.qemu_kvm_centos`, else the `customize` of tutorial3; tutorial3.remote, tutorial_get and
# tutorial_finale are `only_vm1 = qemu_kvm_centos`; tutorial_gui is for both vm1 variants)
LEAF_TESTS = {
    "tutorial1": {"main": ["on_customize"]},
    "tutorial2.files": {"main": ["on_customize"]},
    "tutorial2.names": {"main": ["on_customize"]},
    "tutorial3.no_remote": {"vm1": {"CentOS": ["connect"], "Fedora": ["customize"]}, "vm2": ["customize"]},
    "tutorial3.remote": {"vm1": {"CentOS": ["connect"]}, "vm2": ["customize"]},
    "tutorial_gui.client_noop": {"vm1": ["linux_virtuser"], "vm2": ["windows_virtuser", "guisetup.noop"]},
    "tutorial_gui.client_clicked": {"vm1": ["linux_virtuser"], "vm2": ["windows_virtuser", "guisetup.clicked"]},
    "tutorial_get.explicit_noop": {"vm1": {"CentOS": ["connect"]}, "vm2": ["guisetup.noop", "getsetup.noop"]},
    "tutorial_get.explicit_clicked": {"vm1": {"CentOS": ["connect"]}, "vm2": ["guisetup.clicked", "getsetup.clicked"]},
    "tutorial_get.implicit_both": {"vm1": {"CentOS": ["connect"]}, "vm2": ["getsetup.guisetup.noop", "getsetup.guisetup.clicked"]},
    "tutorial_finale": {"vm1": {"CentOS": ["connect"]}, "vm2": ["getsetup.guisetup.noop", "getsetup.guisetup.clicked"]},
}
REMOVE_SETS = {      # remove_set value -> selected leaf tests (sets.cfg: leaves, normal, minimal; else a plain test filter)
    None: list(LEAF_TESTS),
    "leaves": list(LEAF_TESTS),
    "minimal": ["tutorial1", "tutorial2.files", "tutorial2.names"],
    "tutorial1": ["tutorial1"],
    "leaves..tutorial_gui": ["tutorial_gui.client_noop", "tutorial_gui.client_clicked"],
    "normal": ["tutorial1", "tutorial2.files", "tutorial3.no_remote", "tutorial_gui.client_noop", "tutorial_gui.client_clicked"],
}
CHAIN_STATES = {"vm1": ["install", "customize", "on_customize", "connect", "linux_virtuser"],
                "vm2": ["install", "customize", "on_customize", "connect", "windows_virtuser"]}
MAIN_SETS = ("all", "nonleaves", "leaves", "normal", "minimal")


def ancestors(state):
    """The chain state, parent, ..., install."""
    out = [state]
    while out[-1] in PARENT:
        out.append(PARENT[out[-1]])
    return out


def universe(vm, remove_set, variant=None):
    """States of `vm` (of the given OS variant, default: the suite's single default variant) in the graph of the remove_set."""
    variant = variant or DEFAULT_VARIANTS[vm][0]
    states = set()
    for test in REMOVE_SETS[remove_set]:
        for role, needed in LEAF_TESTS[test].items():
            if role == vm or role == "main":
                for state in (needed.get(variant, []) if isinstance(needed, dict) else needed):
                    states.update(ancestors(state))
    return states


def expected_path_tests(frm, to):
    """Setup tests (labels) producing the states from `frm` to `to`, both included; None if frm is not on the chain."""
    chain = ancestors(to)
    if frm not in chain:
        return None
    labels = set()
    for state in chain[:chain.index(frm) + 1]:
        labels.update(["noop", "install"] if state == "install" else [state])
    return labels


def restr_of(selection):
    """Cartesian restriction of a variant selection: "" = every variant of the vm, else a list of variant names."""
    return "" if selection == "" else "only " + ",".join(selection) + "\n"


def selection_of(case, vm):
    """Selected variants of a vm (as given: "" or a list); the suite defaults to one variant per vm."""
    return (case.get("variants") or {}).get(vm, DEFAULT_VARIANTS[vm])


def available_of(case, vm):
    """Available variants of a vm: explicit, else what is selected, else the default single variant."""
    explicit = (case.get("available") or {})
    if vm in explicit:
        return explicit[vm]
    return selection_of(case, vm) if vm in case["vms"] else DEFAULT_VARIANTS[vm]


def variants_of(vm, selection):
    return list(ALL_VARIANTS[vm]) if selection == "" else list(selection)


def variant_in(name, vms):
    """OS variant(s) of the given vm(s) named in a full Cartesian test name ('+'-joined for several vms)."""
    tokens = name.split(".")
    return "+".join(v for vm in vms.split() for v in ALL_VARIANTS.get(vm, []) if v in tokens)


def raw_params(case):
    """The vms_params handed to update(): suffixed states from "states", global "remove_set", then raw "params"."""
    raw = {}
    for vm, (frm, to) in (case.get("states") or {}).items():        # None = leave unset
        if frm is not None:
            raw["from_state_" + vm] = frm
        if to is not None:
            raw["to_state_" + vm] = to
    if case.get("remove_set"):
        raw["remove_set"] = case["remove_set"]
    raw.update(case.get("params") or {})
    return raw


def resolved(case, vm, key, default=None):
    """Parameter of a vm: its vm-suffixed form wins over the global form, then the documented default."""
    raw = raw_params(case)
    return raw.get(f"{key}_{vm}", raw.get(key, default))


def test_label(name):
    """Short label of an executed test from its full Cartesian name."""
    short = name.split(".vms.")[0].split(".")
    short = short[1:] if short[0] in MAIN_SETS else short
    if short[:2] == ["original", "unattended_install"]:
        return "install"
    if short[:2] == ["internal", "stateless"] or short[:2] == ["internal", "automated"]:
        return ".".join(short[2:])
    return ".".join(short)


# ---------------------------------------------------------------- fakes of the infrastructure
class RecordingDoor:
    """Stands for avocado_i2n.cartgraph.node.door: all states exist; record what is asked to be unset."""

    DUMP_CONTROL_DIR = TMPDIR
    action, params, unsets, others = "check", None, [], []

    @staticmethod
    def set_subcontrol_parameter(_, __, do):
        RecordingDoor.action = do
        return "control"

    @staticmethod
    def set_subcontrol_parameter_dict(_, __, params):
        RecordingDoor.params = params
        return "control"

    @staticmethod
    def run_subcontrol(_session, _path):
        params = RecordingDoor.params
        if RecordingDoor.action != "unset":
            RecordingDoor.others.append(RecordingDoor.action)
            return
        for key in params.keys():
            if key.startswith("unset_state_"):     # unset_state_images_image1_vm1 / unset_state_vms_vm1
                vm = key.split("_")[-1]
                RecordingDoor.unsets.append([params["nets"], vm, variant_in(params["name"], vm), params[key]])


EXECUTED = []


async def fake_run_test_task(self, node):
    await _orig_sleep(0.01)
    params = node.params
    EXECUTED.append([params["nets"], params["vms"], params["name"]])
    tid = type("T", (), {"uid": node.id_test.uid, "name": params["name"]})()
    self.job.result.tests.append({"name": tid, "status": "PASS", "time_elapsed": "1", "logdir": TMPDIR})
    return True


@contextlib.contextmanager
def fake_new_job(config):
    """Jobless run delegation as in selftests/isolation/test_intertest_setup.py (no real avocado job, no result dirs)."""
    job = mock.MagicMock()
    job.logdir, job.timeout, job.config = TMPDIR, 60, config
    job.result.tests = []
    config["graph"].l.logdir = job.logdir
    config["graph"].r.job = job
    yield job


def patches():
    return [mock.patch("avocado_i2n.intertest_setup.new_job", fake_new_job),
            mock.patch("avocado_i2n.cartgraph.worker.remote.wait_for_login", mock.MagicMock()),
            mock.patch("avocado_i2n.cartgraph.node.door", RecordingDoor),
            mock.patch("avocado_i2n.cartgraph.worker.TestWorker.start", mock.MagicMock()),
            mock.patch("avocado_i2n.plugins.runner.SpawnerDispatcher", mock.MagicMock()),
            mock.patch.object(TestRunner, "run_test_task", fake_run_test_task)] + (
        [] if os.environ.get("UT_REALSLEEP") else [mock.patch("asyncio.sleep", _short_sleep)])


def run_update(case):
    """Run the real update() for {"vms": [...], "states": {vm: [from, to]}, "remove_set": str|None, "nets": n} with the
    optional "params": {raw vms_params key: value}, "variants": {vm: ""|[variant, ..]}, "available": {vm: ""|[variant, ..]}."""
    vms_params = utils_params.Params()
    for key, value in raw_params(case).items():         # unset = the documented default (install / customize / leaves)
        vms_params[key] = value
    config = {"available_vms": {vm: restr_of(available_of(case, vm)) for vm in AVAILABLE_VMS},
              "available_restrictions": ["leaves", "normal", "minimal"],
              "param_dict": {"nets": " ".join(f"net{i + 1}" for i in range(case["nets"]))},
              "vm_strs": {vm: restr_of(selection_of(case, vm)) for vm in case["vms"]}, "tests_str": {},
              "tests_params": utils_params.Params(), "vms_params": vms_params}
    del EXECUTED[:]
    RecordingDoor.unsets, RecordingDoor.others = [], []
    error = None
    active = patches()
    try:
        for patch in active:
            patch.start()
        intertest_setup.update(config, tag="1r")
    except BaseException as exc:  # pylint: disable=W0703
        if isinstance(exc, (KeyboardInterrupt, SystemExit)):
            raise
        error = f"{type(exc).__name__}: {str(exc)[:160]}"
    finally:
        for patch in reversed(active):
            patch.stop()
    return [list(x) for x in EXECUTED], [list(x) for x in RecordingDoor.unsets], error


# ---------------------------------------------------------------- checks of update()
def given_states(case, vm):
    """Requested (from, to) of a vm (vm-suffixed form, else global form) with the documented defaults filled in."""
    return resolved(case, vm, "from_state", "install"), resolved(case, vm, "to_state", "customize")


def expectation(case):
    """Oracle: (valid, expected {(vm, variant, test label)}, expected {(worker, vm, variant, state)} to be removed)."""
    workers = [f"net{i + 1}" for i in range(case["nets"])]
    valid, exp_run, exp_unset = True, set(), set()
    for vm in case["vms"]:
        frm, to = given_states(case, vm)
        labels = expected_path_tests(frm, to)
        for variant in variants_of(vm, selection_of(case, vm)):      # every selected variant is a vm of its own
            states = universe(vm, resolved(case, vm, "remove_set"), variant)
            if frm not in states or to not in states or labels is None:
                valid = False
                continue
            exp_run.update((vm, variant, label) for label in labels)
            exp_unset.update((w, vm, variant, s) for w in workers for s in states if to in ancestors(s)[1:])
    return valid, exp_run, exp_unset


def check_update(case, failures, stats):
    """Obligations 1-3 for one update request; returns True when no failure was recorded."""
    n_before = len(failures)
    workers = [f"net{i + 1}" for i in range(case["nets"])]
    valid, exp_run, exp_unset = expectation(case)
    t_case = time.time()
    executed, unsets, error = run_update(case)
    if os.environ.get("UT_DEBUG"):
        print(f"[{time.time() - t_case:5.1f}s] {json.dumps(case)} valid={valid} error={error}\n    run={sorted(map(tuple, executed))}\n"
              f"    unset={sorted(map(tuple, unsets))}", file=sys.stderr)
    got_run = set((vms, variant_in(name, vms), test_label(name)) for _, vms, name in executed)
    selected = {vm: variants_of(vm, selection_of(case, vm)) for vm in case["vms"]}
    got_unset = set(tuple(u) for u in unsets)
    stats["cases"] += 1

    def fail(obligation, klass, observed, expected):
        failures.append({"obligation": obligation, "class": klass, "input": dict(case, kind="update"),
                         "observed": observed, "expected": expected})

    if not valid:
        stats["obligations"]["unknown_state_rejected"] += 1
        if error is None:
            fail("unknown_state_rejected", "unknown_state_accepted", {"run": sorted(got_run), "unset": sorted(got_unset)},
                 "an exception")
        elif got_run or got_unset:
            fail("unknown_state_rejected", "rejected_after_side_effects",
                 {"error": error, "run": sorted(got_run), "unset": sorted(got_unset)}, "an exception before any run/removal")
        return len(failures) == n_before
    for obligation in ("update_runs_exact_path", "update_cleans_only_descendants", "no_unexpected_exception"):
        stats["obligations"][obligation] += 1
    if len(exp_run) > 1 or exp_unset:
        stats["nontrivial"].add(json.dumps(case, sort_keys=True))
    if error is not None:
        fail("no_unexpected_exception", "valid_request_raised", error, "no exception")
    if got_run != exp_run:
        extra, missing = got_run - exp_run, exp_run - got_run
        if missing:
            klass = "missing_path_test"
        elif any(vm not in case["vms"] for vm, _, _ in extra):
            klass = "test_of_unselected_vm"
        elif any(variant not in selected[vm] for vm, variant, _ in extra):
            klass = "test_of_unselected_variant"
        elif any(label in ancestors(given_states(case, vm)[0])[1:] or (label in ("noop", "install")) for vm, _, label in extra):
            klass = "extra_test_before_from_state"
        else:
            klass = "extra_test_off_path"
        fail("update_runs_exact_path", klass, sorted(got_run), sorted(exp_run))
    else:
        per_worker = [(w, vms, variant_in(name, vms), test_label(name)) for w, vms, name in executed]
        if any(w not in workers for w, _, _, _ in per_worker):
            fail("update_runs_exact_path", "test_on_unknown_worker", sorted(per_worker), workers)
        elif len(got_run) != len(per_worker):     # workers share results of bridged nodes: a PASSed test is not repeated
            fail("update_runs_exact_path", "path_test_executed_more_than_once", sorted(per_worker), "each path test exactly once")
    if got_unset != exp_unset:
        extra, missing = got_unset - exp_unset, exp_unset - got_unset
        if missing:
            klass = "missing_descendant_unset"
        elif any(vm not in case["vms"] for _, vm, _, _ in extra):
            klass = "unset_of_other_vm"
        elif any(variant not in selected[vm] for _, vm, variant, _ in extra):
            klass = "unset_of_unselected_variant"
        elif any(s in ancestors(given_states(case, vm)[1]) for _, vm, _, s in extra):
            klass = "unset_on_or_before_path"
        elif any(s not in universe(vm, resolved(case, vm, "remove_set"), variant) for _, vm, variant, s in extra):
            klass = "unset_outside_remove_set"      # a state of the vm that its own remove_set does not reach
        else:
            klass = "unset_not_derived_from_to_state"
        fail("update_cleans_only_descendants", klass, {"extra": sorted(extra), "missing": sorted(missing)}, sorted(exp_unset))
    return len(failures) == n_before


def chain_pairs(vm):
    """All (from, to) with from an ancestor-or-self of to among the setup states of the vm (12 pairs)."""
    return [(frm, to) for to in CHAIN_STATES[vm] for frm in reversed(ancestors(to))]


def make_case(states, remove_set=None, nets=1, variants=None, available=None, params=None):
    """An update request; the optional keys are only present when used (old replay inputs stay valid)."""
    out = {"vms": sorted(set(states) | set(variants or {})), "states": {vm: list(pair) for vm, pair in states.items()},
           "remove_set": remove_set, "nets": nets}
    for key, value in (("variants", variants), ("available", available), ("params", params)):
        if value:
            out[key] = value
    return out


def spread_states(form, pair1, pair2):
    """Three spellings of 'vm1 gets pair1, vm2 gets pair2': (states, params) for make_case."""
    if form == 0:       # both vm-suffixed
        return {"vm1": pair1, "vm2": pair2}, {}
    if form == 1:       # global form meant for vm1, vm2 overrides it with its suffixed form
        return {"vm2": pair2}, {"from_state": pair1[0], "to_state": pair1[1]}
    return {"vm1": pair1}, {"from_state": pair2[0], "to_state": pair2[1]}


def update_cases(tier, rnd):
    """Returns (fixed chunks, groups): lists of update requests sharing most of their parsing; fixed ones always run first."""
    p1, p2 = chain_pairs("vm1"), chain_pairs("vm2")
    shift = rnd.randrange(len(p2))
    case, quick = make_case, tier == "quick"
    both = {"vm1": (None, None), "vm2": (None, None)}

    parity = shift % 2                                    # every chain pair once, alternately for vm1 and vm2 (seed flips which)
    fixed = [
        [case({"vm1": ("customize", "connect"), "vm2": ("install", "customize")}, None, 2),
         case({"vm1": ("windows_virtuser", "connect")}, None, 2),
         case({"vm1": ("customize", "connect"), "vm2": ("linux_virtuser", "customize")}, None, 2)],
        # a vm selected with several variants: every variant is updated along the whole path (from_state included)
        [case({"vm1": ("customize", "linux_virtuser")}, variants={"vm1": ""}),
         case({"vm1": ("on_customize", "on_customize")}, variants={"vm1": ""}),
         case({"vm1": ("customize", "nonexistent_state")}, variants={"vm1": ""}),
         case({"vm1": ("customize", "on_customize")}, variants={"vm1": ["Fedora"]}, available={"vm1": ""})],
        # vm-suffixed remove_set / global and mixed from_state, to_state for two selected vms
        [case(both, params={"remove_set_vm1": "minimal"}),
         case({"vm1": ("customize", "connect"), "vm2": ("customize", "on_customize")}, params={"remove_set_vm2": "minimal"}),
         case({}, params={"from_state": "customize", "to_state": "on_customize"}, variants={"vm1": ["CentOS"], "vm2": ["Win10"]}),
         case({"vm1": (None, "connect"), "vm2": (None, "windows_virtuser")}, params={"from_state": "customize"}),
         case({"vm1": (None, "customize"), "vm2": (None, "on_customize")}, params={"to_state": "nonexistent_state"}),
         case({"vm2": (None, "nonexistent_state")}, params={"to_state": "customize"}, variants={"vm1": ["CentOS"]}),
         case({"vm1": ("customize", "connect"), "vm2": (None, None)}, params={"remove_set_vm1": "minimal"})],
        [case({"vm1": (None, None)}),                                               # documented defaults install -> customize
         case({"vm1": ("install", "nonexistent_state")}),
         case({"vm1": ("nonexistent_state", "customize")}),
         case({"vm1": ("customize", "windows_virtuser")}),                          # state of another guest type only
         case({"vm1": ("install", "customize"), "vm2": ("customize", "nonexistent_state")}),
         case({"vm1": ("customize", "connect")}, params={"remove_set_vm2": "minimal"})],      # setting of an unselected vm
        [case({"vm1": ("on_customize", "on_customize")}, "minimal"),
         case({"vm1": ("customize", "connect")}, "minimal"),                        # known setup state outside the remove_set graph
         case({"vm1": ("install", "customize")}, "tutorial1"),
         case({"vm1": ("customize", "linux_virtuser"), "vm2": ("windows_virtuser", "windows_virtuser")}, "leaves..tutorial_gui"),
         case({"vm1": ("install", "on_customize"), "vm2": ("customize", "windows_virtuser")}, "minimal",
              params={"remove_set_vm2": "leaves..tutorial_gui"})],
        [case({"vm2": ("customize", "windows_virtuser")}, variants={"vm2": ""}),
         case({"vm2": ("install", "customize")}, variants={"vm2": ""}),
         case({"vm2": ("customize", "connect")}, variants={"vm2": ""})],
        [case({"vm1": ("customize", "connect"), "vm2": ("customize", "customize")}, None, 2, variants={"vm1": ""}),
         case({"vm1": ("install", "customize"), "vm2": (None, None)}, None, 2, variants={"vm1": ""},
              params={"remove_set_vm1": "tutorial1"})],
        [case({"vm1": p1[i]}) for i in range(len(p1)) if i % 2 == parity],
        [case({"vm2": p2[i]}) for i in range(len(p1)) if i % 2 != parity],
        [case({"vm1": ("on_customize", "on_customize")}, "minimal", variants={"vm1": ["CentOS", "Fedora"]}),
         case({"vm1": ("customize", "on_customize")}, "minimal", variants={"vm1": ["CentOS", "Fedora"]})],
    ]

    groups = []
    small = ["minimal", "leaves..tutorial_gui", "tutorial1"]
    # ---- one variant per vm, global remove_set (the original scope)
    if quick:
        plain = [(n, r) for n in (1, 2) for r in [None] + small]
    else:       # most expensive/informative groups first; `normal` with one worker, 3 workers with the default remove_set
        plain = [(1, None), (2, None), (1, "normal"), (3, None)] + [(n, r) for n in (1, 2) for r in small] + [(2, "normal")]
    for nets, remove_set in plain:
        groups.append([case({"vm1": pair}, remove_set, nets) for pair in p1])
        groups.append([case({"vm1": pair, "vm2": p2[(i + shift) % len(p2)]}, remove_set, nets) for i, pair in enumerate(p1)
                       if nets < 3 or i % 4 == shift % 4])
        if not quick and nets < 3:
            groups.append([case({"vm2": pair}, remove_set, nets) for pair in p2])
    # ---- selections with several variants of a vm ("" = all variants, also as available vms)
    all1, all2 = {"vm1": ""}, {"vm2": ""}
    multi = [(1, None), (2, None), (1, "minimal"), (1, "leaves..tutorial_gui")] + (
        [] if quick else [(2, "leaves..tutorial_gui"), (2, "minimal"), (1, "tutorial1"), (1, "normal"), (3, None)])
    for nets, remove_set in multi:
        groups.append([case({"vm1": pair}, remove_set, nets, variants=all1) for pair in p1])
        groups.append([case({"vm1": pair, "vm2": p2[(i + shift) % len(p2)]}, remove_set, nets, variants=all1) for i, pair in enumerate(p1)])
        if not quick or nets == 1:
            groups.append([case({"vm2": pair}, remove_set, nets, variants=all2) for pair in p2])
    groups.append([case({"vm1": pair, "vm2": p2[(i + shift) % len(p2)]}, None, 1, variants={"vm1": "", "vm2": ""}) for i, pair in enumerate(p1)])
    for one in (["Fedora"], ["CentOS"]):       # one variant selected of two available ones: the other one is left alone
        groups.append([case({"vm1": pair}, None, 1, variants={"vm1": one}, available=all1) for pair in p1])
    if not quick:
        groups.append([case({"vm1": pair}, "minimal", 1, variants={"vm1": ["CentOS", "Fedora"]}) for pair in p1])
        groups.append([case({"vm1": pair, "vm2": p2[(i + shift) % len(p2)]}, "leaves..tutorial_gui", 1, variants={"vm1": "", "vm2": ""})
                       for i, pair in enumerate(p1)])
        groups.append([case({"vm1": pair, "vm2": p2[(i + shift) % len(p2)]}, None, 2, variants={"vm1": "", "vm2": ""}) for i, pair in enumerate(p1)])
    # ---- vm-suffixed parameters: (global remove_set, remove_set_vm1, remove_set_vm2) x three spellings of the states
    combos = [(None, "minimal", None), (None, None, "minimal"), (None, "tutorial1", "leaves..tutorial_gui"),
              ("minimal", None, "leaves..tutorial_gui"), (None, "leaves..tutorial_gui", "minimal"), ("tutorial1", "leaves", None)]
    if not quick:
        combos += [("leaves..tutorial_gui", "minimal", None), (None, "normal", "minimal"), ("normal", None, "leaves")]
    for nets in (1, 2) if quick else (1, 2, 3):
        for glob, rs1, rs2 in combos[:len(combos) if nets < 3 else 2]:
            group = []
            for i, pair in enumerate(p1):
                states, params = spread_states((i + shift) % 3, pair, p2[(i + shift) % len(p2)])
                params.update({k: v for k, v in (("remove_set_vm1", rs1), ("remove_set_vm2", rs2)) if v})
                group.append(case(states, glob, nets, params=params, variants={"vm1": ["CentOS"], "vm2": ["Win10"]}))
            groups.append(group)
    shared = [pair for pair in p1 if pair in p2] + [("customize", "linux_virtuser"), ("windows_virtuser", "windows_virtuser")]
    for rs1 in (None, "minimal"):              # only the global from_state / to_state for two vms
        groups.append([case({}, None, 1 + i % 2, params=dict({"from_state": frm, "to_state": to}, **({"remove_set_vm1": rs1} if rs1 else {})),
                            variants={"vm1": ["CentOS"], "vm2": ["Win10"]}) for i, (frm, to) in enumerate(shared)])
    for other in ("minimal", "tutorial1"):     # settings of a vm that is not selected do not matter
        groups.append([case({"vm1": pair}, None, 1, params={"remove_set_vm2": other, "to_state_vm2": "nonexistent_state"}) for pair in p1])
        groups.append([case({"vm2": pair}, None, 1, params={"remove_set_vm1": other, "from_state_vm1": "nonexistent_state"}) for pair in p2])
    both_dims = [("minimal", None, "", ["Win10"], 1), (None, "minimal", "", ["Win10"], 1)] + ([] if quick else [
        ("minimal", None, ["CentOS"], "", 1), (None, "leaves..tutorial_gui", "", "", 1), ("minimal", None, "", ["Win10"], 2)])
    for rs1, rs2, sel1, sel2, nets in both_dims:                       # both dimensions together
        group = []
        for i, pair in enumerate(p1):
            states, params = spread_states((i + shift) % 3, pair, p2[(i + shift) % len(p2)])
            params.update({k: v for k, v in (("remove_set_vm1", rs1), ("remove_set_vm2", rs2)) if v})
            group.append(case(states, None, nets, params=params, variants={"vm1": sel1, "vm2": sel2}))
        groups.append(group)

    seen, out_groups = set(json.dumps(item, sort_keys=True) for chunk in fixed for item in chunk), []
    for group in groups:
        kept = []
        for item in group:
            key = json.dumps(item, sort_keys=True)
            if key not in seen:
                seen.add(key)
                kept.append(item)
        out_groups.append(kept)
    return fixed, [g for g in out_groups if g]


def schedule(tier, fixed, groups, rnd):
    """Tasks (lists of requests run in one process, sharing its parse cache) in the order in which they are started: the fixed
    chunks, then a chunk of every group (quick: groups in seeded order, 3 seed-chosen requests with two valid ones for every
    rejected one; thorough: 6 in order), then the next chunk of every group, ..."""
    size = 3 if tier == "quick" else 6
    per_group = []
    for group in groups:
        group = list(group)
        if tier == "quick":
            rnd.shuffle(group)
            good, bad = [c for c in group if expectation(c)[0]], [c for c in group if not expectation(c)[0]]
            group = []
            while good or bad:
                group += good[:2] + bad[:1]
                good, bad = good[2:], bad[1:]
        per_group.append([group[i:i + size] for i in range(0, len(group), size)])
    if tier == "quick":
        rnd.shuffle(per_group)
    tasks = [list(chunk) for chunk in fixed]
    for rank in range(max(len(chunks) for chunks in per_group)):
        tasks += [chunks[rank] for chunks in per_group if rank < len(chunks)]
    return tasks


# ---------------------------------------------------------------- checks of flag_children / flag_intersection
GRAPH_SPECS = {
    "connect_vm1": ("only nonleaves\nonly connect\n", {"nets": "net1", "vms": "vm1"}),
    "customize_vm1": ("only nonleaves\nonly customize\n", {"nets": "net1", "vms": "vm1"}),
    "gui_vm1_vm2": ("only leaves\nonly tutorial_gui\n", {"nets": "net1"}),
    "connect_vm1_2workers": ("only nonleaves\nonly connect\n", {"nets": "net1 net2", "vms": "vm1"}),
}
_GRAPHS = {}


def get_graph(name):
    if name not in _GRAPHS:
        restriction, params = GRAPH_SPECS[name]
        _GRAPHS[name] = TestGraph.parse_object_trees(None, restriction, "", dict(AVAILABLE_VMS), dict(params))
    return _GRAPHS[name]


def setless(node):
    parts = node.params["name"].split(".")
    return ".".join(parts[1:] if parts[0] in MAIN_SETS else parts)


def flagged_by(graph, call):
    """Run call(flag) with a fresh sentinel flag; return names flagged per kind ('run'/'clean')."""
    def sentinel(self, slot):
        return False
    call(sentinel)
    out = {"run": set(), "clean": set()}
    for node in graph.nodes:
        for kind, attr in (("run", "should_run"), ("clean", "should_clean")):
            if getattr(getattr(node, attr), "__func__", None) is sentinel:
                out[kind].add(node.params["name"])
    return out


def descendants(graph, root):
    """Nodes reachable from root through the inverse of the setup relation (naive fixpoint)."""
    found, changed = {root}, True
    while changed:
        changed = False
        for node in graph.nodes:
            if node not in found and any(parent in found for parent in node.setup_nodes):
                found.add(node)
                changed = True
    return found


def check_flag_children(case, failures, stats):
    graph = get_graph(case["graph"])
    stats["cases"] += 1
    stats["obligations"]["flag_children_exact"] += 1
    args = dict(node_name=case["node_name"], object_name=case["object_name"], worker_name=case["worker_name"],
                flag_type=case["flag_type"], skip_parents=case["skip_parents"], skip_children=case["skip_children"])
    # oracle root selection: nodes whose name contains the variant sequence, involve the vm and belong to the worker
    if not case["node_name"] and not case["object_name"]:
        roots = [n for n in graph.nodes if n.params.get("shared_root") == "yes"]
    elif not case["node_name"]:
        roots = [n for n in graph.nodes if case["object_name"] in n.params.get("object_root", "").replace("-", ".").split(".")]
    else:
        roots = [n for n in graph.nodes if ("." + case["node_name"] + ".") in ("." + n.params["name"] + ".")
                 and (not case["object_name"] or case["object_name"] in n.params.get("vms", "").split())]
    if case["worker_name"]:
        roots = [n for n in roots if case["worker_name"] in n.params["name"].split(".")]
    try:
        got = flagged_by(graph, lambda flag: graph.flag_children(flag=flag, **args))
        error = None
    except AssertionError as exc:
        got, error = None, "AssertionError"
    except Exception as exc:  # pylint: disable=W0703
        got, error = None, f"{type(exc).__name__}: {str(exc)[:120]}"
    if len(roots) != 1:
        expected = "AssertionError"
        ok = error == "AssertionError"
        observed = error or {k: sorted(v) for k, v in got.items()}
    else:
        stats["nontrivial"].add(json.dumps(case, sort_keys=True))
        desc = descendants(graph, roots[0])
        if case["skip_children"]:
            desc = {roots[0]}
        if case["skip_parents"]:
            desc = desc - {roots[0]}
        want = {"run": set(), "clean": set()}
        want[case["flag_type"]] = set(n.params["name"] for n in desc)
        expected = {k: sorted(v) for k, v in want.items()}
        ok = error is None and got == want
        observed = error or {k: sorted(v) for k, v in got.items()}
    if not ok:
        failures.append({"obligation": "flag_children_exact", "class": "root_not_rejected" if len(roots) != 1 else "wrong_flagged_set",
                         "input": dict(case, kind="flag_children"), "observed": observed, "expected": expected})
    return ok


def check_flag_intersection(case, failures, stats):
    graph, other = get_graph(case["graph"]), get_graph(case["other"])
    stats["cases"] += 1
    stats["obligations"]["flag_intersection_exact"] += 1
    other_names = set(setless(n) for n in other.nodes)
    want = {"run": set(), "clean": set()}
    for node in graph.nodes:
        if setless(node) not in other_names:
            continue
        if case["skip_shared_root"] and node.params.get("shared_root") == "yes":
            continue
        if case["skip_object_roots"] and node.params.get("object_root"):
            continue
        want[case["flag_type"]].add(node.params["name"])
    if 0 < len(want[case["flag_type"]]) < len(graph.nodes) or case["skip_shared_root"] or case["skip_object_roots"]:
        stats["nontrivial"].add(json.dumps(case, sort_keys=True))
    try:
        got = flagged_by(graph, lambda flag: graph.flag_intersection(
            other, flag_type=case["flag_type"], flag=flag, skip_object_roots=case["skip_object_roots"],
            skip_shared_root=case["skip_shared_root"]))
        observed = {k: sorted(v) for k, v in got.items()}
    except Exception as exc:  # pylint: disable=W0703
        got, observed = None, f"{type(exc).__name__}: {str(exc)[:120]}"
    if got != want:
        failures.append({"obligation": "flag_intersection_exact", "class": "wrong_flagged_set",
                         "input": dict(case, kind="flag_intersection"), "observed": observed,
                         "expected": {k: sorted(v) for k, v in want.items()}})
    return got == want


def flag_cases(tier):
    names = ["connect_vm1", "customize_vm1", "gui_vm1_vm2"] + (["connect_vm1_2workers"] if tier != "quick" else [])
    children, inter = [], []
    for name in names:
        graph = get_graph(name)
        roots = [("", "", "")] + [(n.params["name"], "", "") for n in graph.nodes if n.params.get("shared_root") != "yes"]
        roots += [("", "vm1", ""), ("", "vm2", ""), ("customize", "vm1", "net1"), ("customize", "", ""), ("customize", "vm2", "net1"),
                  ("connect", "vm1", "net2"), ("install", "vm1", ""), ("nonexistent_variant", "", ""), ("unattended_install", "vm1", "net1")]
        for (node_name, object_name, worker_name), flag_type, (skip_parents, skip_children) in itertools.product(
                roots, ("run", "clean"), ((False, False), (True, False), (False, True))):
            children.append({"graph": name, "node_name": node_name, "object_name": object_name, "worker_name": worker_name,
                             "flag_type": flag_type, "skip_parents": skip_parents, "skip_children": skip_children})
        for other, flag_type, skip_o, skip_s in itertools.product(names, ("run", "clean"), (False, True), (False, True)):
            inter.append({"graph": name, "other": other, "flag_type": flag_type, "skip_object_roots": skip_o, "skip_shared_root": skip_s})
    return children, inter


# ---------------------------------------------------------------- driver
CHECKS = {"update": check_update, "flag_children": check_flag_children, "flag_intersection": check_flag_intersection}


def new_stats():
    return {"cases": 0, "nontrivial": set(), "obligations": {k: 0 for k in (
        "update_runs_exact_path", "update_cleans_only_descendants", "unknown_state_rejected", "no_unexpected_exception",
        "flag_children_exact", "flag_intersection_exact")}}


_DEADLINE = [None]


def run_task(chunk):
    """One scheduled task (in a forked process or inline): check its requests in order until the deadline."""
    failures, stats, done = [], new_stats(), 0
    for case in chunk:
        if time.time() > _DEADLINE[0]:
            break
        check_update(case, failures, stats)
        done += 1
    stats["nontrivial"] = sorted(stats["nontrivial"])
    return failures, stats, done


def main():
    if "--replay" in sys.argv:
        case = json.loads(sys.argv[sys.argv.index("--replay") + 1])
        kind = case.pop("kind", "update")
        failures, stats = [], new_stats()
        ok = CHECKS[kind](case, failures, stats)
        print(json.dumps({"ok": ok, "failures": failures}, indent=1), file=_stdout)
        return 0 if ok else 1
    tier = os.environ.get("VERIF_TIER", "quick")
    rnd = random.Random(int(os.environ.get("VERIF_SEED", "0") or 0))
    budget = float(os.environ.get("VERIF_BUDGET", "0") or 0) or (80 if tier == "quick" else 1020)
    jobs = max(1, min(int(os.environ.get("VERIF_JOBS", "0") or 0) or 8, os.cpu_count() or 1))
    failures, stats, t0 = [], new_stats(), time.time()
    children, inter = flag_cases(tier)
    for case in children:
        check_flag_children(case, failures, stats)
    for case in inter:
        check_flag_intersection(case, failures, stats)
    flag_total = len(children) + len(inter)
    fixed, groups = update_cases(tier, rnd)
    tasks = schedule(tier, fixed, groups, rnd)
    cases = [case for task in tasks for case in task]
    n_fixed = sum(len(chunk) for chunk in fixed)
    _DEADLINE[0] = t0 + budget
    grace = 15 if tier == "quick" else 60          # for the requests in flight at the deadline
    done, cut, results = 0, False, []
    if jobs == 1:
        results = [run_task(task) for task in tasks]
    else:
        import multiprocessing
        with multiprocessing.get_context("fork").Pool(jobs) as pool:
            pending = pool.imap(run_task, tasks, chunksize=1)
            for _ in tasks:
                try:
                    results.append(pending.next(timeout=max(1.0, _DEADLINE[0] + grace - time.time())))
                except multiprocessing.TimeoutError:
                    cut = True
                    break
            pool.terminate()
    for task_failures, task_stats, task_done in results:
        failures += task_failures
        done += task_done
        stats["cases"] += task_stats["cases"]
        stats["nontrivial"].update(task_stats["nontrivial"])
        for key, count in task_stats["obligations"].items():
            stats["obligations"][key] += count
    fixed_done = sum(task_done for _, _, task_done in results[:len(fixed)])
    # keep one failure per (obligation, class) first so that the 10 reported are diverse (smallest input of a class first)
    failures.sort(key=lambda f: (f["input"].get("kind") != "update", len(json.dumps(f["input"]))))
    seen, diverse, rest = set(), [], []
    for failure in failures:
        key = (failure["obligation"], failure.get("class"))
        (rest if key in seen else diverse).append(failure)
        seen.add(key)
    multi = [c for c in cases if any(len(variants_of(vm, selection_of(c, vm))) > 1 for vm in c["vms"])]
    suffixed = [c for c in cases if c.get("params")]
    res = {
        "name": "update_tool", "obligations": stats["obligations"], "cases": stats["cases"],
        "distinct_nontrivial": len(stats["nontrivial"]),
        "rule": "update request non-trivial = valid and (path has >1 test or something must be removed); flag_children case "
                "non-trivial = a unique root exists; flag_intersection case non-trivial = proper non-empty subset or a skip option",
        "bound": f"tier={tier}: update requests {done}/{len(cases)} in {len(tasks)} tasks on {jobs} processes, {time.time() - t0:.0f}s "
                 f"(first {n_fixed} fixed, {fixed_done} of them done; rest {'a seeded sample of every group' if tier == 'quick' else 'every group in order'}; "
                 f"vms vm1/vm2, 12 chain pairs per vm, workers 1..{2 if tier == 'quick' else '2 (3 with the default remove_set or two remove_set_<vm> combinations)'}, "
                 f"remove_set default/minimal/tutorial1/leaves..tutorial_gui{'/normal' if tier != 'quick' else ''}; "
                 f"{len(multi)} requests with a multi-variant vm (CentOS+Fedora / Win10+Win7), {len(suffixed)} with vm-suffixed or global "
                 f"remove_set/from_state/to_state mixes); flag cases {flag_total}/{flag_total} "
                 f"on graphs {sorted(_GRAPHS)}; failure classes found: {len(seen)}; total failures: {len(failures)}",
        "exhaustive": bool(done == len(cases) and not cut and tier != "quick"),
        "samples": [fixed[0][0], fixed[1][0], fixed[2][0]] + children[5:6] + inter[3:4],
        "failures": (diverse + rest)[:10],
    }
    if os.environ.get("UT_DUMP"):          # every failure, not only the 10 reported ones
        with open(os.environ["UT_DUMP"], "w") as handle:
            json.dump(diverse + rest, handle, indent=1)
    print("BOUNDED-RESULT " + json.dumps(res), file=_stdout)
    return 0


if __name__ == "__main__":
    try:
        code = main()
    finally:
        shutil.rmtree(TMPDIR, ignore_errors=True)
    _stdout.flush()
    os._exit(code)       # skip avocado's noisy atexit handlers
