"""Bounded stand-in for C11 (command line selections and overrides mean what the README says):
cmd_parser.params_from_cmd (+ full_tests_params_and_str / full_vm_params_and_strs) on the sample suite tp_folder,
compared with an oracle written from the README / property text (never from cmd_parser.py).

Scope (stated bound): every argument list (every order, with repetition) of length 0..L over a fixed alphabet of
tokens built from the suite's variant names: only=/no= (auxiliary and main restrictions, '..' and ',' forms),
only_vmX=/no_vmX= (known vm, empty value, unknown vm, unknown vm whose name extends a known one), vms= (subsets,
unknown vm), nets=, only_nets=/no_nets=, K=V overrides (values with commas, repeated keys) and malformed tokens.
quick: 17 tokens, L=3 (exhaustive, 5220 lists); thorough: 21 tokens, L=4 (204 205 lists; the lists of length 4 are taken
in a seeded order after all shorter ones, so that a run stopped by its time budget of 18 min has covered everything up
to length 3 and a seeded sample of length 4; `exhaustive` is true only if everything was done).
Plus, for all ordered pairs (a, b) of a set of variant names: ["only=a", "only=b"] against ["only=a..b"].

Obligations (one clause each):
  malformed_rejected         an argument not of the form <key>=<value> (no '=', empty / non-word key) -> ValueError
  tests_str_order            config['tests_str'] = in-order 'only X\\n' / 'no X\\n' lines of the only=/no= arguments plus
                             the default 'only <default_only>' line iff no only=/no= argument names a main restriction
  vm_strs                    per-vm restriction lines are collected in order for the right vm (empty value = no
                             restriction and no default; untouched vm = its default); only_/no_ of an unknown object
                             -> ValueError; unknown vm in vms= -> ValueError; keys of config['vm_strs'] == selected vms
  nets_conflict_both_orders  nets= together with a non-empty only_nets=/no_nets= -> ValueError in both argument orders
  overrides                  every other K=V (and nets=) is in config['param_dict'] with ',' -> ' ', later arguments win,
                             nothing else is in it, and every test parsed with tests_str + param_dict carries the values
                             (thorough: also checked on the TestNode objects of TestGraph.parse_flat_nodes for tiny selections)
  selection_semantics        the tests selected (sets.cfg + tests_str + param_dict via the project's parser wrapper) are
                             exactly the suite tests whose variant list satisfies every only (',' = OR, '..' = AND,
                             '.' = immediately followed by) and no `no` expression - computed by a 10-line matcher over
                             the unrestricted list of tests; an empty selection is rejected (EmptyCartesianProduct)
  only_repeat_equals_dotdot  only=a only=b selects the same tests as only=a..b (or both are rejected as empty)
  no_unexpected_exception    no other exception, and no ValueError when the property gives no reason for one

Oracle assumptions: several nets restrictions may either stack or let the last one win (the property is silent;
both are accepted); the default line may come first or last (Cartesian filters commute); vms= later wins.
"""
import itertools
import json
import multiprocessing
import os
import random
import re
import shutil
import sys
import tempfile
import time

REPO = os.environ.get("VERIF_REPO", "/repo")
sys.path.insert(0, REPO)
_HOME = tempfile.mkdtemp(prefix="bounded_cmdline_home_")   # the project writes ~/avocado_overwrite_*.cfg
os.environ["HOME"] = _HOME
_MAIN_PID = os.getpid()
_real_stdout = sys.stdout
sys.stdout = sys.stderr            # import-time chatter of the dependencies must not reach stdout

import logging  # noqa: E402
logging.disable(logging.CRITICAL)
from avocado.core.settings import settings  # noqa: E402
from virttest import cartesian_config  # noqa: E402
import avocado_i2n.cmd_parser as cmd  # noqa: E402
import avocado_i2n.params_parser as param  # noqa: E402

CONFIGS = os.path.join(settings.as_dict().get("i2n.common.suite_path"), "configs")


# ----------------------------------------------------------------------------- suite facts (read without the project)
def cfg_value(fname, key):
    found = None
    with open(os.path.join(CONFIGS, fname)) as fh:
        for line in fh:
            m = re.match(r"\s*%s\s*=\s*(.*?)\s*$" % re.escape(key), line)
            if m:
                found = m.group(1)
    return found


VMS = cfg_value("guest-base.cfg", "vms").split()
MAIN = cfg_value("groups-base.cfg", "main_restrictions").split()
DEFAULT_ONLY = cfg_value("sets-overwrite.cfg", "default_only")
DEFAULT_VM = {vm: cfg_value("objects-overwrite.cfg", "default_only_" + vm) for vm in VMS}


def raw_names(cfg, restriction="", key="name"):
    """Names the (third-party) Cartesian parser yields for a config file plus a restriction string."""
    p = cartesian_config.Parser()
    p.parse_string("suite_path = %s\n" % os.path.dirname(CONFIGS))
    p.parse_file(os.path.join(CONFIGS, cfg))
    if restriction:
        p.parse_string(restriction)
    return [d[key] for d in p.get_dicts()]


ALL_TESTS = raw_names("sets.cfg")
_nets_memo = {}


def nets_by(restr):
    if restr not in _nets_memo:
        _nets_memo[restr] = " ".join(raw_names("nets.cfg", restr, "shortname"))
    return _nets_memo[restr]


# ----------------------------------------------------------------------------- oracle
def expr_matches(expr, variants):
    """README: ',' is OR, '..' is AND, '.' is 'immediately followed by' over the variants of a test."""
    def seq_in(seq):
        return any(variants[i:i + len(seq)] == seq for i in range(len(variants) - len(seq) + 1))
    return any(all(seq_in(part.split(".")) for part in alt.split("..")) for alt in expr.split(","))


def select(lines):
    out = []
    for name in ALL_TESTS:
        variants = name.split(".")
        if all(expr_matches(e, variants) == (op == "only") for op, e in lines):
            out.append(name)
    return out


def oracle(args):
    reasons, lines, names_main, default_only = [], [], False, DEFAULT_ONLY
    vm_lines, selected, overrides = {}, list(VMS), {}
    nets_explicit, nets_restrs = [], []
    for pos, arg in enumerate(args):
        key, sep, value = arg.partition("=")
        if not sep or not key or not all(c.isalnum() or c == "_" for c in key):
            reasons.append("malformed")
            continue
        m = re.fullmatch(r"(only|no)_(.*)", key)
        if key in ("only", "no"):
            lines.append((key, value))
            names_main = names_main or any(v in MAIN for v in re.split(r"[.,]+", value))
        elif m and m.group(2) == "nets":
            if value:
                nets_restrs.append((pos, "%s %s\n" % (m.group(1), value)))
        elif m:
            if m.group(2) not in VMS:    # distinguished only for the failure class: e.g. vm12 extends the known vm1
                reasons.append("unknown_object_prefixed" if m.group(2).startswith(tuple(VMS)) else "unknown_object")
            else:
                vm_lines.setdefault(m.group(2), [])
                if value:
                    vm_lines[m.group(2)].append("%s %s\n" % (m.group(1), value))
        elif key == "vms":
            selected = value.split(",")
            if any(vm not in VMS for vm in selected):
                reasons.append("unknown_vm")
        else:
            if key == "nets":
                nets_explicit.append(pos)
            if key == "default_only":
                default_only = value
            overrides[key] = value.replace(",", " ")
    if nets_explicit and nets_restrs:
        reasons.append("nets_first" if nets_explicit[0] < nets_restrs[0][0] else "restriction_first")
    exp = {"reasons": reasons, "lines": lines, "use_default": not names_main, "default": default_only,
           "selected": selected, "overrides": overrides, "nets_alternatives": None}
    exp["vm_strs"] = {vm: "".join(vm_lines[vm]) if vm in vm_lines else "only %s\n" % DEFAULT_VM[vm] for vm in VMS}
    if nets_restrs and not nets_explicit:
        exp["nets_alternatives"] = [nets_by(nets_restrs[-1][1]), nets_by("".join(r for _, r in nets_restrs))]
    exp["selection"] = select(lines + ([("only", default_only)] if not names_main else []))
    return exp


OB_OF_REASON = {"malformed": "malformed_rejected", "unknown_object": "vm_strs", "unknown_object_prefixed": "vm_strs",
                "unknown_vm": "vm_strs",
                "nets_first": "nets_conflict_both_orders", "restriction_first": "nets_conflict_both_orders"}


# ----------------------------------------------------------------------------- real code
def run_real(args):
    config, saved = {"params": list(args)}, list(sys.path)
    try:
        cmd.params_from_cmd(config)
        return None, config
    except Exception as e:  # noqa: BLE001 - classified by the oracle
        return e, config
    finally:
        sys.path[:] = saved     # params_from_cmd inserts <suite>/utils on every call


_reparse_memo = {}


def project_dicts(tests_str, param_dict):
    """What the loader does with the result: sets.cfg + restriction + runtime parameters (first half of
    parse_flat_nodes). Returns [(test name, {override key: value in that test})]; memoized per process on its inputs."""
    memo_key = (tests_str, tuple(sorted(param_dict.items())))
    if memo_key not in _reparse_memo:
        rep = param.Reparsable()
        rep.parse_next_batch(base_file="sets.cfg", base_str=tests_str, base_dict=param_dict)
        _reparse_memo[memo_key] = [(d["name"], {k: d.get(k) for k in param_dict})
                                   for d in rep.get_parser(show_empty_cartesian_product=False).get_dicts()]
    return _reparse_memo[memo_key]


def describe(err):
    return "accepted" if err is None else "%s: %s" % (type(err).__name__, str(err).split("\n")[0][:120])


def check_case(args, deep=False):
    """-> (failures, exercised obligation ids)"""
    fails, done = [], set()
    inp = {"args": list(args)}

    def fail(ob, cls, observed, expected):
        fails.append({"obligation": ob, "input": inp, "observed": observed, "expected": expected, "class": cls})

    exp = oracle(args)
    err, config = run_real(args)
    if exp["reasons"]:
        for reason in dict.fromkeys(exp["reasons"]):
            done.add(OB_OF_REASON[reason])
            if not isinstance(err, ValueError):
                fail(OB_OF_REASON[reason], reason + "_not_rejected", describe(err), "ValueError")
        return fails, done
    done.add("no_unexpected_exception")
    done.add("selection_semantics")
    if isinstance(err, ValueError):
        fail("no_unexpected_exception", "spurious_ValueError", describe(err), "accepted")
        return fails, done
    if not exp["selection"]:
        if not isinstance(err, param.EmptyCartesianProduct):
            fail("selection_semantics", "empty_selection_" + ("accepted" if err is None else type(err).__name__),
                 describe(err), "EmptyCartesianProduct")
        return fails, done
    if err is not None:
        cls = "spurious_empty_product" if isinstance(err, param.EmptyCartesianProduct) else type(err).__name__
        fail("selection_semantics" if cls == "spurious_empty_product" else "no_unexpected_exception", cls,
             describe(err), "accepted, %d tests" % len(exp["selection"]))
        return fails, done

    # (2) tests string
    done.add("tests_str_order")
    user = ["%s %s" % ln for ln in exp["lines"]]
    dflt = ["only %s" % exp["default"]] if exp["use_default"] else []
    got_str = config.get("tests_str")
    got = got_str.split("\n")[:-1] if isinstance(got_str, str) and got_str.endswith("\n") else got_str
    if got not in (user + dflt, dflt + user):
        if isinstance(got, list) and sorted(got) == sorted(user + dflt):
            cls = "order"
        elif isinstance(got, list) and dflt and sorted(got) == sorted(user):
            cls = "default_missing"
        elif isinstance(got, list) and not dflt and got[:len(user)] == user:
            cls = "default_spurious"
        else:
            cls = "content"
        fail("tests_str_order", cls, got_str, "\n".join(user + dflt) + "\n")

    # (3) vm strings
    done.add("vm_strs")
    want_vm = {vm: exp["vm_strs"][vm] for vm in exp["selected"]}
    got_vm = config.get("vm_strs")
    if got_vm != want_vm:
        cls = "keys" if not isinstance(got_vm, dict) or set(got_vm) != set(want_vm) else "lines"
        fail("vm_strs", cls, got_vm, want_vm)
    elif config["vms_params"].get("vms") != " ".join(exp["selected"]):
        fail("vm_strs", "vms_param", config["vms_params"].get("vms"), " ".join(exp["selected"]))
    elif sorted(config.get("available_vms", {})) != sorted(VMS):
        fail("vm_strs", "available_vms", sorted(config.get("available_vms", {})), sorted(VMS))

    # (5) overrides
    done.add("overrides")
    got_pd = config.get("param_dict")
    wants = [exp["overrides"]]
    if exp["nets_alternatives"]:
        wants = [dict(exp["overrides"], nets=n) for n in exp["nets_alternatives"]]
    if got_pd not in wants:
        fail("overrides", "param_dict", got_pd, wants[0])

    # selection and presence of the overrides in every parsed test
    try:
        dicts = project_dicts(got_str, got_pd)
    except Exception as e:  # noqa: BLE001
        fail("selection_semantics", "reparse_" + type(e).__name__, describe(e), "%d tests" % len(exp["selection"]))
        return fails, done
    names = sorted(name for name, _ in dicts)
    if names != sorted(exp["selection"]):
        fail("selection_semantics", "selection_differs", names[:8] + ["... %d tests" % len(names)],
             sorted(exp["selection"])[:8] + ["... %d tests" % len(exp["selection"])])
    for k, v in wants[0].items():
        bad = [name for name, vals in dicts if vals.get(k) != v and not (k == "nets" and exp["nets_alternatives"])]
        if bad:
            fail("overrides", "not_in_every_test", {"key": k, "tests": bad[:3]}, {k: v})
            break
    if deep and exp["overrides"] and len(exp["selection"]) <= 2:
        from avocado_i2n.cartgraph import TestGraph
        try:
            nodes = TestGraph.parse_flat_nodes(got_str, got_pd)
            bad = [(n.params["name"], k) for n in nodes for k, v in wants[0].items()
                   if n.params.get(k) != v and not (k == "nets" and exp["nets_alternatives"])]
            if bad or sorted(n.params["name"] for n in nodes) != sorted(exp["selection"]):
                fail("overrides", "not_in_every_node", bad[:3] or [n.params["name"] for n in nodes], wants[0])
        except Exception as e:  # noqa: BLE001
            fail("no_unexpected_exception", "parse_flat_nodes_" + type(e).__name__, describe(e), "nodes")
    return fails, done


def check_pair(a, b):
    """only=a only=b against only=a..b"""
    inp = {"pair": [a, b]}
    outs = []
    for args in (["only=" + a, "only=" + b], ["only=%s..%s" % (a, b)]):
        err, config = run_real(args)
        if isinstance(err, param.EmptyCartesianProduct):
            outs.append("EmptyCartesianProduct")
        elif err is not None:
            outs.append(describe(err))
        else:
            try:
                outs.append(sorted(name for name, _ in project_dicts(config["tests_str"], config["param_dict"])))
            except Exception as e:  # noqa: BLE001
                outs.append(describe(e))
    want = sorted(select([("only", a), ("only", b)] + ([] if any(v in MAIN for v in re.split(r"[.,]+", a + "," + b))
                                                      else [("only", DEFAULT_ONLY)]))) or "EmptyCartesianProduct"
    fails = []
    if outs[0] != outs[1] or outs[0] != want:
        fails.append({"obligation": "only_repeat_equals_dotdot", "input": inp, "class": "repeat_differs_from_dotdot"
                      if outs[0] != outs[1] else "both_differ_from_intersection",
                      "observed": {"repeated": outs[0], "dotdot": outs[1]}, "expected": want})
    return fails, {"only_repeat_equals_dotdot"}


def work(item):
    kind, payload, deep = item
    try:
        return check_case(payload, deep) if kind == "args" else check_pair(*payload)
    except Exception as e:  # noqa: BLE001 - a harness error must not kill the run; it is reported as a failure
        return [{"obligation": "no_unexpected_exception", "input": {"args": list(payload)} if kind == "args" else
                 {"pair": list(payload)}, "observed": "harness: " + describe(e), "expected": "verdict",
                 "class": "harness_" + type(e).__name__}], set()


# ----------------------------------------------------------------------------- scope
TOKENS = ["only=tutorial1", "only=minimal", "no=files", "only=tutorial2..names,quicktest.tutorial2.files",
                "only_vm1=Fedora", "only_vm1=", "no_vm2=Win7", "only_vm4=Fedora", "only_vm12=Fedora",
                "vms=vm2", "vms=vm1,vmX", "nets=net1,net2", "only_nets=cluster1", "aaa=b,c", "aaa=d", "ccc",
          "no=minimal..tutorial1", "vms=vm1,vm3", "no_nets=cluster2", "default_only=minimal", "=x"]
THOROUGH_ONLY = ["only=tutorial2..names,quicktest.tutorial2.files", "vms=vm1,vm3", "no_nets=cluster2",
                 "default_only=minimal"]
PAIR_NAMES = ["tutorial1", "tutorial2", "files", "names", "quicktest", "nongui", "normal", "minimal",
              "tutorial_gui", "client_noop", "tutorial2.names", "quicktest.tutorial2"]   # plain operands: no ','
KINDS = [("malformed", r"^[^=]*$|^="), ("tests", r"^(only|no)="), ("nets", r"^(nets|only_nets|no_nets)="),
         ("vm", r"^(only|no)_"), ("vms", r"^vms="), ("override", r"=")]


def kind_of(tok):
    return next(k for k, rx in KINDS if re.search(rx, tok))


def nontrivial(args):
    return len(args) >= 2 and len({kind_of(t) for t in args}) >= 2


def cleanup():
    if os.getpid() == _MAIN_PID:
        shutil.rmtree(_HOME, ignore_errors=True)


def main():
    out = _real_stdout
    if "--replay" in sys.argv:
        inp = json.loads(sys.argv[sys.argv.index("--replay") + 1])
        fails, _ = work(("args", inp["args"], True)) if "args" in inp else work(("pair", inp["pair"], False))
        print(json.dumps({"ok": not fails, "failures": fails}, indent=1, default=str), file=out)
        cleanup()
        return 1 if fails else 0
    tier = os.environ.get("VERIF_TIER", "quick")
    rnd = random.Random(int(os.environ.get("VERIF_SEED", "0") or 0))
    if tier == "quick":
        tokens, L, budget, pairs = [t for t in TOKENS if t not in THOROUGH_ONLY], 3, 100, PAIR_NAMES[:8]
    else:
        tokens, L, budget, pairs = TOKENS, 4, 1080, PAIR_NAMES
    items = [("pair", (a, b), False) for a in pairs for b in pairs]
    n_pairs = len(items)
    for ln in range(L + 1):
        seqs = list(itertools.product(tokens, repeat=ln))
        if ln == 4:
            rnd.shuffle(seqs)       # if the time budget ends the run early, what was covered is a seeded sample
        items += [("args", seq, tier != "quick" and ln <= 3) for seq in seqs]
    n_full = len(items)
    run_real([])     # creates ~/avocado_overwrite_*.cfg once, before the workers are forked
    t0, results = time.time(), []
    with multiprocessing.get_context("fork").Pool(max(1, min(12, (os.cpu_count() or 2) - 1))) as pool:
        for res in pool.imap(work, items, chunksize=8):
            results.append(res)
            if time.time() - t0 > budget:
                pool.terminate()
                break
    obligations = dict.fromkeys(["malformed_rejected", "tests_str_order", "vm_strs", "nets_conflict_both_orders",
                                 "overrides", "selection_semantics", "only_repeat_equals_dotdot",
                                 "no_unexpected_exception"], 0)
    failures, distinct = [], set()
    for (kind, payload, _), (fails, done) in zip(items, results):
        for ob in done:
            obligations[ob] += 1
        failures += fails
        if kind == "pair" or nontrivial(payload):
            distinct.add((kind, tuple(payload)))
    # at most 10 failures: the smallest input of every (obligation, class) first
    failures.sort(key=lambda f: (len(f["input"].get("args", [0, 0])), json.dumps(f["input"])))
    classes, chosen = {}, []
    for f in failures:
        classes[f["obligation"] + "/" + f["class"]] = classes.get(f["obligation"] + "/" + f["class"], 0) + 1
        if classes[f["obligation"] + "/" + f["class"]] == 1:
            chosen.append(f)
    done_n = len(results)
    res = {
        "name": "cmdline", "obligations": obligations, "cases": done_n, "distinct_nontrivial": len(distinct),
        "rule": "non-trivial = an only/only.. pair, or an argument list with >= 2 arguments of >= 2 different kinds "
                "(kinds: tests restriction, vm restriction, vms, nets, override, malformed)",
        "bound": f"suite tp_folder; {len(tokens)} tokens; all argument lists of length 0..{L} in every order "
                 f"({n_full - n_pairs} lists{'; seeded order for length 4' if L > 3 else ''}); {n_pairs} only/only.. pairs; "
                 f"done {done_n}/{len(items)} in {time.time() - t0:.0f}s",
        "exhaustive": bool(done_n >= n_full),
        "samples": [list(items[i][1]) for i in range(n_pairs + 1, min(done_n, n_full), max(1, n_full // 6))][:6],
        "failure_classes": classes,
        "failures": json.loads(json.dumps(chosen[:10], default=str)),
    }
    print("BOUNDED-RESULT " + json.dumps(res), file=out)
    cleanup()
    return 0


if __name__ == "__main__":
    sys.exit(main())
