"""Bounded stand-in for C19: the parameters generated for the two end points of a tunnel mirror each other and
`connects_nodes` does not depend on the order of its arguments (avocado_i2n/vmnet/tunnel.py: VMTunnel.__init__,
_get_peer_variant, connects_nodes) - checked on the real classes VMTunnel/VMNode/VMInterface/VMNetconfig (only the vm
platform object is a stand-in) against an oracle written from the constructor docstring and the property statement.

Scope (stated bound). Networks: one hand-made layout of 7 nodes (two full end points, LAN neighbours of either side,
an unrelated node, a node without interfaces, nodes inside the forwarded "custom" ranges with equal and with different
netmask) plus R seeded random layouts of 3..6 nodes with up to 3 nics over overlapping subnets. Tunnels:
  init    : every local {nic, internetip, custom} x remote {custom, externalip, modeconfig} x peer {ip, dynip} x
            auth {None, {"type": "none"}, pubkey, psk with 4 (left_id, right_id) shapes} x 'nic' key of each of the three
            dicts {absent, default role, other role} between the ordered end point pairs of the layouts;
  variant : _get_peer_variant alone on the same 18 x 27 type/nic-key combinations;
  minimal : the 18 type combinations x auth {None, pubkey, psk} with dictionaries holding only 'type';
  unsupported : one dictionary at a time with a type outside the documented set;
  connects: for every layout, every ordered end point pair, the 18 fully keyed combinations plus "custom" forwardings
            over every ordered pair of candidate nets of the layout, and all unordered pairs of nodes in both orders.
quick: hand-made layout + 4 random ones (init on the hand-made layout only); thorough: 120 random layouts, init on 6.
The type / key-shape products are complete; the layouts are a seeded sample and every fifth forwarding pair is used for
the tunnel shapes other than site-to-site.

Obligations (one clause each):
  init_mirror               generated left/right params have the documented values and mirror each other (local net of
                            one side == remote net of the other where both are defined, peer ip == other side's
                            interface, PSK own/foreign ids swapped, same name/key type/secret); undocumented types raise
                            ValueError
  peer_variant_counterpart  _get_peer_variant returns the documented counterpart types (and hands over the nic roles)
  minimal_dicts_accepted    dictionaries with only the mandatory key 'type' (or lacking the optional 'nic') never end in
                            a KeyError: accepted, or ValueError where the type cannot work without details
  connects_nodes_symmetric  connects_nodes(a, b) and connects_nodes(b, a): same boolean or same exception type
  connects_nodes_membership (auxiliary) when neither order raises the answer is "one node on the left side and the
                            other on the right side" (end point, member of the end LAN, or address in a forwarded net)
  no_unexpected_exception   no exception other than the ones the docstrings allow
"""
import ipaddress
import itertools
import json
import os
import random
import sys
import time
import traceback
import types
from unittest import mock

sys.path.insert(0, os.environ.get("VERIF_REPO", "/repo"))

from virttest.utils_params import Params  # noqa: E402
from avocado_i2n.vmnet.tunnel import VMTunnel  # noqa: E402
from avocado_i2n.vmnet.node import VMNode  # noqa: E402
from avocado_i2n.vmnet.interface import VMInterface  # noqa: E402
from avocado_i2n.vmnet.netconfig import VMNetconfig  # noqa: E402

NAME = "vpn1"
ROLES = {"internet_nic": "b1", "lan_nic": "b2", "dmz_nic": "b3"}
DEFAULT_ROLE = {"local": "lan_nic", "remote": "lan_nic", "peer": "internet_nic"}
LOCALS, REMOTES, PEERS = ["nic", "internetip", "custom"], ["custom", "externalip", "modeconfig"], ["ip", "dynip"]
NET_KEYS = ["vpnconn_lan_net", "vpnconn_lan_netmask", "vpnconn_remote_net", "vpnconn_remote_netmask",
            "vpnconn_remote_modeconfig_ip"]
PSK_KEYS = ["vpnconn_psk", "vpnconn_psk_own_id", "vpnconn_psk_own_id_type", "vpnconn_psk_foreign_id",
            "vpnconn_psk_foreign_id_type"]

FIXED = {"vm1": {"b1": ["10.1.0.1", "255.255.0.0"], "b2": ["172.17.0.1", "255.255.0.0"], "b3": ["192.168.1.1", "255.255.255.0"]},
         "vm2": {"b1": ["10.2.0.1", "255.255.0.0"], "b2": ["172.18.5.1", "255.255.255.0"], "b3": ["192.168.2.129", "255.255.255.128"]},
         "vm3": {"b2": ["172.17.0.3", "255.255.0.0"]},
         "vm4": {"b2": ["172.18.5.4", "255.255.255.0"], "b3": ["192.168.1.4", "255.255.255.0"]},
         "vm5": {"b1": ["172.30.1.5", "255.255.255.0"]},
         "vm6": {},
         "vm7": {"b1": ["172.30.2.7", "255.255.0.0"], "b2": ["172.40.0.7", "255.255.0.0"]}}
FIXED_CUSTOM = [["172.30.0.0", "255.255.0.0"], ["172.40.0.0", "255.255.0.0"], ["172.17.0.0", "255.255.0.0"],
                ["172.18.5.0", "255.255.255.0"], ["172.18.0.0", "255.255.0.0"]]
LAN_POOL = [["172.17.0.0", "255.255.0.0"], ["172.17.1.0", "255.255.255.0"], ["172.18.0.0", "255.255.0.0"],
            ["192.168.1.0", "255.255.255.0"], ["192.168.1.128", "255.255.255.128"]]


# ---------------------------------------------------------------- stubs (real vmnet classes, mock platform)
def netaddr(ip, mask):
    return str(ipaddress.ip_interface("%s/%s" % (ip, mask)).network.network_address)


def build(layout, only=None):
    """Nodes with interfaces; interfaces of the same (network, netmask) share one netconfig as in a VMNetwork."""
    nodes, nets = {}, {}
    for vm in sorted(only or layout):
        node = VMNode(types.SimpleNamespace(name=vm, params=Params(dict(ROLES)), remote_sessions=[]))
        for nic in sorted(layout[vm]):
            ip, mask = layout[vm][nic][:2]
            iface = VMInterface(nic, Params({"mac": "02:00:00:00:00:01", "ip": ip, "netmask": mask, "range": "10-20"}))
            iface.node = node
            node.interfaces[nic] = iface
            key = (netaddr(ip, mask), mask)
            if key not in nets:
                nets[key] = VMNetconfig()
                nets[key].from_interface(iface)
            nets[key].add_interface(iface)
        nodes[vm] = node
    return nodes


def random_layout(rnd):
    n = rnd.randint(3, 6)
    shared_internet = rnd.random() < 0.5
    layout = {}
    for i in range(1, n + 1):
        nics = {}
        full = i <= 2 or rnd.random() < 0.3
        if full or rnd.random() < 0.4:
            nics["b1"] = ["10.0.0.%d" % i if shared_internet else "10.%d.0.1" % i, "255.255.0.0"]
        for nic, off in (("b2", 1), ("b3", 40)):
            if full or rnd.random() < 0.5:
                base, mask = rnd.choice(LAN_POOL)
                nics[nic] = [str(ipaddress.IPv4Address(base) + off + i), mask]
        layout["vm%d" % i] = nics
    return layout


def custom_candidates(layout):
    if layout == FIXED:
        return FIXED_CUSTOM
    return LAN_POOL


# ---------------------------------------------------------------- oracle (from the docstring / property statement)
def oracle_variant(local, remote, peer):
    """Documented counterpart: site<->site, point<->point, exotic values fall back to the defaults, peer is 'ip'."""
    r_remote = {"nic": "custom", "internetip": "externalip", "custom": "custom"}[local["type"]]
    if remote["type"] == "custom":
        r_local = "custom" if local["type"] == "custom" else "nic"
    else:
        r_local = {"externalip": "internetip", "modeconfig": "nic"}[remote["type"]]
    return r_local, r_remote, "ip"


def counterpart_stub(self, local, remote, peer):
    """Documented counterpart with the nic roles handed over when given (stand-in after a KeyError of the real one)."""
    types = oracle_variant(local, remote, peer)
    out = [{"type": t} for t in types]
    for src, dst in ((local, out[1]), (remote, out[0]), (peer, out[2])):
        if "nic" in src:
            dst["nic"] = src["nic"]
    return tuple(out)


def oracle_sides(inp):
    """Expected generated parameters: (must, may) per side; tracked keys in neither must be absent."""
    lay, l, r = inp["net"], inp["left"], inp["right"]
    local, remote, peer, auth = inp["local"], inp["remote"], inp["peer"], inp["auth"]

    def lan(vm, role):
        ip, mask = lay[vm][ROLES[role]][:2]
        return netaddr(ip, mask), mask

    def addr(vm, role):
        return lay[vm][ROLES[role]][0]

    r_local, r_remote, r_peer = oracle_variant(local, remote, peer)
    must = {"left": {"vpnconn": NAME, "vpn_side": "left", "vpnconn_lan_type": local["type"].upper(),
                     "vpnconn_remote_type": remote["type"].upper(), "vpnconn_peer_type": peer["type"].upper()},
            "right": {"vpnconn": NAME, "vpn_side": "right", "vpnconn_lan_type": r_local.upper(),
                      "vpnconn_remote_type": r_remote.upper(), "vpnconn_peer_type": r_peer.upper()}}
    may = {"left": {}, "right": {}}
    net1 = net2 = None
    if local["type"] == "nic":
        net1 = lan(l, local.get("nic", "lan_nic"))
        must["right"].update({"vpnconn_remote_net": net1[0], "vpnconn_remote_netmask": net1[1]})
    elif local["type"] == "custom":
        net1 = (local["lnet"], local["lmask"])
        may["right"].update({"vpnconn_remote_net": net1[0], "vpnconn_remote_netmask": net1[1]})
    if remote["type"] == "custom":
        net2 = (local["rnet"], local["rmask"]) if local["type"] == "custom" else lan(r, remote.get("nic", "lan_nic"))
        must["left"].update({"vpnconn_remote_net": net2[0], "vpnconn_remote_netmask": net2[1]})
        must["right"].update({"vpnconn_lan_net": net2[0], "vpnconn_lan_netmask": net2[1]})
    elif remote["type"] == "modeconfig":
        must["left"]["vpnconn_remote_modeconfig_ip"] = remote["modeconfig_ip"]
    if net1 is not None:
        must["left"].update({"vpnconn_lan_net": net1[0], "vpnconn_lan_netmask": net1[1]})
    role = peer.get("nic", "internet_nic")
    if peer["type"] == "ip":     # the peer has a public address: point at it and initiate
        must["left"].update({"vpnconn_peer_ip": addr(r, role), "vpnconn_activation": "ALWAYS"})
    else:                        # road warrior on the right: its address is unknown, wait for it
        must["left"]["vpnconn_activation"] = "PASSIVE"
        may["left"]["vpnconn_peer_ip"] = addr(r, role)
    must["right"].update({"vpnconn_peer_ip": addr(l, role), "vpnconn_activation": "ALWAYS"})
    if auth is None or auth["type"] == "none":
        key = "NONE"
    elif auth["type"] == "pubkey":
        key = "PUBLIC"
    else:
        key = "PSK"
        lid, rid = auth["left_id"], auth["right_id"]
        kind = lambda i: "IP" if i == "" else "CUSTOM"  # noqa: E731
        must["left"].update({"vpnconn_psk": auth["psk"], "vpnconn_psk_own_id": lid, "vpnconn_psk_own_id_type": kind(lid),
                             "vpnconn_psk_foreign_id": rid, "vpnconn_psk_foreign_id_type": kind(rid)})
        must["right"].update({"vpnconn_psk": auth["psk"], "vpnconn_psk_own_id": rid, "vpnconn_psk_own_id_type": kind(rid),
                              "vpnconn_psk_foreign_id": lid, "vpnconn_psk_foreign_id_type": kind(lid)})
    must["left"]["vpnconn_key_type"] = must["right"]["vpnconn_key_type"] = key
    return must, may, {"left": net1, "right": net2}, {"left": addr(l, role), "right": addr(r, role)}


def documented(inp):
    auth = inp["auth"]
    return (inp["local"]["type"] in LOCALS and inp["remote"]["type"] in REMOTES and inp["peer"]["type"] in PEERS
            and (auth is None or auth["type"] in ("none", "pubkey", "psk")))


def lacks_details(inp):
    """Types that cannot work from 'type' alone (no default exists): a ValueError is an acceptable answer."""
    auth = inp["auth"]
    return ((inp["local"]["type"] == "custom" and not {"lnet", "lmask", "rnet", "rmask"} <= set(inp["local"]))
            or (inp["remote"]["type"] == "modeconfig" and "modeconfig_ip" not in inp["remote"])
            or (auth is not None and auth["type"] == "psk" and not {"psk", "left_id", "right_id"} <= set(auth)))


def where(exc):
    tb = traceback.extract_tb(exc.__traceback__)
    return "%s(%s) in %s" % (type(exc).__name__, ",".join(str(a) for a in exc.args[:1]) if isinstance(exc, KeyError)
                             else "", tb[-1].name if tb else "?")


# ---------------------------------------------------------------- checks
class Ctx:
    def __init__(self):
        self.failures, self.kept, self.counts = [], {}, {}
        self.obl = {k: 0 for k in ["init_mirror", "peer_variant_counterpart", "minimal_dicts_accepted",
                                   "connects_nodes_symmetric", "connects_nodes_membership", "no_unexpected_exception"]}
        self.cases, self.nontrivial = 0, set()

    def fail(self, obligation, inp, observed, expected, cls):
        key = "%s|%s" % (obligation, cls)
        self.counts[key] = self.counts.get(key, 0) + 1
        self.failures.append(key)
        if key not in self.kept and len(self.kept) < 10:      # one witness per (obligation, class)
            self.kept[key] = {"obligation": obligation, "input": inp, "observed": observed, "expected": expected, "class": cls}


def construct(inp, only=None):
    nodes = build(inp["net"], only)
    tunnel = VMTunnel(NAME, nodes[inp["left"]], nodes[inp["right"]], inp["local"], inp["remote"], inp["peer"], inp["auth"])
    return tunnel, nodes


def check_init(inp, ctx):
    """Obligations init_mirror, minimal_dicts_accepted (when optional keys are missing), no_unexpected_exception."""
    ctx.cases += 1
    ctx.obl["init_mirror"] += 1
    ctx.obl["no_unexpected_exception"] += 1
    minimal = any("nic" not in inp[d] for d in ("local", "remote", "peer")) or lacks_details(inp)
    if minimal:
        ctx.obl["minimal_dicts_accepted"] += 1
    ends = (inp["left"], inp["right"])      # the other nodes of the layout play no role in the constructor
    try:
        try:
            tunnel, nodes = construct(inp, ends)
        except KeyError as exc:
            if not (minimal and documented(inp) and where(exc).endswith("_get_peer_variant")):
                raise
            # known gap: report it, then go on with the documented counterpart to still see the rest of the constructor
            ctx.fail("minimal_dicts_accepted", inp, where(exc), "accepted (or ValueError when details are indispensable)", where(exc))
            with mock.patch.object(VMTunnel, "_get_peer_variant", counterpart_stub):
                tunnel, nodes = construct(inp, ends)
    except Exception as exc:
        if not documented(inp):
            if isinstance(exc, ValueError):
                ctx.nontrivial.add(json.dumps(inp, sort_keys=True))
                return True
            ctx.fail("init_mirror", inp, where(exc), "ValueError for an undocumented type", "undocumented_type:" + where(exc))
            return False
        if isinstance(exc, ValueError) and lacks_details(inp):
            return True
        if isinstance(exc, KeyError) and minimal:
            ctx.fail("minimal_dicts_accepted", inp, where(exc), "accepted (or ValueError when details are indispensable)", where(exc))
        elif isinstance(exc, ValueError):
            ctx.fail("init_mirror", inp, "ValueError: %s" % exc, "documented combination is accepted", "documented_rejected:" + (
                "auth=%s" % inp["auth"]["type"] if inp["auth"] else "types"))
        else:
            ctx.fail("no_unexpected_exception", inp, where(exc), "no exception", where(exc))
        return False
    if not documented(inp):
        ctx.fail("init_mirror", inp, "accepted", "ValueError for an undocumented type", "undocumented_type_accepted")
        return False
    if lacks_details(inp):
        return True      # accepted without the details: nothing documented to compare against
    must, may, nets, addrs = oracle_sides(inp)
    got = {"left": tunnel.left_params, "right": tunnel.right_params}
    ok = True
    for side in ("left", "right"):
        for key in sorted(set(must[side]) | set(NET_KEYS + PSK_KEYS + ["vpnconn_peer_ip"])):
            if key in must[side]:
                good = got[side].get(key) == must[side][key]
            elif key in may[side]:
                good = key not in got[side] or got[side][key] == may[side][key]
            else:
                good = key not in got[side]
            if not good:
                ok = False
                ctx.fail("init_mirror", inp, {key: got[side].get(key, "<absent>")},
                         {key: must[side].get(key, may[side].get(key, "<absent>"))}, "%s.%s" % (side, key))
    # the mirror relations as stated, independent of the concrete expectations above
    for one, other in (("left", "right"), ("right", "left")):
        a, b = got[one], got[other]
        rel = [("vpnconn_lan_net", "vpnconn_remote_net"), ("vpnconn_lan_netmask", "vpnconn_remote_netmask"),
               ("vpnconn_psk_own_id", "vpnconn_psk_foreign_id"), ("vpnconn_psk_own_id_type", "vpnconn_psk_foreign_id_type"),
               ("vpnconn", "vpnconn"), ("vpnconn_key_type", "vpnconn_key_type"), ("vpnconn_psk", "vpnconn_psk")]
        for k1, k2 in rel:
            if k1 in a and k2 in b and a[k1] != b[k2]:
                ok = False
                ctx.fail("init_mirror", inp, {one + "." + k1: a[k1], other + "." + k2: b[k2]}, "equal", "mirror:%s/%s" % (k1, k2))
        iface = tunnel.right_iface if one == "left" else tunnel.left_iface
        if "vpnconn_peer_ip" in a and (a["vpnconn_peer_ip"] != iface.ip or iface.ip != addrs[other]):
            ok = False
            ctx.fail("init_mirror", inp, {one + ".peer_ip": a["vpnconn_peer_ip"], other + "_iface": iface.ip}, addrs[other], "mirror:peer_ip")
    objs = {"left": (tunnel.left, tunnel.left_net, inp["left"]), "right": (tunnel.right, tunnel.right_net, inp["right"])}
    for side, (node, net, vm) in objs.items():
        seen = None if net is None else (net.net_ip, net.netmask)
        if node is not nodes[vm] or seen != (None if nets[side] is None else tuple(nets[side])):
            ok = False
            ctx.fail("init_mirror", inp, {"node": node.name, "net": seen}, {"node": vm, "net": nets[side]}, "%s.end_objects" % side)
    if (nets["left"] and nets["right"]) or (inp["auth"] and inp["auth"].get("left_id") != inp["auth"].get("right_id")):
        ctx.nontrivial.add(json.dumps(inp, sort_keys=True))
    return ok


def check_variant(inp, ctx):
    """Obligation peer_variant_counterpart on _get_peer_variant alone (it does not use any instance state)."""
    ctx.cases += 1
    ctx.obl["peer_variant_counterpart"] += 1
    local, remote, peer = inp["local"], inp["remote"], inp["peer"]
    try:
        got = VMTunnel.__new__(VMTunnel)._get_peer_variant(dict(local), dict(remote), dict(peer))
    except KeyError as exc:
        ctx.obl["minimal_dicts_accepted"] += 1
        ctx.fail("minimal_dicts_accepted", inp, where(exc), "a counterpart triple", where(exc))
        return False
    except Exception as exc:
        ctx.fail("no_unexpected_exception", inp, where(exc), "a counterpart triple", where(exc))
        return False
    want = oracle_variant(local, remote, peer)
    ok = True
    if tuple(d.get("type") for d in got) != want:
        ok = False
        ctx.fail("peer_variant_counterpart", inp, [d.get("type") for d in got], list(want), "types:%s->%s" % (
            "/".join((local["type"], remote["type"], peer["type"])), "/".join(str(d.get("type")) for d in got)))
    # the nic role a left dictionary names is the one its right counterpart must use (left local <-> right remote, ...)
    for src, dst, which in ((local, got[1], "remote"), (remote, got[0], "local"), (peer, got[2], "peer")):
        relevant = {"remote": local["type"] == "nic", "local": remote["type"] == "custom" and local["type"] != "custom",
                    "peer": True}[which]
        if relevant and "nic" in src and dst.get("nic") != src["nic"]:
            ok = False
            ctx.fail("peer_variant_counterpart", inp, {which: dst}, {"nic": src["nic"]}, "nic_role_not_handed_over:right_" + which)
    if want != ("nic", "custom", "ip"):
        ctx.nontrivial.add(json.dumps(inp, sort_keys=True))
    return ok


def in_net(layout, vm, net):
    """-> (member, clash): some interface address lies in net with the same netmask / with another netmask."""
    member = clash = False
    for ip, mask in (v[:2] for v in layout[vm].values()):
        if netaddr(ip, net[1]) == net[0]:
            member, clash = member or mask == net[1], clash or mask != net[1]
    return member, clash


def oracle_side(inp, vm, side):
    """Is the node on that side of the tunnel: end point, in the end LAN, or addressed inside a forwarded net."""
    end = inp[side]
    local, remote = inp["local"], inp["remote"]
    if vm == end:
        return True, False
    if local["type"] == "custom":
        net = (local["lnet"], local["lmask"]) if side == "left" else (local["rnet"], local["rmask"])
        if side == "right" and remote["type"] != "custom":
            return False, False
        return in_net(inp["net"], vm, net)
    if side == "left" and local["type"] != "nic" or side == "right" and remote["type"] != "custom":
        return False, False
    ip, mask = inp["net"][end][ROLES[(local if side == "left" else remote).get("nic", "lan_nic")]][:2]
    lan = (netaddr(ip, mask), mask)
    return any((netaddr(i, m), m) == lan for i, m in (v[:2] for v in inp["net"][vm].values())), False


def check_connects(inp, ctx, tunnel=None, nodes=None):
    """Obligations connects_nodes_symmetric, connects_nodes_membership for one unordered pair {a, b}."""
    ctx.cases += 1
    ctx.obl["connects_nodes_symmetric"] += 1
    ctx.obl["no_unexpected_exception"] += 1
    if tunnel is None:
        tunnel, nodes = construct(inp)
    a, b = inp["a"], inp["b"]
    out = []
    for x, y in ((a, b), (b, a)):
        try:
            res = tunnel.connects_nodes(nodes[x], nodes[y])
            out.append(res if isinstance(res, bool) else repr(res))
        except Exception as exc:
            out.append(type(exc).__name__)
    sides = {(vm, s): oracle_side(inp, vm, s) for vm in (a, b) for s in ("left", "right")}
    on = {k: v[0] for k, v in sides.items()}
    may_raise = any(v[1] for v in sides.values())
    if any(v[0] or v[1] for v in sides.values()):
        ctx.nontrivial.add(json.dumps(inp, sort_keys=True))
    ok = True
    if out[0] != out[1]:
        ok = False
        ctx.fail("connects_nodes_symmetric", inp, {"(a,b)": out[0], "(b,a)": out[1]}, "same outcome", "%s/%s" % tuple(sorted(map(str, out))))
    for o in out:
        if not isinstance(o, bool) and not (o == "IndexError" and may_raise):
            ok = False
            ctx.fail("no_unexpected_exception", inp, o, "boolean (IndexError only for a netmask clash)", "connects_nodes:" + o)
    if all(isinstance(o, bool) for o in out) and not may_raise:
        ctx.obl["connects_nodes_membership"] += 1
        want = (on[(a, "left")] and on[(b, "right")]) or (on[(a, "right")] and on[(b, "left")])
        if out[0] != want or out[1] != want:
            ok = False
            ctx.fail("connects_nodes_membership", inp, out, want, "got_%s/%s_want_%s" % (out[0], out[1], want))
    return ok


# ---------------------------------------------------------------- enumeration
def nic_dict(base, which, choice):
    d = dict(base)
    if choice == "default":
        d["nic"] = DEFAULT_ROLE[which]
    elif choice == "other":
        d["nic"] = "dmz_nic"
    return d


def local_base(typ, custom):
    if typ != "custom":
        return {"type": typ}
    return {"type": "custom", "lnet": custom[0][0], "lmask": custom[0][1], "rnet": custom[1][0], "rmask": custom[1][1]}


def remote_base(typ):
    return {"type": "modeconfig", "modeconfig_ip": "172.30.0.1"} if typ == "modeconfig" else {"type": typ}


AUTHS = [None, {"type": "none"}, {"type": "pubkey"}] + [
    {"type": "psk", "psk": "the secret", "left_id": lid, "right_id": rid}
    for lid, rid in (("arnold@left", "arnold@right"), ("", ""), ("", "arnold@right"), ("arnold@left", ""))]


def init_cases(layout, left, right, custom):
    for lt, rt, pt in itertools.product(LOCALS, REMOTES, PEERS):
        for nl, nr, np_ in itertools.product(("absent", "default", "other"), repeat=3):
            for auth in AUTHS:
                yield {"kind": "init", "net": layout, "left": left, "right": right,
                       "local": nic_dict(local_base(lt, custom), "local", nl), "remote": nic_dict(remote_base(rt), "remote", nr),
                       "peer": nic_dict({"type": pt}, "peer", np_), "auth": auth}


def variant_cases():
    custom = FIXED_CUSTOM[:2]
    for lt, rt, pt in itertools.product(LOCALS, REMOTES, PEERS):
        for nl, nr, np_ in itertools.product(("absent", "default", "other"), repeat=3):
            yield {"kind": "variant", "local": nic_dict(local_base(lt, custom), "local", nl),
                   "remote": nic_dict(remote_base(rt), "remote", nr), "peer": nic_dict({"type": pt}, "peer", np_)}


def minimal_cases(layout, left, right):
    for lt, rt, pt in itertools.product(LOCALS, REMOTES, PEERS):
        for auth in (None, {"type": "pubkey"}, {"type": "psk"}):
            yield {"kind": "init", "net": layout, "left": left, "right": right, "local": {"type": lt},
                   "remote": {"type": rt}, "peer": {"type": pt}, "auth": auth}


def unsupported_cases(layout, left, right, custom):
    full = {"local": lambda t: nic_dict(local_base(t, custom), "local", "default"),
            "remote": lambda t: nic_dict(remote_base(t), "remote", "default"),
            "peer": lambda t: nic_dict({"type": t}, "peer", "default")}
    bad = {"local": ["externalip", "modeconfig", "ip", "NIC", "lan", ""], "remote": ["nic", "internetip", "dynip", "CUSTOM", "site", ""],
           "peer": ["nic", "custom", "static", "IP", ""], "auth": ["password", "PSK", "public", ""]}
    for lt, rt, pt in itertools.product(LOCALS, REMOTES, PEERS):
        good = {"local": full["local"](lt), "remote": full["remote"](rt), "peer": full["peer"](pt), "auth": None}
        for which, types in bad.items():
            for t in types:
                case = dict(good, kind="init", net=layout, left=left, right=right)
                case[which] = {"type": t, "psk": "x", "left_id": "", "right_id": ""} if which == "auth" else dict(good[which], type=t)
                yield case


def endpoints(layout, nics=("b1", "b2")):
    able = [vm for vm in sorted(layout) if set(nics) <= set(layout[vm])]
    return [(x, y) for x in able for y in able if x != y]


def connect_tunnels(layout, left, right):
    cands = custom_candidates(layout)
    for lt, rt, pt in itertools.product(LOCALS, REMOTES, PEERS):
        pairs = [cands[:2]] if lt != "custom" else [[c1, c2] for c1 in cands for c2 in cands if c1 != c2]
        for i, custom in enumerate(pairs):
            if lt == "custom" and (rt, pt) != ("custom", "ip") and i % 5:
                continue       # every forwarding pair for site-to-site, every fifth for the other shapes
            yield {"net": layout, "left": left, "right": right, "local": nic_dict(local_base(lt, custom), "local", "default"),
                   "remote": nic_dict(remote_base(rt), "remote", "default"), "peer": nic_dict({"type": pt}, "peer", "default"), "auth": None}


def run_case(inp, ctx):
    return {"init": check_init, "variant": check_variant, "connects": check_connects}[inp["kind"]](inp, ctx)


def main():
    if "--replay" in sys.argv:
        inp = json.loads(sys.argv[sys.argv.index("--replay") + 1])
        ctx = Ctx()
        ok = run_case(inp, ctx) and not ctx.failures
        print(json.dumps({"ok": bool(ok), "failures": list(ctx.kept.values())}, indent=1, default=str))
        return 0 if ok else 1
    tier = os.environ.get("VERIF_TIER", "quick")
    rnd = random.Random(int(os.environ.get("VERIF_SEED", "0") or 0))
    n_random, n_init, budget = (4, 1, 90) if tier == "quick" else (120, 6, 1000)
    layouts = [FIXED] + [random_layout(rnd) for _ in range(n_random)]
    ctx, t0, samples, exhaustive = Ctx(), time.time(), [], True
    for case in variant_cases():
        run_case(case, ctx)
    for layout in layouts[:n_init]:
        custom = custom_candidates(layout)[:2]
        for left, right in endpoints(layout, ("b1", "b2", "b3"))[:2]:
            for gen in (init_cases(layout, left, right, custom), minimal_cases(layout, left, right),
                        unsupported_cases(layout, left, right, custom)):
                for i, case in enumerate(gen):
                    run_case(case, ctx)
                    if i == 100 and len(samples) < 3:
                        samples.append(case)
    done = 0
    for layout in layouts:
        if time.time() - t0 > budget:
            exhaustive = False
            break
        done += 1
        for left, right in endpoints(layout):
            for spec in connect_tunnels(layout, left, right):
                try:
                    tunnel, nodes = construct(spec)
                except Exception as exc:     # fully keyed documented combination: construction has to work
                    ctx.fail("no_unexpected_exception", dict(spec, kind="init"), where(exc), "tunnel is built", where(exc))
                    continue
                for a, b in itertools.combinations(sorted(layout), 2):
                    case = dict(spec, kind="connects", a=a, b=b)
                    check_connects(case, ctx, tunnel, nodes)
                    if ctx.cases % 20011 == 0 and len(samples) < 6:
                        samples.append(case)
    res = {"name": "tunnel", "obligations": ctx.obl, "cases": ctx.cases, "distinct_nontrivial": len(ctx.nontrivial),
           "rule": "init: construction accepted and either both end nets are defined or the PSK ids differ (or an undocumented type is "
                   "rejected); variant: counterpart differs from the default triple; connects: at least one node of the pair is on a "
                   "side of the tunnel by the oracle (or sits in a forwarded net with a clashing netmask)",
           "bound": "layouts=%d/%d (7-node hand-made + seeded random 3..6 nodes, <=3 nics), init on %d layout(s) x <=2 ordered end point "
                    "pairs: 18 type combos x 27 nic-key shapes x 7 auth shapes + 54 type-only + 414 undocumented-type cases; "
                    "variant 18x27; connects: all ordered end point pairs x (18 + forwardings over ordered pairs of %d candidate nets: "
                    "all of them for custom/custom/ip, every fifth for the other shapes) x all unordered node pairs in both orders; the "
                    "random layouts are a seeded sample" % (done, len(layouts), n_init, len(LAN_POOL)),
           "exhaustive": bool(exhaustive), "samples": samples[:6], "failure_counts": ctx.counts,
           "failures": list(ctx.kept.values())[:10]}
    print("BOUNDED-RESULT " + json.dumps(res, default=str))
    return 0


if __name__ == "__main__":
    sys.exit(main())
