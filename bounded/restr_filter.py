"""Bounded stand-in for the restriction filters of the graph (C08 'never on a worker whose object restrictions exclude it',
C11 'per-vm restrictions narrow the objects as documented'): TestGraph.get_objects_by_restr / get_nodes_by_restr of
avocado_i2n/cartgraph/graph.py against an independent matcher.

Scope (stated bound): objects / nodes with names from a fixed pool of 10 dotted variant names (the vm variants of the
sample suite); restrictions of 1..2 lines, each `only` or `no` with 1..3 variant tokens drawn from 8 tokens, written with
the separators ',', ', ' and ' , ' (the shipped nets.cfg writes `no_vm2 = WinXP, Win8`); exhaustive over that product.
Oracle (from the Cartesian meaning of a simple filter): a name matches a token iff the token occurs in it as a whole
dot-separated component sequence; `only a, b` keeps names matching a or b; `no a, b` keeps names matching neither; lines
are applied in sequence (intersection).
"""
import itertools
import json
import os
import re
import sys

REPO = os.environ.get("VERIF_REPO", "/repo")
sys.path.insert(0, REPO)
os.environ.setdefault("TMPDIR", "/tmp")

NAMES = ["vm1.qemu_kvm_centos.CentOS", "vm1.qemu_kvm_fedora.Fedora", "vm2.qemu_kvm_windows_xp.WinXP",
         "vm2.qemu_kvm_windows_7.Win7", "vm2.qemu_kvm_windows_8.Win8", "vm2.qemu_kvm_windows_10.Win10",
         "vm3.qemu_kvm_ubuntu.Ubuntu", "vm3.qemu_kvm_kali.Kali", "nets.net1.localhost", "nets.cluster1.net6"]
TOKENS = ["CentOS", "Fedora", "WinXP", "Win7", "Win8", "Win10", "qemu_kvm_fedora", "vm2"]
SEPARATORS = [",", ", ", " , "]


class Thing:
    def __init__(self, name):
        self.params = {"name": name}

    def __repr__(self):
        return self.params["name"]


def matches(name, token):
    parts, tok = name.split("."), token.split(".")
    return any(parts[i:i + len(tok)] == tok for i in range(len(parts) - len(tok) + 1))


def oracle(names, lines):
    keep = list(names)
    for kind, tokens in lines:
        if kind == "only":
            keep = [n for n in keep if any(matches(n, t) for t in tokens)]
        else:
            keep = [n for n in keep if not any(matches(n, t) for t in tokens)]
    return keep


def render(lines, sep):
    return "".join(f"{kind} {sep.join(tokens)}\n" for kind, tokens in lines)


def cases(tier):
    token_sets = [list(c) for k in (1, 2, 3) for c in itertools.combinations(TOKENS, k)]
    if tier != "thorough":
        token_sets = [t for t in token_sets if len(t) <= 2] + [["WinXP", "Win7", "Win8"], ["CentOS", "Win10", "vm2"]]
    single = [[(kind, ts)] for kind in ("only", "no") for ts in token_sets]
    double = [[(k1, t1), (k2, t2)] for k1 in ("only", "no") for k2 in ("only", "no")
              for t1 in token_sets[:10] for t2 in token_sets[5:15]]
    for lines in single + double:
        for sep in SEPARATORS:
            yield lines, sep


def run_case(graph_cls, lines, sep):
    text = render(lines, sep)
    failures = []
    expected = oracle(NAMES, lines)
    for fn in ("get_objects_by_restr", "get_nodes_by_restr"):
        things = [Thing(n) for n in NAMES]
        try:
            got = [t.params["name"] for t in getattr(graph_cls(), fn)(text, subset=things)]
        except Exception as e:          # noqa: BLE001
            got = f"{type(e).__name__}: {e}"
        if got != expected:
            extra = sorted(set(got) - set(expected)) if isinstance(got, list) else []
            cls = ("exception" if not isinstance(got, list) else
                   "excluded_variant_kept" if extra and lines[-1][0] == "no" or any(k == "no" for k, _ in lines) and extra
                   else "wrong_selection")
            failures.append({"obligation": f"{fn}_exact", "input": {"restriction": text, "function": fn},
                             "observed": got, "expected": expected, "class": cls})
    return failures


def main():
    from avocado_i2n.cartgraph import TestGraph
    tier = os.environ.get("VERIF_TIER", "quick")
    if "--replay" in sys.argv:
        inp = json.loads(sys.argv[sys.argv.index("--replay") + 1])
        text = inp["restriction"]
        lines = []
        for ln in text.splitlines():
            kind, rest = ln.split(" ", 1)
            lines.append((kind, [t.strip() for t in rest.split(",")]))
        things = [Thing(n) for n in NAMES]
        got = [t.params["name"] for t in getattr(TestGraph(), inp["function"])(text, subset=things)]
        exp = oracle(NAMES, lines)
        print("restriction:", repr(text), "\nobserved:", got, "\nexpected:", exp)
        sys.exit(1 if got != exp else 0)
    n, failures, counts, samples = 0, [], {}, []
    per_ob = {"get_objects_by_restr_exact": 0, "get_nodes_by_restr_exact": 0}
    nontrivial = 0
    for lines, sep in cases(tier):
        n += 1
        for k in per_ob:
            per_ob[k] += 1
        exp = oracle(NAMES, lines)
        if 0 < len(exp) < len(NAMES):
            nontrivial += 1
        if len(samples) < 4 and n % 97 == 1:
            samples.append({"restriction": render(lines, sep), "expected": exp})
        for f in run_case(TestGraph, lines, sep):
            key = f"{f['obligation']}/{f['class']}"
            counts[key] = counts.get(key, 0) + 1
            if counts[key] <= 5:
                failures.append(f)
    res = {"name": "restr_filter", "obligations": {k: {"cases": v} for k, v in per_ob.items()}, "cases": n,
           "distinct_nontrivial": nontrivial,
           "rule": "case = one restriction text (1..2 lines of only/no with 1..3 tokens, one separator spelling) applied to the "
                   "10 names; non-trivial = it keeps some but not all names",
           "bound": f"tier={tier}: {n} restriction texts over 10 names, 8 tokens, separators {SEPARATORS}", "exhaustive": True,
           "samples": samples, "failures": failures, "failure_counts": counts}
    print("BOUNDED-RESULT " + json.dumps(res))


if __name__ == "__main__":
    main()
