"""Bounded stand-in for C18: the vm network model (avocado_i2n.vmnet: VMNetconfig, VMInterface, VMNode, VMNetwork)
against integer/ipaddress oracles written from the property statement.

Obligations (one clause of C18 each):
  mask_bit_roundtrip         for all 33 prefix lengths (x several network addresses) setting `mask_bit` yields the
                             netmask 2^32 - 2^(32-n) in dotted form, reading `mask_bit` of that netmask yields n again and
                             setting the read value reproduces the netmask (exhaustive).
  translate_address_offset   `translate_address(ip, nat_ip)` == network address of nat_ip (under the own prefix length)
                             + (ip - own network address), for enumerated subnets x offsets x target addresses.
  allocate_sequence          successive `get_allocatable_address` calls return pairwise distinct addresses inside
                             [net+start, net+end], never one used by a registered interface, and raise IndexError exactly
                             when no never-handed-out unused address of the range is left (and keep raising).
  network_well_formed        after `VMNetwork(params, env)`: every interface hangs on its node, has exactly one netconfig
                             that is registered in `netconfigs` under its network address, is registered exactly once
                             (under its own address) in exactly that netconfig, lies in its subnet, all addresses are
                             pairwise distinct, and the netconfigs are exactly the distinct subnets of the parameters.
  reattach_keeps_well_formed the same predicate after each `reattach_interface` (all/sampled pairs of vms/nics, with and
                             without `proxy_nic`, sequences of up to 2-3 reattachments); without proxy the interface lands
                             in the server interface's netconfig with a fresh unused address of its range; IndexError is
                             allowed only when that range has no never-handed-out unused address left.

Scope (stated bound): 1..3 vms x 1..3 nics (per-vm nic counts), each nic in one of 3 pairwise disjoint subnets drawn
from a pool of 9 (prefix lengths 8,16,22,24,25,28,30; default and explicit DHCP ranges, one crossing an octet border),
its static address either inside or outside the DHCP range; precondition: distinct static addresses, DHCP range inside
the subnet. Shapes with few slots are enumerated completely, larger ones up to a cap (seeded sample).
quick: <= 40 configurations per shape, <= 16 reattach sequences per configuration; thorough: <= 600 / <= 60.
Infrastructure: vms are plain fakes (name + params), env is a fake, nothing touches the host. A recording wrapper
around `VMNetconfig.get_allocatable_address` (calls the real method) logs which addresses a reattachment hands out.

Failure classes (stable labels, `failure_classes` counts all, `failures` lists <= 2 per class):
  alloc:/reattach:/proxy_reattach:allocated_address_in_use  an address in use by a registered interface is handed out
  proxy_reattach_breaks_model   the full predicate fails after a `proxy_nic` reattachment although the documented proxy
                                behaviour (server nic takes the proxy address, client gets a fresh address of the proxy's
                                netconfig, bystanders untouched) was observed; other deviations get `proxy_reattach:<what>`
  build:<clause>, reattach:<clause>, alloc:<what>, *exception   anything else (none on the unchanged tree)
"""
import ipaddress
import itertools
import json
import logging
import os
import random
import sys
import time

sys.path.insert(0, os.environ.get("VERIF_REPO", "/repo"))
logging.disable(logging.CRITICAL)

from virttest.utils_params import Params  # noqa: E402
from avocado_i2n.vmnet.netconfig import VMNetconfig  # noqa: E402
from avocado_i2n.vmnet.interface import VMInterface  # noqa: E402
from avocado_i2n.vmnet.network import VMNetwork  # noqa: E402

OBS = ["mask_bit_roundtrip", "translate_address_offset", "allocate_sequence", "network_well_formed",
       "reattach_keeps_well_formed", "no_unexpected_exception"]

# (network address, prefix length, range or None for the default "100-200", static offsets outside / inside the range)
POOL = [
    ("10.1.0.0", 16, None, [1, 2, 257, 99, 201, 3], [100, 101, 150, 200, 102, 199]),
    ("172.17.0.0", 16, None, [1, 2, 3, 4, 65534, 5], [100, 200, 120, 101, 102, 103]),
    ("192.168.5.0", 24, "10-12", [1, 2, 9, 13, 254, 3], [10, 11, 12]),
    ("192.168.7.16", 28, "2-5", [1, 6, 14, 7, 8, 9], [2, 3, 5, 4]),
    ("10.3.3.4", 30, "1-2", [], [1, 2]),
    ("172.20.4.0", 22, "250-260", [1, 300, 1000, 249, 261, 1022], [250, 256, 260, 255, 257, 251]),
    ("11.0.0.0", 8, None, [1, 65541, 16777214, 2, 3, 4], [100, 200, 101, 102, 103, 104]),
    ("192.168.9.128", 25, "100-103", [1, 2, 126, 99, 104, 3], [100, 103, 101, 102]),
    ("10.2.0.0", 16, None, [1, 2, 257, 3, 4, 5], [100, 101, 200, 102, 103, 104]),     # neighbour of the first one
]
PER_IFACE = ("node_link", "no_netconfig", "netconfig_unregistered", "registration_count", "key_mismatch", "outside_subnet")
TRIPLES = [(0, 1, 2), (2, 3, 4), (5, 7, 0), (6, 3, 1), (4, 2, 5), (7, 4, 6), (0, 8, 3)]


SPY = {"vmnet": None, "iface": None, "log": []}
_real_allocate = VMNetconfig.get_allocatable_address


def _spy_allocate(self):
    """Record every address handed out during a reattachment together with the addresses in use at that moment."""
    got = _real_allocate(self)
    if SPY["vmnet"] is not None:
        SPY["log"].append((got, {i.ip for i in SPY["vmnet"].interfaces.values() if i is not SPY["iface"]}))
    return got


VMNetconfig.get_allocatable_address = _spy_allocate


def ip2int(ip):
    return int(ipaddress.IPv4Address(ip))


def int2ip(num):
    return ".".join(str((num >> s) & 255) for s in (24, 16, 8, 0))


def dotted_mask(bits):
    return int2ip((0xFFFFFFFF << (32 - bits)) & 0xFFFFFFFF)


def fail(failures, counts, obligation, inp, observed, expected, cls):
    counts[cls] = counts.get(cls, 0) + 1
    if counts[cls] <= 2:
        failures.append({"obligation": obligation, "input": inp, "observed": observed, "expected": expected, "class": cls})


# ---------------------------------------------------------------- (1) netmask <-> mask_bit
def case_maskbit(inp, failures, counts):
    bits, net_ip = inp["bits"], inp["net_ip"]
    want = dotted_mask(bits)
    try:
        nc = VMNetconfig()
        nc.net_ip = net_ip
        nc.mask_bit = str(bits)
        got_mask, got_bits = nc.netmask, nc.mask_bit
        nc2 = VMNetconfig()
        nc2.net_ip = net_ip
        nc2.netmask = want
        back = nc2.mask_bit
        nc2.mask_bit = back
        again = nc2.netmask
    except Exception as error:
        fail(failures, counts, "no_unexpected_exception", inp, repr(error), "no exception", "maskbit_exception")
        return False
    if (got_mask, got_bits, back, again) != (want, str(bits), str(bits), want):
        fail(failures, counts, "mask_bit_roundtrip", inp, [got_mask, got_bits, back, again],
             [want, str(bits), str(bits), want], "mask_bit_roundtrip")
        return False
    return True


# ---------------------------------------------------------------- (2) address translation
def make_netconfig(net, bits, rng, offset=1):
    params = Params({"mac": "02:00:00:00:00:01", "ip": int2ip(ip2int(net) + offset), "netmask": dotted_mask(bits)})
    if rng is not None:
        params["range"] = rng
    nc = VMNetconfig()
    nc.from_interface(VMInterface("b0", params))
    return nc


def case_translate(inp, failures, counts):
    net, bits, offset, nat_ip = inp["net"], inp["bits"], inp["offset"], inp["nat_ip"]
    mask = (0xFFFFFFFF << (32 - bits)) & 0xFFFFFFFF
    want = int2ip((ip2int(nat_ip) & mask) + offset)
    try:
        nc = make_netconfig(net, bits, None, offset=min(1, 2 ** (32 - bits) - 1))
        got = nc.translate_address(int2ip(ip2int(net) + offset), nat_ip)
    except Exception as error:
        fail(failures, counts, "no_unexpected_exception", inp, repr(error), want, "translate_exception")
        return False
    if got != want:
        fail(failures, counts, "translate_address_offset", inp, got, want, "translate_address_offset")
        return False
    return True


# ---------------------------------------------------------------- (3) allocation
def case_alloc(inp, failures, counts):
    """inp: net, bits, range [a, b], static (offsets of registered interfaces), register (add each allocated address
    as an interface as `reattach_interface` does)."""
    net, bits, (start, end) = inp["net"], inp["bits"], inp["range"] or (100, 200)     # range None: documented default
    base = ip2int(net)
    try:
        nc = make_netconfig(net, bits, "%s-%s" % (start, end) if inp["range"] else None,
                            offset=inp["static"][0] if inp["static"] else 1)
        for i, off in enumerate(inp["static"]):
            nc.add_interface(VMInterface("s%s" % i, Params({"mac": "02:00:00:00:01:%02x" % i, "ip": int2ip(base + off),
                                                             "netmask": dotted_mask(bits)})))
        if (nc.ip_start, nc.ip_end) != (int2ip(base + start), int2ip(base + end)):
            fail(failures, counts, "allocate_sequence", inp, [nc.ip_start, nc.ip_end],
                 [int2ip(base + start), int2ip(base + end)], "alloc:range_boundaries")
            return False
    except Exception as error:
        fail(failures, counts, "no_unexpected_exception", inp, repr(error), "no exception", "alloc_setup_exception")
        return False
    handed = []
    free = [base + o for o in range(start, end + 1) if o not in inp["static"]]
    for step in range(len(free) + 2):
        used = {i.ip for i in nc.interfaces.values()}
        try:
            got = nc.get_allocatable_address()
        except IndexError:
            got = None
        except Exception as error:
            fail(failures, counts, "no_unexpected_exception", inp, repr(error), "address or IndexError", "alloc_exception")
            return False
        if got is not None and got in used:
            fail(failures, counts, "allocate_sequence", inp, {"step": step, "got": got}, "an unused address or IndexError",
                 "alloc:allocated_address_in_use")
            return False
        if step >= len(free):
            if got is not None:
                fail(failures, counts, "allocate_sequence", inp, {"step": step, "got": got},
                     "IndexError (range exhausted)", "alloc:no_exhaustion_report")
                return False
            continue
        if got is None:
            fail(failures, counts, "allocate_sequence", inp, {"step": step, "got": "IndexError"},
                 "one of %s free addresses" % (len(free) - step), "alloc:premature_exhaustion")
            return False
        if got in handed or not (base + start <= ip2int(got) <= base + end):
            fail(failures, counts, "allocate_sequence", inp, {"step": step, "got": got, "handed": handed},
                 "fresh address in range", "alloc:repeated_address" if got in handed else "alloc:address_outside_range")
            return False
        handed.append(got)
        if inp.get("register"):
            nc.add_interface(VMInterface("d%s" % step, Params({"mac": "02:00:00:00:02:%02x" % (step % 256), "ip": got,
                                                                "netmask": dotted_mask(bits)})))
    return True


# ---------------------------------------------------------------- (4), (5) network model
class FakeVM:
    def __init__(self, name, params):
        self.name, self.params, self.remote_sessions = name, params, []


class FakeEnv:
    def __init__(self):
        self.vms = {}

    def get_vm(self, name):
        return self.vms.get(name)

    def create_vm(self, vm_type, target, name, params, bindir):
        self.vms[name] = FakeVM(name, params)
        return self.vms[name]


def build(inp):
    """inp: subnets [[net, bits, range|None], ...], vms [[[subnet index, host offset], ... per nic], ... per vm]."""
    params = Params({"vms": " ".join("vm%s" % (v + 1) for v in range(len(inp["vms"]))), "vm_type": "qemu"})
    for k in range(3):
        params["role%s" % (k + 1)] = "b%s" % (k + 1)
    for v, nics in enumerate(inp["vms"]):
        params["nics_vm%s" % (v + 1)] = " ".join("b%s" % (n + 1) for n in range(len(nics)))
        for n, (sub, off) in enumerate(nics):
            net, bits, rng = inp["subnets"][sub]
            suffix = "b%s_vm%s" % (n + 1, v + 1)
            params["mac_" + suffix] = "02:00:00:00:%02x:%02x" % (v + 1, n + 1)
            params["ip_" + suffix] = int2ip(ip2int(net) + off)
            params["netmask_" + suffix] = dotted_mask(bits)
            params["netdst_" + suffix] = "virbr%s" % sub
            if rng is not None:
                params["range_" + suffix] = rng
    return VMNetwork(params, FakeEnv())


def violations(vmnet, inp=None):
    """The well-formedness predicate of C18 as a list of violated clauses (empty = well formed)."""
    out = []
    for key, iface in vmnet.interfaces.items():
        vm, nic = key.split(".")
        if iface.node is not vmnet.nodes.get(vm) or vmnet.nodes[vm].interfaces.get(nic) is not iface:
            out.append(("node_link", key))
        nc = iface.netconfig
        if nc is None:
            out.append(("no_netconfig", key))
            continue
        if vmnet.netconfigs.get(nc.net_ip) is not nc:
            out.append(("netconfig_unregistered", key))
        holders = [(c, k) for c in set(vmnet.netconfigs.values()) | {nc} for k, i in c.interfaces.items() if i is iface]
        if len(holders) != 1 or holders[0][0] is not nc:
            out.append(("registration_count", key, len(holders)))
        if nc.interfaces.get(iface.ip) is not iface:
            out.append(("key_mismatch", key, iface.ip))
        if ipaddress.ip_address(iface.ip) not in ipaddress.ip_network("%s/%s" % (nc.net_ip, nc.netmask)):
            out.append(("outside_subnet", key, iface.ip, nc.net_ip))
    ips = [i.ip for i in vmnet.interfaces.values()]
    for ip in sorted(set(ips)):
        if ips.count(ip) > 1:
            out.append(("duplicate_address", ip))
    known = {id(i) for i in vmnet.interfaces.values()}
    for nc in vmnet.netconfigs.values():
        for k, i in nc.interfaces.items():
            if id(i) not in known or i.ip != k:
                out.append(("stale_entry", nc.net_ip, k))
    if inp is not None:     # right after the build: the netconfigs are exactly the distinct subnets of the parameters
        want = sorted({(inp["subnets"][s][0], dotted_mask(inp["subnets"][s][1])) for nics in inp["vms"] for s, _ in nics})
        got = sorted((nc.net_ip, nc.netmask) for nc in vmnet.netconfigs.values())
        if got != want or sorted(k for k in vmnet.netconfigs) != [w[0] for w in want]:
            out.append(("partition", got, want))
        if sorted(vmnet.interfaces) != sorted("vm%s.b%s" % (v + 1, n + 1) for v, x in enumerate(inp["vms"]) for n in range(len(x))):
            out.append(("interface_set", sorted(vmnet.interfaces)))
        for v, nics in enumerate(inp["vms"]):
            for n, (sub, off) in enumerate(nics):
                if vmnet.interfaces["vm%s.b%s" % (v + 1, n + 1)].ip != int2ip(ip2int(inp["subnets"][sub][0]) + off):
                    out.append(("static_address_changed", v, n))
    return out


def case_net(inp, failures, counts, stats):
    """Build the network, check (4); then apply inp["ops"] = [[client vm, client nic, server vm, server nic, proxy nic
    or None], ...] (indices) in sequence and check (5) after each. Returns True when every clause held."""
    rec = dict(inp)
    try:
        vmnet = build(inp)
    except Exception as error:
        fail(failures, counts, "no_unexpected_exception", dict(rec, ops=[]), repr(error), "no exception", "build_exception")
        return False
    stats["network_well_formed"] += not inp.get("ops")
    bad = violations(vmnet, inp)
    if bad:
        fail(failures, counts, "network_well_formed", dict(rec, ops=[]), bad[:6], [], "build:" + bad[0][0])
        return False
    handed = {}     # net ip of a netconfig -> addresses handed out by it so far
    for step, (cv, cn, sv, sn, pn) in enumerate(inp.get("ops", [])):
        stats["reattach_keeps_well_formed"] += 1
        rec = dict(inp, ops=inp["ops"][:step + 1])
        client, server = vmnet.nodes["vm%s" % (cv + 1)].platform, vmnet.nodes["vm%s" % (sv + 1)].platform
        iface = vmnet.interfaces["vm%s.b%s" % (cv + 1, cn + 1)]
        ref = vmnet.interfaces["vm%s.b%s" % (sv + 1, sn + 1)]
        target = ref.netconfig
        proxy = vmnet.interfaces["vm%s.b%s" % (sv + 1, pn + 1)] if pn is not None and pn != sn else None
        others = {i.ip for i in vmnet.interfaces.values() if i is not iface}

        def free_of(netconfig):
            rng = next(r for net, _, r in inp["subnets"] if net == netconfig.net_ip)
            start, end = (int(x) for x in (rng or "100-200").split("-"))
            pool = [int2ip(ip2int(netconfig.net_ip) + o) for o in range(start, end + 1)]
            return [a for a in pool if a not in others and a not in handed.get(netconfig.net_ip, [])]
        free = free_of(target)
        if proxy is not None:       # the server interface moves to the proxy address before the second allocation
            others = others - ({ref.ip} if ref is not iface else set())
            pnet = target if proxy is iface else proxy.netconfig     # a proxy that is the client has moved by then
            pfree = free_of(pnet)
            enough = bool(free) and len(pfree) >= (2 if pnet is target else 1)
        else:
            enough = bool(free)
        SPY.update(vmnet=vmnet, iface=iface, log=[])
        try:
            vmnet.reattach_interface(client, server, "role%s" % (cn + 1), "role%s" % (sn + 1),
                                     "" if pn is None else "b%s" % (pn + 1))
        except IndexError as error:
            if enough:
                fail(failures, counts, "reattach_keeps_well_formed", rec, repr(error), "one of %s free addresses" % len(free),
                     "reattach:premature_exhaustion")
                return False
            return True     # exhaustion reported as required; the model is left detached, the sequence ends here
        except Exception as error:
            fail(failures, counts, "no_unexpected_exception", rec, repr(error), "no exception",
                 "proxy_reattach:exception" if proxy else "reattach:exception")
            return False
        finally:
            SPY.update(vmnet=None)
        bad = violations(vmnet)
        in_use = [got for got, used in SPY["log"] if got in used]
        if proxy is not None:
            # The full predicate is required by C18; the unchanged tree breaks it by design of the proxyARP variant (one
            # coarse class). Deviations from the documented proxy behaviour get their own classes: the server interface
            # takes the address of the proxy interface, the client gets a fresh address of the proxy's netconfig, and
            # no other interface is touched.
            cls = "proxy_reattach_breaks_model" if bad else None
            involved = {"vm%s.b%s" % (cv + 1, cn + 1), "vm%s.b%s" % (sv + 1, sn + 1), "vm%s.b%s" % (sv + 1, pn + 1)}
            if in_use:
                cls = "proxy_reattach:allocated_address_in_use"
            elif not enough:
                cls = "proxy_reattach:no_exhaustion_report"
            elif iface is ref or iface is proxy:
                pass        # degenerate roles: only the full predicate is checked
            elif iface.ip not in pfree or iface.netconfig is not proxy.netconfig:
                cls = "proxy_reattach:client_not_in_proxy_network"
            elif ref.ip != proxy.ip:
                cls = "proxy_reattach:server_address_not_proxy_address"
            elif any(b[0] in PER_IFACE and b[1] not in involved for b in bad):
                cls = "proxy_reattach:bystander_" + next(b[0] for b in bad if b[0] in PER_IFACE and b[1] not in involved)
            if cls is not None:
                fail(failures, counts, "reattach_keeps_well_formed", rec, {"new_ip": iface.ip, "violations": bad[:6]},
                     {"violations": []}, cls)
                return False
            continue
        cls = None
        if in_use or iface.ip in others:
            cls = "reattach:allocated_address_in_use"
        elif not free:
            cls, bad = "reattach:no_exhaustion_report", bad or [("allocated", iface.ip)]
        elif iface.ip not in free:
            cls, bad = "reattach:" + ("repeated_address" if iface.ip in handed.get(target.net_ip, []) else
                                      "address_outside_range"), bad or [("allocated", iface.ip)]
        elif iface.netconfig is not target:
            cls, bad = "reattach:wrong_target_netconfig", bad or [("netconfig", str(iface.netconfig))]
        elif vmnet.params.get("ip_b%s_vm%s" % (cn + 1, cv + 1)) != iface.ip or \
                vmnet.params.get("netmask_b%s_vm%s" % (cn + 1, cv + 1)) != target.netmask or \
                vmnet.params.get("netdst_b%s_vm%s" % (cn + 1, cv + 1)) != target.netdst:
            cls, bad = "reattach:params_not_synced", bad or [("params", vmnet.params.get("ip_b%s_vm%s" % (cn + 1, cv + 1)))]
        elif bad:
            cls = "reattach:" + bad[0][0]
        if cls is not None:
            fail(failures, counts, "reattach_keeps_well_formed", rec, {"new_ip": iface.ip, "violations": bad[:6]},
                 {"free": free[:4], "violations": []}, cls)
            return False
        handed.setdefault(target.net_ip, []).append(iface.ip)
    return True


def all_ops(shape):
    slots = [(v, n) for v, k in enumerate(shape) for n in range(k)]
    return [[cv, cn, sv, sn, pn] for (cv, cn) in slots for (sv, sn) in slots for pn in [None] + list(range(shape[sv]))
            if pn != sn]


def make_config(shape, triple, choice):
    """choice: per slot (index into triple, inside-range flag) -> explicit config with distinct static offsets."""
    subnets = [list(POOL[i][:3]) for i in triple]
    taken, vms, it = {}, [], iter(choice)
    for k in shape:
        nics = []
        for _ in range(k):
            sub, inside = next(it)
            outl, inl = POOL[triple[sub]][3], POOL[triple[sub]][4]
            cands = (inl + outl) if inside or not outl else (outl + inl)
            off = next((o for o in cands if o not in taken.setdefault(sub, set())), None)
            if off is None:
                return None
            taken[sub].add(off)
            nics.append([sub, off])
        vms.append(nics)
    return {"kind": "net", "subnets": subnets, "vms": vms}


def pick(failures):
    """At most 10 failures, every class represented before any class gets a second one."""
    first, seen = [], set()
    for f in failures:
        if f["class"] not in seen:
            seen.add(f["class"])
            first.append(f)
    return (first + [f for f in failures if f not in first])[:10]


def run_case(inp, failures, counts, stats):
    kind = inp.get("kind", "net")
    try:
        if kind == "maskbit":
            return case_maskbit(inp, failures, counts)
        if kind == "translate":
            return case_translate(inp, failures, counts)
        if kind == "alloc":
            return case_alloc(inp, failures, counts)
        return case_net(inp, failures, counts, stats)
    except Exception as error:      # anything the per-case handlers did not anticipate (never on the unchanged tree)
        SPY.update(vmnet=None)
        fail(failures, counts, "no_unexpected_exception", inp, repr(error), "no exception", kind + ":exception")
        return False


def main():
    failures, counts = [], {}
    stats = {o: 0 for o in OBS}
    if "--replay" in sys.argv:
        inp = json.loads(sys.argv[sys.argv.index("--replay") + 1])
        ok = run_case(inp, failures, counts, stats)
        print(json.dumps({"ok": ok, "failures": failures}, indent=1))
        return 0 if ok else 1
    tier = os.environ.get("VERIF_TIER", "quick")
    rnd = random.Random(int(os.environ.get("VERIF_SEED", "0") or 0))
    cap_cfg, cap_ops, budget = (40, 16, 80) if tier == "quick" else (600, 60, 1000)
    t0, cases, nontrivial, samples, exhaustive = time.time(), 0, 0, [], True

    # (1) exhaustive over the 33 prefix lengths x 4 network addresses
    for bits in range(33):
        for net_ip in ["0.0.0.0", "10.1.2.3", "192.168.255.255", "255.255.255.255"]:
            inp = {"kind": "maskbit", "bits": bits, "net_ip": net_ip}
            run_case(inp, failures, counts, stats)
            stats["mask_bit_roundtrip"] += 1
            nontrivial += bits not in (0, 32)
    samples.append({"kind": "maskbit", "bits": 23, "net_ip": "10.1.2.3"})

    # (2) subnets x prefix lengths x offsets x targets
    for src in ["10.1.0.0", "192.168.5.0", "172.20.4.0", "0.0.0.0", "255.255.255.252"] if tier == "quick" else \
            ["10.1.0.0", "192.168.5.0", "172.20.4.0", "0.0.0.0", "255.255.255.252", "11.0.0.0", "192.168.9.128", "224.0.0.0"]:
        for bits in range(1, 33):
            if ip2int(src) & ~((0xFFFFFFFF << (32 - bits)) & 0xFFFFFFFF) & 0xFFFFFFFF:
                continue    # not a network address for this prefix length
            size = 2 ** (32 - bits)
            for offset in sorted({0, 1, 2, 255, 256, size // 2, size - 2, size - 1, rnd.randrange(size)}):
                if not 0 <= offset < size:
                    continue
                for nat_ip in ["172.30.0.0", "172.30.0.1", "10.255.255.255", "192.168.77.130", "0.0.0.0", "8.8.8.8"]:
                    if ((ip2int(nat_ip) >> (32 - bits)) << (32 - bits)) + offset > 0xFFFFFFFF:
                        continue
                    inp = {"kind": "translate", "net": src, "bits": bits, "offset": offset, "nat_ip": nat_ip}
                    run_case(inp, failures, counts, stats)
                    stats["translate_address_offset"] += 1
                    nontrivial += offset != 0
    samples.append({"kind": "translate", "net": "172.20.4.0", "bits": 22, "offset": 513, "nat_ip": "192.168.77.130"})

    # (3) ranges x registered static interfaces (inside/outside the range) x plain/registering allocation
    for net, bits, rng, outl, inl in POOL:
        start, end = (int(x) for x in (rng or "100-200").split("-"))
        statics = [[], outl[:2]] + [inl[:k] for k in range(1, len(inl) + 1)] + [outl[:1] + inl[-1:], inl[1:2]]
        ranges = [[start, end], [start, start]] + ([[start + 1, end]] if end > start else []) + ([None] if rng is None else [])
        for span, static, register in itertools.product(ranges, statics, [False, True]):
            inp = {"kind": "alloc", "net": net, "bits": bits, "range": span, "static": static, "register": register}
            run_case(inp, failures, counts, stats)
            stats["allocate_sequence"] += 1
            nontrivial += 1
    samples.append({"kind": "alloc", "net": "172.20.4.0", "bits": 22, "range": [250, 260], "static": [1], "register": True})

    # (4), (5) shapes x subnet triples x per-slot (subnet, inside/outside range) x reattach ops
    shapes = [s for v in (1, 2, 3) for s in itertools.product((1, 2, 3), repeat=v)]
    done_cfg = total_cfg = 0
    per_slot = list(itertools.product(range(3), (False, True)))
    plan = {}
    for shape in shapes:
        slots = sum(shape)
        if len(per_slot) ** slots <= cap_cfg:
            plan[shape] = list(itertools.product(per_slot, repeat=slots))
        else:
            exhaustive = False
            plan[shape] = [tuple((rnd.randrange(3), rnd.random() < 0.25) for _ in range(slots)) for _ in range(cap_cfg)]
        total_cfg += len(plan[shape])
    for num in range(cap_cfg):                  # round robin over the shapes so that a time cut stays balanced
        for shape in shapes:
            if num >= len(plan[shape]) or time.time() - t0 > budget or len(counts) > 40:
                continue
            done_cfg += 1
            cfg = make_config(shape, TRIPLES[(num + sum(shape)) % len(TRIPLES)], plan[shape][num])
            if cfg is None:
                continue
            ops_all = all_ops(shape)
            ops = ops_all if len(ops_all) <= cap_ops else rnd.sample(ops_all, cap_ops)
            exhaustive = exhaustive and len(ops_all) <= cap_ops
            cases += 1
            if not run_case(dict(cfg, ops=[]), failures, counts, stats):
                continue
            plain = [o for o in ops_all if o[4] is None]
            for op in ops:
                seq = [op]
                if op[4] is None:       # extend proxy-free ops to sequences of 2 (thorough: 3)
                    seq += [rnd.choice(plain) for _ in range(1 if tier == "quick" else 2)]
                ok = run_case(dict(cfg, ops=seq), failures, counts, stats)
                cases += 1
                nontrivial += 1
                if len(samples) < 7 and ok and cases % 997 == 1:
                    samples.append(dict(cfg, ops=seq))
    cases += stats["mask_bit_roundtrip"] + stats["translate_address_offset"] + stats["allocate_sequence"]
    stats["no_unexpected_exception"] = cases
    res = {
        "name": "network", "obligations": stats, "cases": cases, "distinct_nontrivial": nontrivial,
        "rule": "non-trivial = prefix length not in {0,32} (1); host offset != 0 (2); every allocation sequence (3); every "
                "network configuration with at least one reattach op (4,5). Precondition: distinct static addresses, pairwise "
                "disjoint subnets, DHCP range inside the subnet",
        "bound": f"tier={tier}: 33 prefix lengths x 4 addresses; translate over {stats['translate_address_offset']} "
                 f"(subnet, prefix, offset, target) tuples; {stats['allocate_sequence']} allocation sequences over 9 subnets; "
                 f"{done_cfg}/{total_cfg} network configurations of 1..3 vms x 1..3 nics over 3 of 9 subnets (<= {cap_cfg} per "
                 f"shape), <= {cap_ops} reattach sequences (length <= {2 if tier == 'quick' else 3}) each",
        "exhaustive": bool(exhaustive and done_cfg == total_cfg),
        "samples": samples, "failures": pick(failures), "failure_classes": counts,
        "wall_s": round(time.time() - t0, 1),
    }
    print("BOUNDED-RESULT " + json.dumps(res))
    return 0


if __name__ == "__main__":
    sys.exit(main())
