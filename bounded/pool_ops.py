"""Bounded stand-in for C13 (scoped, proximity-ordered pool access) and C14 (exact, non-destructive, mutually exclusive
transfers) against the real avocado_i2n/states/pool.py.

Parts / finite scope (quick | thorough):
 A  get_source_scope / get_sources over a table of 11 source kinds (local own/shared/other paths, peer on own gateway+host,
    peer on own gateway other host, peers behind other gateways) x 2 own identities (named, empty gateway/host);
    every ordered list of 1..3 | 1..4 kinds, for each of show/get/set/unset.
 B  SourcedStateBackend.show/get/set/unset on a recording subclass + recording fake transport: every subset of
    {own, shared, swarm, cluster} (16) x source lists (all ordered 1..2; size 3: 36 seeded shuffled combinations | every
    combination in 2 orders) x every placement of states among sources x local copy present/absent x compare valid/invalid.
    Part B runs last under a time budget (100 s | 1100 s); if it is cut short, `exhaustive` is false.
 C  RootSourcedStateBackend.check/get/set/unset_root: every pool_scope string (ordered subsets) x local/pool/equal.
 D  TransferOps.compare/download/upload/delete in plain (":path") and link (":pool;/path") mode on real temp dirs: every
    cache pre-state (absent, no dir, file of each content, link to pool file, link into another pool, dead link) x every
    pool pre-state (absent, file of each content); contents "", "x", "yy", and two 1 MiB+1 files differing in the last byte.
 E  image_lock: exception injected at every patched call inside the critical section of every op, exception in the body,
    1..5 failed attempts vs timeout, foreign errno, a really contended lock held by a forked process that is then
    killed, and 2..3 | 2..8 forked processes uploading/downloading/deleting the same pool path with bracketed logging.

Obligations (one clause each): scope_table, sources_proximity_order, only_permitted_sources (transport contacts only
sources whose scope is enabled and is not "own", with that source's own net parameters; _get/_set/_unset/_show(list) iff
"own" enabled), get_closest_and_only_if_different, set_unset_every_mirror, show_subset, refusals, root_scope_gate,
transfer_exact, lock_discipline, no_unexpected_exception.
Oracles are tables/set algebra written from the property text, not from the implementation.
"""
import errno
import fcntl
import itertools
import json
import logging
import os
import random
import shutil
import signal
import sys
import tempfile
import time
import types
import warnings
from unittest import mock

warnings.filterwarnings("ignore")
sys.path.insert(0, os.environ.get("VERIF_REPO", "/repo"))
from virttest.utils_params import Params  # noqa: E402
from avocado_i2n.states import pool  # noqa: E402

logging.disable(logging.CRITICAL)
REAL_LOCKF, REAL_SLEEP = fcntl.lockf, time.sleep
OWN, SHARED = "/own/images", "/shared/pool"
IDENTS = [("gwA", "h1"), ("", "")]
# kind -> (net, path, documented scope); peers: 0 = own gateway+host, 1 = own gateway other host, 2..4 = other gateways
KINDS = {"own_local": ("", OWN, "own"), "own_net": ("peer0", OWN, "own"), "shared_local": ("", SHARED, "shared"),
         "path_local": ("", "/path/1", "shared"), "path_local2": ("", "/path/2", "shared"),
         "path_samehost": ("peer0", "/path/3", "shared"), "swarm": ("peer1", OWN, "swarm"),
         "swarm_path": ("peer1", "/path/4", "swarm"), "cluster_hostname": ("peer2", OWN, "cluster"),
         "cluster": ("peer3", OWN, "cluster"), "cluster2": ("peer4", OWN, "cluster")}
RANK = {"own": 0, "shared": 1, "swarm": 2, "cluster": 3}
SCOPES = ["own", "shared", "swarm", "cluster"]


class Injected(Exception):
    pass


def peers(ident):
    gw, host = IDENTS[ident]
    return {"": (gw, host), "peer0": (gw, host), "peer1": (gw, "h2"), "peer2": ("gwB", host), "peer3": ("gwB", "h3"),
            "peer4": ("gwC", "h3")}


def base_params(ident, shared_colon=False):
    gw, host = IDENTS[ident]
    p = Params({"nets": "net1", "vms": "vm1", "images": "image1", "object_id": "vm1-id", "object_type": "nets/vms/images",
                "swarm_pool": OWN, "shared_pool": (":" if shared_colon else "") + SHARED, "nets_gateway": gw,
                "nets_host": host, "image_name": "image1", "vms_base_dir": "/images", "update_pool_timeout": "300"})
    for name, (g, h) in peers(ident).items():
        if name:
            p[f"nets_gateway_{name}"], p[f"nets_host_{name}"] = g, h
    return p


def fail(ob, observed, expected, cls=None):
    f = {"obligation": ob, "observed": observed, "expected": expected}
    if cls:
        f["class"] = cls
    return f


# ---------------------------------------------------------------- part A
def scope_case(inp):
    net, path, want = KINDS[inp["kind"]]
    params = base_params(inp["ident"], inp.get("shared_colon", False))
    sparams = params.object_params(net) if net else params
    got = pool.SourcedStateBackend.get_source_scope(path, sparams, params)
    return [] if got == want else [fail("scope_table", got, want, "scope_of_" + inp["kind"])]


def order_case(inp):
    params, prs = base_params(inp["ident"]), peers(inp["ident"])
    locs = [KINDS[k][0] + ":" + KINDS[k][1] for k in inp["kinds"]]
    params[inp["do"] + "_location"] = " ".join(locs)
    got = pool.SourcedStateBackend.get_sources(inp["do"], params)
    if sorted(got) != sorted(locs):
        return [fail("sources_proximity_order", got, sorted(locs), "not_a_permutation")]
    info = {l: k for l, k in zip(locs, inp["kinds"])}
    ranks = [RANK[KINDS[info[l]][2]] for l in got]
    if ranks != sorted(ranks):
        return [fail("sources_proximity_order", got, "closest scope first (own, shared, swarm, cluster)", "farther_first")]
    me = prs[""]

    def attrs(l):
        net, path, _ = KINDS[info[l]]
        return (prs[net][0] == me[0], prs[net][1] == me[1], path == OWN)
    for a, b in itertools.combinations(locs, 2):        # a configured before b
        if attrs(a) == attrs(b) and got.index(a) > got.index(b):
            return [fail("sources_proximity_order", got, f"{a} before {b} (equally close, configured order)", "unstable")]
    return []


# ---------------------------------------------------------------- part B
def backend_case(inp):
    op, ident, enabled = inp["op"], inp["ident"], set(inp["scopes"])
    params, prs = base_params(ident), peers(ident)
    srcs = []
    for kind, listing in zip(inp["kinds"], inp["listing"]):
        net, path, scope = KINDS[kind]
        srcs.append({"loc": net + ":" + path, "id": (net + ":" + path,) + prs[net], "scope": scope, "lst": listing})
    params["pool_scope"] = " ".join(inp["scopes"])
    params[op + "_location"] = " ".join(s["loc"] for s in srcs)
    params[op + "_state"] = "s"
    listing = {s["loc"]: s["lst"] for s in srcs}
    log = []

    def tcall(name, ret=None):
        def f(p, obj=None):
            log.append((name, (p[name + "_location"], p["nets_gateway"], p["nets_host"])))
            return list(listing.get(p[name + "_location"], [])) if name == "show" else ret
        return staticmethod(f)

    def lcall(name):
        def f(cls, p, obj=None):
            log.append((name, None))
            return list(inp["local"]) if name == "_show" else None
        return classmethod(f)

    def compare_chain(state, cache_dir, pool_dir, p):
        log.append(("compare", (pool_dir, p["nets_gateway"], p["nets_host"])))
        return inp["valid"]
    transport = type("T", (), {n: tcall(n) for n in ("show", "get", "set", "unset")})
    transport.compare_chain = staticmethod(compare_chain)
    backend = type("B", (pool.SourcedStateBackend,), {n: lcall(n) for n in ("_show", "_get", "_set", "_unset")})
    backend.transport = transport
    result = exc = None
    try:
        result = getattr(backend, op)(params, None)
    except Exception as e:  # noqa
        exc = e
    out = []
    permitted = [s for s in srcs if s["scope"] != "own" and s["scope"] in enabled]
    refused = op == "set" and "own" not in enabled and "s" not in inp["local"]
    contacts = [(n, i) for n, i in log if i is not None]
    if refused:
        if not isinstance(exc, RuntimeError) or contacts or ("_set", None) in log:
            out.append(fail("refusals", {"exception": repr(exc), "log": log}, "RuntimeError, nothing contacted",
                            "set_without_local_state"))
        return out
    if exc is not None:
        return [fail("no_unexpected_exception", repr(exc), "no exception", type(exc).__name__)]
    for name, sid in contacts:
        match = [s for s in srcs if s["loc"] == sid[0]]
        if not match:
            cls = "unknown_location"
        elif match[0] not in permitted:
            cls = "own_source_via_transport" if match[0]["scope"] == "own" else "scope_disabled_source_contacted"
        elif match[0]["id"] != sid:
            cls = "wrong_source_params"
        else:
            continue
        out.append(fail("only_permitted_sources", [name, sid], [s["id"] for s in permitted], cls))
        break
    for lop, wanted in (("_get", "get"), ("_set", "set"), ("_unset", "unset"), ("_show", "show")):
        n = sum(1 for e in log if e[0] == lop)
        if op == wanted and (n == 1) != ("own" in enabled) or op != wanted and lop != "_show" and n:
            out.append(fail("only_permitted_sources", f"{lop} x{n}", "once iff own enabled", "own_backend_gate"))
    if op == "show":
        mirrors = [set(s["lst"]) for s in permitted]
        upper = set(inp["local"]).union(*mirrors)
        lower = (set(inp["local"]) if "own" in enabled else set()) | (set.intersection(*mirrors) if mirrors else set())
        if not set(result) <= upper or len(set(result)) != len(result):
            out.append(fail("show_subset", sorted(result), "subset of " + str(sorted(upper)), "phantom_state"))
        elif not lower <= set(result):
            out.append(fail("show_subset", sorted(result), "superset of " + str(sorted(lower)), "missing_state"))
    elif op == "get":
        # C13: "fetching uses the closest permitted source" and downloads again only when the local copy differs.
        # The closest permitted source is the first permitted one in proximity order; whether a farther source is
        # tried when the closest one lacks the state is not part of the property (the code does not fall back).
        closest_rank = min((RANK[s["scope"]] for s in permitted), default=None)
        closest = [s for s in permitted if RANK[s["scope"]] == closest_rank]
        # among equally close sources the order is unspecified: a download is required only if all of them have it
        all_have = bool(closest) and all("s" in s["lst"] for s in closest)
        need = all_have and ("s" not in inp["local"] or not inp["valid"])
        gets = [i for n, i in log if n == "get"]
        ob = "get_closest_and_only_if_different"
        if len(gets) > 1:
            out.append(fail(ob, gets, "at most one download", "multiple_downloads"))
        elif gets and gets[0] not in [s["id"] for s in closest if "s" in s["lst"]]:
            out.append(fail(ob, gets, [s["id"] for s in closest], "not_closest_with_state"))
        elif need and not gets:
            out.append(fail(ob, "no download", [s["id"] for s in closest], "download_missing"))
        elif gets and not ("s" not in inp["local"] or not inp["valid"]):
            out.append(fail(ob, gets, "no download", "download_although_valid"))
    else:
        got = sorted(i for n, i in log if n == op)
        want = sorted(s["id"] for s in permitted)
        if got != want:
            out.append(fail("set_unset_every_mirror", got, want, "mirror_missed" if len(got) < len(want) else "mirror_extra"))
    return out


# ---------------------------------------------------------------- part C
def root_case(inp):
    op, enabled = inp["op"], set(inp["scope_str"].split())
    params = base_params(0)
    params["pool_scope"] = inp["scope_str"]
    log = []

    def rec(name, ret=None, cm=False):
        def f(*a, **k):
            log.append(name)
            return ret
        return classmethod(f) if cm else staticmethod(f)
    transport = type("T", (), {"check_root": rec("t.check", inp["pool"]), "get_root": rec("t.get"),
                               "set_root": rec("t.set"), "unset_root": rec("t.unset"),
                               "ops": type("O", (), {"compare": rec("t.compare", inp["same"])})})
    backend = type("R", (pool.RootSourcedStateBackend,), {
        "_check_root": rec("_check", inp["local"], True), "_get_root": rec("_get", None, True),
        "_set_root": rec("_set", None, True), "_unset_root": rec("_unset", None, True), "transport": transport})
    result = exc = None
    try:
        result = getattr(backend, op + "_root")(params, None)
    except Exception as e:  # noqa
        exc = e
    tlog = [e for e in log if e.startswith("t.")]
    if op in ("set", "unset"):
        if inp["scope_str"] == "own":
            want = ["_" + op]
        elif inp["scope_str"] == "shared" and (op == "unset" or inp["local"]):
            want = ["t." + op]
        else:
            cls = "root_set_without_local_root" if inp["scope_str"] == "shared" else "root_update_outside_allowed_scope"
            bad = not isinstance(exc, RuntimeError) or tlog or "_" + op in log
            return [fail("refusals", {"exception": repr(exc), "log": log}, "RuntimeError, nothing touched", cls)] if bad else []
        if exc is not None:
            return [fail("no_unexpected_exception", repr(exc), "no exception", type(exc).__name__)]
        got = [e for e in log if e != "_check"]
        return [] if got == want else [fail("root_scope_gate", got, want, "root_" + op + "_wrong_side")]
    if exc is not None:
        return [fail("no_unexpected_exception", repr(exc), "no exception", type(exc).__name__)]
    if tlog and "shared" not in enabled:
        return [fail("root_scope_gate", log, "shared pool not contacted", "shared_pool_contacted_without_shared_scope")]
    out = []
    if op == "check":
        want = inp["local"] or (inp["pool"] and "shared" in enabled)
        if bool(result) != bool(want):
            out.append(fail("root_scope_gate", result, want, "root_presence"))
    else:
        if (log.count("_get") == 1) != ("own" in enabled):
            out.append(fail("root_scope_gate", log, "_get_root once iff own enabled", "root_own_gate"))
        if "own" in enabled and "shared" in enabled:
            want = inp["pool"] and not (inp["local"] and inp["same"])
            if (log.count("t.get") == 1) != bool(want):
                out.append(fail("root_scope_gate", log, f"download={want}", "root_download_only_if_different"))
        elif "shared" in enabled and log.count("t.get") != 1:
            out.append(fail("root_scope_gate", log, "one download", "root_download_missing"))
    return out


# ---------------------------------------------------------------- spies shared by parts D and E
class Spy:
    """Records fcntl.lockf and every copy/unlink/symlink/makedirs/hash call of pool.py with the lock files held then."""

    def __init__(self, inject_at=None, lock_errors=(), hook=None):
        self.inject_at, self.lock_errors, self.hook = inject_at, list(lock_errors), hook
        self.held, self.events, self.attempts, self.crit, self.injected, self.slept = {}, [], 0, 0, None, []

    def held_names(self):
        return [fd.name for fd in self.held.values() if not fd.closed]

    def lockf(self, fd, op, *a):
        if not op & fcntl.LOCK_UN:
            self.attempts += 1
            if self.lock_errors:
                err = self.lock_errors.pop(0)
                if err:
                    raise IOError(err, os.strerror(err))
        r = REAL_LOCKF(fd, op, *a)
        if op & fcntl.LOCK_UN:
            self.held.pop(id(fd), None)
        else:
            self.held[id(fd)] = fd
        return r

    def wrap(self, name, real):
        def f(*a, **k):
            held = self.held_names()
            self.events.append((name, [str(x) for x in a[:2]], held))
            if held:
                self.crit += 1
                if self.crit - 1 == self.inject_at:
                    self.injected = name
                    raise Injected(name)
            if self.hook:
                self.hook(name, a)
            return real(*a, **k)
        return f

    def __enter__(self):
        targets = [(fcntl, "lockf", self.lockf), (time, "sleep", lambda s: self.slept.append(s))]
        for mod, name in ((shutil, "copy"), (os, "unlink"), (os, "symlink"), (os, "makedirs"), (pool.crypto, "hash_file")):
            targets.append((mod, name, self.wrap(name, getattr(mod, name))))
        self.patches = [mock.patch.object(m, n, f) for m, n, f in targets]
        for p in self.patches:
            p.start()
        return self

    def __exit__(self, *a):
        for p in self.patches:
            p.stop()


def probe(lockfile):
    """True when another process can take the lock right now (POSIX locks are per process, hence the fork)."""
    pid = os.fork()
    if pid == 0:
        code = 2
        try:
            with open(lockfile, "ab") as fd:
                try:
                    REAL_LOCKF(fd, fcntl.LOCK_EX | fcntl.LOCK_NB)
                    code = 0
                except OSError:
                    code = 1
        finally:
            os._exit(code)
    return os.waitpid(pid, 0)[1] >> 8 == 0


# ---------------------------------------------------------------- part D
BIG = b"\0" * 1048576
CONTENT = {"empty": b"", "x": b"x", "yy": b"yy", "bigA": BIG + b"A", "bigB": BIG + b"B", "other": b"other-pool-data"}
REL = "vm/img/s.qcow2"


def snap(root):
    out = {}
    for d, dirs, files in os.walk(root):
        for n in dirs + files:
            p = os.path.join(d, n)
            st, rel = os.lstat(p), os.path.relpath(p, root)
            if os.path.islink(p):
                out[rel] = ("link", os.readlink(p))
            elif os.path.isfile(p):
                with open(p, "rb") as fh:
                    out[rel] = ("file", fh.read(), st.st_ino, st.st_mtime_ns)
    return out


def put(path, data):
    os.makedirs(os.path.dirname(path), exist_ok=True)
    with open(path, "wb") as fh:
        fh.write(data)
    os.utime(path, (1e9, 1e9))


def build(root, cache, pool_state):
    c, p, o = (os.path.join(root, d, REL) for d in ("cache", "pool", "pool2"))
    for d in ("cache", "pool", "pool2"):
        put(os.path.join(root, d, "vm/img/by.qcow2"), b"bystander-" + d.encode())
    put(o, CONTENT["other"])
    if pool_state != "absent":
        put(p, CONTENT[pool_state])
    if cache == "nodir":
        shutil.rmtree(os.path.join(root, "cache"))
    elif cache.startswith("link_"):
        os.symlink({"link_pool": p, "link_other": o, "link_dead": os.path.join(root, "pool2/vm/img/gone.qcow2")}[cache], c)
    elif cache != "absent":
        put(c, CONTENT[cache])
    return c, p, o


def short(v):
    return None if v is None else (v[0], v[1] if len(v[1]) < 40 else f"<{len(v[1])} bytes ..{v[1][-1:]!r}>") + tuple(v[2:])


def transfer_case(inp, spy_kw=None, keep=None):
    op, mode, cache, pstate = inp["op"], inp["mode"], inp["cache"], inp["pool"]
    root = tempfile.mkdtemp(prefix="pool_ops_")
    try:
        c, p, o = build(root, cache, pstate)
        if keep is not None:
            keep["lockfile"] = p + ".lock"
        loc = ":" + os.path.join(root, "pool") + (";" if mode == "link" else "") + "/" + REL
        before = snap(root)
        params = base_params(0)
        params["update_pool_timeout"] = "3"
        result = exc = None
        with Spy(**(spy_kw or {})) as spy:
            try:
                args = (loc, params) if op == "delete" else (c, loc, params)
                result = getattr(pool.TransferOps, op)(*args)
            except Exception as e:  # noqa
                exc = e
            leaked = spy.held_names()
        after = snap(root)
        if keep is not None:
            keep.update(spy=spy, exc=exc, leaked=leaked)
        out, ck, pk, ok_ = [], "cache/" + REL, "pool/" + REL, "pool2/" + REL
        for name, a, held in spy.events:
            if name in ("copy", "unlink", "symlink") and p + ".lock" not in held:
                out.append(fail("lock_discipline", [name, a, held], f"{p}.lock held", "unlocked_" + name))
                break
        do_probe = not SKIP_PROBE if spy_kw is None else "inject_at" in spy_kw
        if leaked or (do_probe and not probe(p + ".lock")):
            out.append(fail("lock_discipline", leaked, "lock released after the operation", "lock_leaked"))
        if spy_kw:
            return out
        # --- oracle: effective source contents and the expected post-state of the two target paths
        link = cache.startswith("link_")
        cbytes = {"absent": None, "nodir": None, "link_dead": None, "link_other": CONTENT["other"],
                  "link_pool": CONTENT.get(pstate)}.get(cache, CONTENT.get(cache))
        pbytes = CONTENT.get(pstate)
        allowed_exc, want_c, want_p, skip = False, "same", "same", None
        if op == "compare":
            if mode == "link" and link and pbytes is not None:
                want = cache == "link_pool"
            elif cbytes is None and pbytes is None:
                want = None
            else:
                want = cbytes == pbytes
            if exc is None and want is not None and bool(result) != want:
                big = "big" in cache and "big" in pstate
                out.append(fail("transfer_exact", result, want, "differ_beyond_first_MiB_treated_equal" if big else "compare_wrong"))
        elif op == "delete":
            want_p, allowed_exc = "gone", pbytes is None
        elif op == "download":
            allowed_exc = pbytes is None
            if mode == "link":
                if not link and cbytes is not None:
                    allowed_exc = True              # real data: refusing is fine, replacing is not
                else:
                    want_c = "linked" if pbytes is not None else "any"
            elif pbytes is not None and cache != "link_pool":
                skip = cbytes == pbytes
                want_c = "same" if skip else pbytes
        elif op == "upload":
            if mode == "link" and link:
                if not isinstance(exc, ValueError):
                    out.append(fail("transfer_exact", repr(exc), "ValueError: a link is never uploaded", "link_uploaded"))
                allowed_exc = True
            elif cbytes is None:
                allowed_exc = True
            elif cache != "link_pool":
                skip = cbytes == pbytes
                want_p = "same" if skip else cbytes
        if exc is not None and not allowed_exc:
            out.append(fail("no_unexpected_exception", repr(exc), "no exception", type(exc).__name__))
        copies = [e for e in spy.events if e[0] == "copy"]
        if skip and copies and exc is None:
            out.append(fail("transfer_exact", [e[1] for e in copies], "no copy, both already match", "copy_not_skipped"))
        for key, want, label in ((ck, want_c, "cache"), (pk, want_p, "pool")):
            got = after.get(key)
            if want == "any" or exc is not None and want != "same":
                continue
            if want == "same":
                good = got == before.get(key)
            elif want == "gone":
                good = got is None
            elif want == "linked":
                good = os.path.islink(os.path.join(root, key)) and os.path.realpath(os.path.join(root, key)) == os.path.realpath(p)
            else:
                path = os.path.join(root, key)
                good = os.path.exists(path) and open(path, "rb").read() == want
            if not good:
                cls = f"{op}_{mode}_{label}_wrong"
                if "big" in cache and "big" in pstate:
                    cls = "differ_beyond_first_MiB_treated_equal"
                elif before.get(key, ("",))[0] == "file" and got is not None and got[0] == "link":
                    cls = "data_replaced_by_link"
                out.append(fail("transfer_exact", short(got), want if isinstance(want, str) else f"<{len(want)} bytes>", cls))
        for key in sorted(set(before) | set(after)):
            if key in (ck, pk) or before.get(key) == after.get(key) or key == pk + ".lock" and after[key][:2] == ("file", b""):
                continue
            cls = "other_file_touched"
            if key.startswith("pool2/") and link:
                cls = "cache_symlink_overwrites_link_target" if cache == "link_other" else "cache_dead_symlink_creates_link_target"
            out.append(fail("transfer_exact", {key: short(after.get(key))}, {key: short(before.get(key))}, cls))
        return out
    finally:
        shutil.rmtree(root, ignore_errors=True)


SKIP_PROBE = False


# ---------------------------------------------------------------- part E
def lock_case(inp):
    kind, out = inp["kind"], []
    root = tempfile.mkdtemp(prefix="pool_ops_lock_")
    path = os.path.join(root, "pool/vm/img/s.qcow2")
    try:
        if kind == "inject":        # exception at the i-th patched call inside the critical section
            keep = {}
            out += transfer_case(inp["case"], {"inject_at": inp["at"]}, keep)
            inp["_injected"] = keep["spy"].injected
            if keep["spy"].injected and not isinstance(keep["exc"], Injected):
                out.append(fail("lock_discipline", repr(keep["exc"]), "the injected exception propagates", "failure_swallowed"))
        elif kind == "held":        # the lock is really held (seen from another process) during copy/unlink/symlink
            seen, keep = [], {}

            def hook(name, a):
                if name in ("copy", "unlink", "symlink"):
                    seen.append((name, probe(keep["lockfile"])))
            out += transfer_case(inp["case"], {"hook": hook}, keep)
            if not seen or any(free for _, free in seen):
                out.append(fail("lock_discipline", seen, "lock not available to other processes during the operation", "not_exclusive"))
        elif kind == "body":
            entered = []
            with Spy() as spy:
                try:
                    with pool.image_lock(path, inp["timeout"]):
                        entered.append(spy.held_names())
                        raise Injected("body")
                except Injected:
                    pass
                except Exception as e:  # noqa
                    out.append(fail("no_unexpected_exception", repr(e), "Injected", type(e).__name__))
                leaked = spy.held_names()
            if entered != [[path + ".lock"]] or leaked or not probe(path + ".lock"):
                out.append(fail("lock_discipline", {"entered": entered, "leaked": leaked}, "entered once locked, then released", "body_exception"))
        elif kind == "attempts":    # `fails` refused attempts (errno) before the lock is granted; timeout attempts allowed
            entered, exc = [], None
            with Spy(lock_errors=[inp["errno"]] * inp["fails"]) as spy:
                try:
                    with pool.image_lock(path, inp["timeout"]):
                        entered.append(spy.held_names())
                except Exception as e:  # noqa
                    exc = e
                leaked = spy.held_names()
            obs = {"entered": entered, "exc": repr(exc), "attempts": spy.attempts, "slept": spy.slept, "leaked": leaked}
            if inp["errno"] not in (errno.EAGAIN, errno.EACCES) and inp["fails"]:
                good, want, cls = isinstance(exc, OSError) and not entered and spy.attempts == 1, "OSError at once, body not entered", "foreign_errno"
            elif inp["fails"] >= inp["timeout"]:
                good = isinstance(exc, RuntimeError) and not entered and spy.attempts == inp["timeout"] and \
                    inp["timeout"] - 1 <= sum(spy.slept) <= inp["timeout"]
                want, cls = f"RuntimeError after {inp['timeout']} attempts, body not entered", "timeout"
            else:
                good = exc is None and entered == [[path + ".lock"]] and spy.attempts == inp["fails"] + 1
                want, cls = f"body entered locked after {inp['fails'] + 1} attempts", "late_grant"
            if not good or leaked:
                out.append(fail("lock_discipline", obs, want, cls))
        elif kind == "contended":   # another process holds the lock, then dies
            r, w = os.pipe()
            pid = os.fork()
            if pid == 0:
                try:
                    os.close(r)
                    with pool.image_lock(path, 5):
                        os.write(w, b"1")
                        REAL_SLEEP(60)
                finally:
                    os._exit(0)
            os.close(w)
            started = os.read(r, 1)
            os.close(r)
            entered, exc = [], None if started else "holder did not start"
            with mock.patch.object(time, "sleep", lambda s: REAL_SLEEP(0.01)):
                try:
                    with pool.image_lock(path, inp["timeout"]):
                        entered.append(1)
                except Exception as e:  # noqa
                    exc = e
                os.kill(pid, signal.SIGKILL)
                os.waitpid(pid, 0)
                try:
                    with pool.image_lock(path, 1):
                        entered.append(2)
                except Exception as e:  # noqa
                    exc = (exc, e)
            if entered != [2] or not isinstance(exc, RuntimeError):
                out.append(fail("lock_discipline", {"entered": entered, "exc": repr(exc)},
                                "RuntimeError while held elsewhere, granted after the holder died", "contended"))
        elif kind == "interleave":  # processes work on one pool path; bracketed critical calls must not interleave
            logf = os.path.join(root, "log")
            put(path, b"seed")
            pids = []
            for n, ops in enumerate(inp["ops"]):
                pid = os.fork()
                if pid == 0:
                    try:
                        child(root, path, logf, n, ops)
                    finally:
                        os._exit(0)
                pids.append(pid)
            for pid in pids:
                os.waitpid(pid, 0)
            lines = open(logf).read().split() if os.path.exists(logf) else []
            inside = None
            for tok in lines:
                who = tok[1:]
                if tok[0] == "B" and inside is None:
                    inside = who
                elif tok[0] == "E" and inside == who:
                    inside = None
                else:
                    out.append(fail("lock_discipline", " ".join(lines)[:300], "no overlapping critical sections", "overlap"))
                    break
            inp["_events"] = len(lines)
        return out
    finally:
        shutil.rmtree(root, ignore_errors=True)


def child(root, path, logf, n, ops):
    fd = os.open(logf, os.O_WRONLY | os.O_APPEND | os.O_CREAT)
    cache = os.path.join(root, f"cache{n}", REL)
    put(cache, b"data-of-%d" % n)
    params = base_params(0)

    def bracket(real):
        def f(*a, **k):
            os.write(fd, b"B%d " % n)
            REAL_SLEEP(0.004)
            try:
                return real(*a, **k)
            finally:
                os.write(fd, b"E%d " % n)
        return f
    shutil.copy, os.unlink = bracket(shutil.copy), bracket(os.unlink)
    pool.time = types.SimpleNamespace(sleep=lambda s: REAL_SLEEP(0.002))
    for op in ops:
        try:
            if op == "delete":
                pool.TransferOps.delete(":" + path, params)
            else:
                getattr(pool.TransferOps, op)(cache, ":" + path, params)
        except Exception:  # noqa  (deleting a missing file, starvation): the process did not proceed unlocked
            pass
        put(cache, b"data-of-%d-%s" % (n, op.encode()))


# ---------------------------------------------------------------- enumeration
def const_case(inp):
    ok = pool.SKIP_LOCKS is False
    return [] if ok else [fail("lock_discipline", repr(pool.SKIP_LOCKS), False, "skip_locks_enabled")]


PARTS = {"const": const_case, "scope": scope_case, "order": order_case, "backend": backend_case, "root": root_case,
         "transfer": transfer_case, "lock": lock_case}


def gen(tier, rnd):
    kinds = list(KINDS)
    yield {"part": "const"}
    for ident in (0, 1):
        for k in kinds:
            for colon in (False, True):
                yield {"part": "scope", "ident": ident, "kind": k, "shared_colon": colon}
        for n in range(1, 4 if tier == "quick" else 5):
            for ks in itertools.permutations(kinds, n):
                dos = ("show", "get", "set", "unset")
                for do in dos if n < 3 else dos[len(ks[0] + ks[-1]) % 4:][:1]:
                    yield {"part": "order", "ident": ident, "kinds": list(ks), "do": do}
    strs = [" ".join(p) for n in (1, 2, 0) for p in itertools.permutations(SCOPES, n)] + \
           [" ".join(c) for n in (3, 4) for c in itertools.combinations(SCOPES, n)]
    for op, s, local, pl, same in itertools.product(("check", "get", "set", "unset"), strs, (False, True), (False, True), (False, True)):
        yield {"part": "root", "op": op, "scope_str": s, "local": local, "pool": pl, "same": same}
    small = ["empty", "x", "yy"]
    caches = ["absent", "nodir", "link_pool", "link_other", "link_dead"] + small
    for op, mode, cache, pstate in itertools.product(("compare", "download", "upload", "delete"), ("plain", "link"), caches, ["absent"] + small):
        if op != "delete" or cache == "absent":
            yield {"part": "transfer", "op": op, "mode": mode, "cache": cache, "pool": pstate}
    for op, mode in itertools.product(("compare", "download", "upload"), ("plain", "link")):
        for cache, pstate in (("bigA", "bigB"), ("bigA", "bigA")) + ((("bigB", "bigA"),) if tier != "quick" else ()):
            yield {"part": "transfer", "op": op, "mode": mode, "cache": cache, "pool": pstate}
    full = [{"op": "download", "mode": "plain", "cache": "x", "pool": "yy"}, {"op": "download", "mode": "link", "cache": "link_other", "pool": "yy"},
            {"op": "upload", "mode": "plain", "cache": "x", "pool": "yy"}, {"op": "upload", "mode": "link", "cache": "x", "pool": "absent"},
            {"op": "delete", "mode": "plain", "cache": "absent", "pool": "x"}, {"op": "delete", "mode": "link", "cache": "absent", "pool": "x"}]
    for case in full:
        yield {"part": "lock", "kind": "held", "case": case}
        for at in range(0, 8):
            yield {"part": "lock", "kind": "inject", "case": case, "at": at}
    for timeout in (1, 2, 3, 5):
        yield {"part": "lock", "kind": "body", "timeout": timeout}
        for fails in range(0, timeout + 2):
            for err in (errno.EAGAIN, errno.EACCES, errno.ENOLCK):
                yield {"part": "lock", "kind": "attempts", "timeout": timeout, "fails": fails, "errno": err}
    for timeout in (1, 3):
        yield {"part": "lock", "kind": "contended", "timeout": timeout}
    three = ("upload", "download", "delete")
    for pair in itertools.product(three, repeat=2):
        yield {"part": "lock", "kind": "interleave", "ops": [[pair[0], "upload"], [pair[1], "delete", "upload"]]}
    for n in range(3, 4 if tier == "quick" else 9):
        for _ in range(6 if tier == "quick" else 12):
            yield {"part": "lock", "kind": "interleave", "ops": [[rnd.choice(three) for _ in range(3)] for _ in range(n)]}
    # part B last: it is the big one and the only one subject to the time budget
    lists = [list(p) for n in (1, 2) for p in itertools.permutations(kinds, n)]
    triples = [list(c) for c in itertools.combinations(kinds, 3)]
    for t in triples:
        rnd.shuffle(t)
    lists += rnd.sample(triples, 36) if tier == "quick" else triples + [t[::-1] for t in triples]
    subsets = [[s for s, b in zip(SCOPES, bits) if b] for bits in itertools.product((0, 1), repeat=4)]
    for i, ks in enumerate(lists):
        for scopes in subsets:
            ident = i % 2
            for lst in itertools.product(([], ["s"], ["s", "t"], ["t"]) if tier != "quick" or len(ks) < 2 else ([], ["s"], ["s", "t"]), repeat=len(ks)):
                for local in ([], ["s"], ["u"]):
                    yield {"part": "backend", "op": "show", "ident": ident, "kinds": ks, "scopes": scopes,
                           "listing": list(lst), "local": local, "valid": True}
            for has in itertools.product(([], ["s"]), repeat=len(ks)):
                for local, valid in (([], True), (["s"], True), (["s"], False)):
                    yield {"part": "backend", "op": "get", "ident": ident, "kinds": ks, "scopes": scopes,
                           "listing": list(has), "local": local, "valid": valid}
            for op, local in (("set", []), ("set", ["s"]), ("unset", ["s"])):
                yield {"part": "backend", "op": op, "ident": ident, "kinds": ks, "scopes": scopes,
                       "listing": [["s"]] * len(ks), "local": local, "valid": True}


def nontrivial(inp):
    """Rule: the case can distinguish permitted from forbidden / changed from unchanged (see `rule`)."""
    if inp["part"] == "backend":
        sc = [KINDS[k][2] for k in inp["kinds"]]
        return any(s != "own" and s in inp["scopes"] for s in sc)
    if inp["part"] == "transfer":
        return inp["cache"] != inp["pool"]
    if inp["part"] == "order":
        return len(inp["kinds"]) > 1
    return True


def run_one(inp):
    try:
        return PARTS[inp["part"]](inp)
    except Exception as e:  # noqa  a harness/oracle crash is reported, never raised
        return [fail("no_unexpected_exception", "harness: " + repr(e), "no exception", "harness_error")]


def main():
    global SKIP_PROBE
    if "--replay" in sys.argv:
        inp = json.loads(sys.argv[sys.argv.index("--replay") + 1])
        fails = run_one(inp)
        print(json.dumps({"ok": not fails, "failures": fails}, indent=1, default=str))
        return 1 if fails else 0
    tier = os.environ.get("VERIF_TIER", "quick")
    rnd = random.Random(int(os.environ.get("VERIF_SEED", "0") or 0))
    budget = 100 if tier == "quick" else 1100
    t0, cases, seen, per_class, failures, counts, obl, samples = time.time(), 0, set(), {}, [], {}, {}, []
    exhaustive = True
    part_ob = {"scope": ["scope_table"], "order": ["sources_proximity_order"], "root": ["root_scope_gate", "refusals"],
               "transfer": ["transfer_exact", "lock_discipline"], "lock": ["lock_discipline"], "const": ["lock_discipline"]}
    op_ob = {"show": "show_subset", "get": "get_closest_and_only_if_different", "set": "set_unset_every_mirror", "unset": "set_unset_every_mirror"}
    for inp in gen(tier, rnd):
        part = inp["part"]
        if part == "backend" and time.time() - t0 > budget:
            exhaustive = False
            continue
        SKIP_PROBE = part == "transfer" and cases % 5 != 0
        cases += 1
        fails = run_one(inp)
        obs = part_ob.get(part) or ["only_permitted_sources", "no_unexpected_exception", op_ob[inp["op"]]] + (["refusals"] if inp["op"] == "set" else [])
        for ob in obs:
            obl[ob] = obl.get(ob, 0) + 1
        if nontrivial(inp):
            seen.add(hash(json.dumps({k: v for k, v in inp.items() if not k.startswith("_")}, sort_keys=True)))
        if cases % 9973 == 1 and len(samples) < 8:
            samples.append({k: v for k, v in inp.items() if not k.startswith("_")})
        for f in fails:
            key = f["obligation"] + "/" + f.get("class", "")
            counts[key] = counts.get(key, 0) + 1
            if counts[key] <= 2:
                per_class.setdefault(key, []).append(dict(f, input={k: v for k, v in inp.items() if not k.startswith("_")}))
    for rnd_no in (0, 1):       # at most 10 failures: one per class first, then a second example
        failures += [fs[rnd_no] for fs in per_class.values() if len(fs) > rnd_no]
    obl.setdefault("no_unexpected_exception", cases)
    res = {"name": "pool_ops", "obligations": obl, "cases": cases, "distinct_nontrivial": len(seen),
           "rule": "non-trivial = backend case with at least one transport-permitted source; transfer case whose cache and pool pre-states differ; order case with >= 2 sources; "
                   "every scope/root/lock case",
           "bound": f"tier={tier}: 11 source kinds x 2 identities; source lists <= 3 (orders: all for <= 2, "
                    f"{'36 sampled shuffled triples' if tier == 'quick' else 'every triple in 2 orders'}); 16 scope subsets; listings per source "
                    f"in {{[],[s],[s,t]{' (+[t] for single sources)' if tier == 'quick' else ',[t]'}}}; 27 root scope strings; 8 cache x 4 pool pre-states x 4 ops x 2 modes + 1MiB+1 pairs; "
                    f"lock: inject at call 0..7 of 6 ops, timeouts 1,2,3,5, "
                    f"all 9 two-process op pairs + {'6 seeded op assignments of 3' if tier == 'quick' else '12 seeded op assignments of each of 3..8'} "
                    f"forked processes (OS-scheduled, bracketed log)",
           "exhaustive": bool(exhaustive and tier != "quick"), "samples": samples, "failures": failures[:10],
           "failure_counts": counts, "seconds": round(time.time() - t0, 1)}
    print("BOUNDED-RESULT " + json.dumps(res, default=str))
    return 0


if __name__ == "__main__":
    sys.exit(main())
