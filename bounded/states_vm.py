"""Bounded stand-in for C17: a vm state exists exactly when all of the vm's images (and the memory file) have it.

Code under check (imported from $VERIF_REPO): avocado_i2n.states.qcow2 (QCOW2VTBackend.show, QCOW2Backend.show,
QCOW2ExtBackend._show, QEMU_ON_STATES_REGEX, QEMU_OFF_STATES_REGEX) and avocado_i2n.states.ramfile (RamfileBackend._show
with the production image backend QCOW2ExtBackend, pool_scope=own).

Fakes: `qcow2.QemuImg` is replaced by a stub (image_filename + snapshot_list returning a qemu-img text listing); the
ramfile/qcow2ext pool is a real directory tree below a tempdir and `os.listdir` is wrapped to return the prescribed order.

Obligations (oracle = set intersection written from the property statement, independent of the implementation):
  vm_state_iff_all_images          QCOW2VTBackend.show == intersection of the on-state (vm size > 0) tag sets of all images,
                                   as a duplicate-free collection, without raising; off snapshots (0 B) never count.
  ramfile_state_iff_all_images_mem RamfileBackend._show == intersection of every image's <state>.qcow2 names and the vm's
                                   <state>.state memory file names, duplicate-free, without raising; other files never count.
  on_off_separation                on qemu-img listing lines `ID TAG VM_SIZE DATE TIME VM_CLOCK [ICOUNT]` the OFF regex selects
                                   exactly the lines with size `0 B`, the ON regex exactly those with non-zero size, group 1 is
                                   the TAG (single lines, multi-line listings with headers, and through the two show() methods).

Scope (stated bound):
  quick:    1..3 images, every assignment of subsets of a 3-name alphabet to the images (and the memory dir), every order of
            every listing, with and without distractors (absent names present as 0 B snapshots / as foreign or garbled files);
            regex: tags of length 1..3 over "a0._" plus realistic names x 15 sizes x 5 layouts x 3 ids, all ordered pairs of
            24 entries x 5 layouts as two-line listings, seeded sample of three-line listings.   Exhaustive for that scope.
  thorough: additionally 4-name alphabet for 1..3 images (qcow2vt; ramfile with 1..2 images), 4 images over 3 names (qcow2vt),
            tags of length 1..4 over "a01._-", more multi-line samples.
"""
import itertools
import json
import os
import random
import shutil
import sys
import tempfile
import time
from unittest import mock

sys.path.insert(0, os.environ.get("VERIF_REPO", "/repo"))
_real_stdout = sys.stdout
sys.stdout = sys.stderr          # keep import-time chatter of the dependencies off stdout
from virttest.utils_params import Params  # noqa: E402
from avocado_i2n.states import qcow2, ramfile  # noqa: E402
sys.stdout = _real_stdout

NAMES = ["boot", "on.1", "s_2", "c-3"]
ON_SIZES = ["1 GiB", "733 MiB", "1.46 GiB", "0.977 KiB", "1e+03 MiB", "512 B", "10 B", "20 KiB"]
ALL_ON_SIZES = ["1 B", "10 B", "100 B", "999 B", "0.977 KiB", "1 KiB", "1.5 KiB", "20 KiB", "733 MiB", "1e+03 MiB",
                "1 GiB", "1.46 GiB", "10.5 GiB", "2 TiB"]
OFF = "0 B"
GHOSTS = {True: ["ghost.qcow2.bak", "spook.sta.qcow2"], False: ["ghost.qco.state", "spook.state.bak"]}   # image dir / vm dir
VM = mock.MagicMock(name="vm1")       # the vm object is only passed through by the functions under check
LAYOUTS = ["fixture", "qemu4", "qemu6", "qemu6_icount0", "qemu6_icount"]
HEADERS = {"fixture": "", "qemu4": "Snapshot list:\n%-10s%-20s%7s%20s%15s\n" % ("ID", "TAG", "VM SIZE", "DATE", "VM CLOCK")}
HEADERS.update({k: "Snapshot list:\n%-7s %-16s %8s %19s %15s %10s\n" % ("ID", "TAG", "VM_SIZE", "DATE", "VM_CLOCK", "ICOUNT")
                for k in LAYOUTS[2:]})


def fmt_line(layout, sid, tag, size):
    """One snapshot line in the text format of qemu-img (test fixture of the project, qemu 4.x, qemu >= 6 with ICOUNT)."""
    if layout == "fixture":
        return f"{sid}         {tag}         {size} 0000-00-00 00:00:00   00:00:00.000"
    if layout == "qemu4":
        return "%-10s%-20s%7s%20s%15s" % (sid, tag, size, "2024-03-09 17:45:01", "00:01:02.345")
    icount = {"qemu6": "", "qemu6_icount0": "0", "qemu6_icount": "123456"}[layout]
    return "%-7s %-16s %8s %19s %15s %10s" % (sid, tag, size, "2024-03-09 17:45:01", "0000:01:02.345", icount)


def fmt_listing(layout, entries, header=True):
    if not entries:
        return ""
    return (HEADERS[layout] if header else "") + "".join(fmt_line(layout, *e) + "\n" for e in entries)


class FakeQemuImg:
    """Stand-in for virttest's QemuImg: path arithmetic + canned `qemu-img snapshot -l` output per image tag."""
    listings = {}

    def __init__(self, params, root_dir, tag):
        self.tag = tag
        self.image_filename = os.path.join(root_dir, tag)

    def snapshot_list(self, force_share=False):
        return FakeQemuImg.listings.get(self.tag, "")


def classify(observed, expected, error):
    """-> (ok, class label, JSON-able observation)"""
    if error is not None:
        return False, "exception:" + type(error).__name__, repr(error)
    try:
        got = list(observed)
    except TypeError:
        return False, "not_a_collection", repr(observed)
    if len(set(got)) != len(got):
        return False, "duplicate_states", sorted(got)
    if set(got) - set(expected):
        return False, "state_listed_but_missing_somewhere", sorted(got)
    if set(expected) - set(got):
        return False, "state_not_listed_although_everywhere", sorted(got)
    return True, "", sorted(got)


def base_params(n_images):
    images = [f"image{i + 1}" for i in range(n_images)]
    params = Params({"vms": "vm1", "images": " ".join(images), "images_base_dir": "/nonexistent/images/vm1",
                     "image_format": "qcow2", "qemu_img_binary": "qemu-img", "object_type": "nets/vms",
                     "object_id": "vm1-abc.def", "pool_scope": "own", "show_location": "", "nets_gateway": "",
                     "nets_host": "", "shared_pool": "", "nets": "net1"})
    for image in images:
        params[f"image_name_{image}"] = image
    return params, images


def run_qcow2vt(inp):
    """inp = {"backend": "qcow2vt", "layout": str, "listings": [[[id, tag, size], ...] per image]}"""
    params, images = base_params(len(inp["listings"]))
    FakeQemuImg.listings = {im: fmt_listing(inp["layout"], entries) for im, entries in zip(images, inp["listings"])}
    on_sets = [{tag for _, tag, size in entries if size != OFF} for entries in inp["listings"]]
    expected = sorted(set.intersection(*on_sets))
    observed = error = None
    try:
        with mock.patch.object(qcow2, "QemuImg", FakeQemuImg):
            observed = qcow2.QCOW2VTBackend.show(params, VM)
    except Exception as exc:  # the property allows no exception here
        error = exc
    return ("vm_state_iff_all_images", expected) + classify(observed, expected, error)


class Pool:
    """Real directory tree <root>/<object_id>/{<image>/<files>, <files>} + prescribed os.listdir orders."""

    def __init__(self):
        self.root = tempfile.mkdtemp(prefix="states_vm_")
        self.vm_dir = os.path.join(self.root, "vm1-abc.def")
        self.orders, self.current = {}, {}
        self.real_listdir = os.listdir

    def populate(self, image_files, mem_files, empty_dirs):
        """Bring the tree to the wanted content by difference (directory removal is the slow operation)."""
        wanted = {self.vm_dir: set(mem_files)}
        for i, files in enumerate(image_files):
            if files or empty_dirs:
                wanted[os.path.join(self.vm_dir, f"image{i + 1}")] = set(files)
        for path in [p for p in self.current if p not in wanted]:
            shutil.rmtree(path)
            del self.current[path]
        for path in sorted(wanted):
            if path not in self.current:
                os.makedirs(path)
                self.current[path] = set()
            for name in self.current[path] - wanted[path]:
                os.unlink(os.path.join(path, name))
            for name in wanted[path] - self.current[path]:
                open(os.path.join(path, name), "w").close()
            self.current[path] = set(wanted[path])

    def set_orders(self, image_files, mem_files):
        self.orders = {os.path.join(self.vm_dir, f"image{i + 1}"): list(f) for i, f in enumerate(image_files)}
        self.orders[self.vm_dir] = list(mem_files)

    def listdir(self, path="."):
        real = self.real_listdir(path)
        wanted = self.orders.get(os.path.normpath(str(path))) if isinstance(path, (str, os.PathLike)) else None
        if wanted is None:
            return real
        rest = [x for x in real if x not in wanted]          # e.g. the image directories inside the vm directory
        half = len(rest) // 2
        return rest[:half] + [x for x in wanted if x in real] + rest[half:]

    def close(self):
        shutil.rmtree(self.root, ignore_errors=True)


def run_ramfile(inp, pool, populate=True):
    """inp = {"backend": "ramfile", "images": [[file names in listing order] per image], "mem": [file names], "empty_dirs": bool}"""
    params, _ = base_params(len(inp["images"]))
    params["swarm_pool"] = pool.root
    if populate:
        pool.populate(inp["images"], inp["mem"], inp.get("empty_dirs", False))
    pool.set_orders(inp["images"], inp["mem"])
    sets = [{f[:-len(".qcow2")] for f in files if f.endswith(".qcow2")} for files in inp["images"]]
    sets.append({f[:-len(".state")] for f in inp["mem"] if f.endswith(".state")})
    expected = sorted(set.intersection(*sets))
    observed = error = None
    saved = ramfile.RamfileBackend.image_state_backend
    try:
        ramfile.RamfileBackend.image_state_backend = qcow2.QCOW2ExtBackend      # as wired by cmd_parser
        with mock.patch.object(qcow2, "QemuImg", FakeQemuImg), mock.patch("os.listdir", pool.listdir):
            observed = ramfile.RamfileBackend._show(params, VM)
    except Exception as exc:
        error = exc
    finally:
        ramfile.RamfileBackend.image_state_backend = saved
    return ("ramfile_state_iff_all_images_mem", expected) + classify(observed, expected, error)


def run_regex(inp):
    """inp = {"backend": "regex", "layout": str, "header": bool, "entries": [[id, tag, size], ...]}"""
    text = fmt_listing(inp["layout"], inp["entries"], inp.get("header", True))
    want_off = [tag for _, tag, size in inp["entries"] if size == OFF]
    want_on = [tag for _, tag, size in inp["entries"] if size != OFF]
    expected = {"off": want_off, "on": want_on}
    observed, cls = {}, ""
    try:
        observed["off"] = [m.group(1) for m in qcow2.QEMU_OFF_STATES_REGEX.finditer(text)]
        observed["on"] = [m.group(1) for m in qcow2.QEMU_ON_STATES_REGEX.finditer(text)]
        if inp.get("through_show"):
            params, _ = base_params(1)
            FakeQemuImg.listings = {"image1": text}
            with mock.patch.object(qcow2, "QemuImg", FakeQemuImg):
                image_params = params.object_params("image1")
                image_params["images"] = "image1"
                observed["off_show"] = sorted(qcow2.QCOW2Backend.show(image_params, None))       # order is not part of
                observed["on_show"] = sorted(qcow2.QCOW2VTBackend.show(params, VM))             # the show() contract
            expected.update(off_show=sorted(want_off), on_show=sorted(want_on))
    except Exception as exc:
        return "on_off_separation", expected, False, "exception:" + type(exc).__name__, repr(exc)
    for key in expected:
        if observed[key] != expected[key]:
            kind = "on" if key.startswith("on") else "off"
            if set(observed[key]) - set(expected[key]):
                other = want_off if kind == "on" else want_on
                cls = f"{kind}_selects_{'other_kind' if set(observed[key]) & set(other) else 'wrong_tag'}"
            elif set(expected[key]) - set(observed[key]):
                cls = f"{kind}_misses_line"
            else:
                cls = f"{kind}_duplicates_or_order"
            break
    return "on_off_separation", expected, not cls, cls, observed


def run_case(inp, pool=None):
    if inp["backend"] == "qcow2vt":
        return run_qcow2vt(inp)
    if inp["backend"] == "regex":
        return run_regex(inp)
    own = pool is None
    pool = pool or Pool()
    try:
        return run_ramfile(inp, pool)
    finally:
        if own:
            pool.close()


class Tally:
    def __init__(self):
        self.cases, self.per_ob, self.nontrivial = 0, {}, set()
        self.failures, self.classes, self.samples = [], {}, []

    def add(self, inp, result, nontrivial_key):
        ob, expected, ok, cls, observed = result
        self.cases += 1
        self.per_ob[ob] = self.per_ob.get(ob, 0) + 1
        if nontrivial_key is not None:
            self.nontrivial.add(hash(nontrivial_key))       # hashes keep the thorough tier small in memory
        if self.cases % 1999 == 1 and len(self.samples) < 6:
            self.samples.append(inp)
        if not ok:
            key = f"{ob}/{cls}"
            self.classes[key] = self.classes.get(key, 0) + 1
            if self.classes[key] <= 2 and len(self.failures) < 10:       # the first (= smallest) inputs of every class
                self.failures.append({"obligation": ob, "input": json.loads(json.dumps(inp)), "observed": observed,
                                      "expected": expected, "class": cls})


def ordered_subset_tuples(names, n):
    """All n-tuples of ordered subsets (every subset in every order) of the names."""
    ordered = [p for k in range(len(names) + 1) for p in itertools.permutations(names, k)]
    return itertools.product(ordered, repeat=n)


def enum_qcow2vt(tally, names, n_images, deadline):
    for variant, assignment in itertools.product((0, 1), ordered_subset_tuples(names, n_images)):
        if time.time() > deadline:
            return False
        listings = []
        for i, on_names in enumerate(assignment):
            entries = [[str(j + 1), tag, ON_SIZES[(i + j + len(on_names)) % len(ON_SIZES)]] for j, tag in enumerate(on_names)]
            if variant:          # every name the image lacks as on-state is there as a stopped-image (0 B) snapshot
                absent = [[str(20 + j), tag, OFF] for j, tag in enumerate(t for t in names if t not in on_names)]
                entries = absent[:1] + entries + absent[1:]
            listings.append(entries)
        inp = {"backend": "qcow2vt", "layout": LAYOUTS[(len(listings[0]) + variant) % len(LAYOUTS)], "listings": listings}
        union = set().union(*map(set, assignment))
        key = ("q", assignment, variant) if n_images > 1 and union else None
        tally.add(inp, run_qcow2vt(inp), key)
    return True


def enum_ramfile(tally, pool, names, n_images, deadline, both_distractor_orders=True):
    subsets = [c for k in range(len(names) + 1) for c in itertools.combinations(names, k)]
    for variant, combo in itertools.product((0, 1, 2), itertools.product(subsets, repeat=n_images + 1)):
        if time.time() > deadline:
            return False
        files = []
        for i, present in enumerate(combo):
            ext, foreign = (".qcow2", ".state") if i < n_images else (".state", ".qcow2")
            fl = [n + ext for n in present]
            if variant == 1:     # absent names are there under a foreign/garbled extension only
                fl += [n + (foreign if j % 2 else ext + ".bak") for j, n in enumerate(t for t in names if t not in present)]
            elif variant == 2:   # names that only coincide everywhere if a suffix test is sloppy (.. in name, not endswith)
                fl = GHOSTS[i < n_images][:1] + fl + GHOSTS[i < n_images][1:]
            files.append(fl)
        if not variant:
            orders = [list(itertools.permutations(f)) for f in files]
        elif variant == 2:
            orders = [[tuple(f)] for f in files]
        elif both_distractor_orders:
            orders = [[tuple(f), tuple(reversed(f))] for f in files]
        else:
            orders = [[tuple(f) if (i + len(combo[0])) % 2 else tuple(reversed(f))] for i, f in enumerate(files)]
        union = set().union(*map(set, combo))
        for k, order in enumerate(itertools.product(*orders)):
            inp = {"backend": "ramfile", "images": [list(o) for o in order[:-1]], "mem": list(order[-1]),
                   "empty_dirs": variant == 1}
            tally.add(inp, run_ramfile(inp, pool, populate=k == 0), ("r", order, variant) if union else None)
    return True


def enum_regex(tally, tier, rnd, deadline):
    alphabet, max_len = ("a0._", 3) if tier == "quick" else ("a01._-", 4)
    tags = ["".join(p) for k in range(1, max_len + 1) for p in itertools.product(alphabet, repeat=k)]
    tags += ["boot", "customize", "on_customize", "with.dots.1", "a-b", "linux_virtuser", "2024", "0B", "state_16_chars__"]
    for tag, size, layout, sid in itertools.product(tags, [OFF] + ALL_ON_SIZES, LAYOUTS, ["0", "1", "12"]):
        if time.time() > deadline:
            return False
        inp = {"backend": "regex", "layout": layout, "header": sid == "12", "entries": [[sid, tag, size]]}
        tally.add(inp, run_regex(inp), ("x", tag, size, layout, sid))
    pool = [(t, s) for t in ["a", "a0", "1.5", "s_2", "0", "on.1"] for s in [OFF, "10 B", "1e+03 MiB", "0.977 KiB"]]
    for (a, b), layout in itertools.product(itertools.product(pool, repeat=2), LAYOUTS):
        entries = [["1", a[0], a[1]], ["2", b[0] + "x", b[1]]]
        inp = {"backend": "regex", "layout": layout, "header": True, "entries": entries, "through_show": True}
        tally.add(inp, run_regex(inp), ("x2", a, b, layout))
    for _ in range(2000 if tier == "quick" else 40000):
        if time.time() > deadline:
            return False
        picks = rnd.sample(tags, 3)
        entries = [[str(rnd.choice([1, 7, 10, 123])), t, rnd.choice([OFF, OFF] + ALL_ON_SIZES)] for t in picks]
        inp = {"backend": "regex", "layout": rnd.choice(LAYOUTS), "header": rnd.random() < 0.5, "entries": entries,
               "through_show": True}
        tally.add(inp, run_regex(inp), ("x3", json.dumps(inp)))
    return True


def main():
    if "--replay" in sys.argv:
        inp = json.loads(sys.argv[sys.argv.index("--replay") + 1])
        ob, expected, ok, cls, observed = run_case(inp)
        print(json.dumps({"ok": ok, "obligation": ob, "class": cls, "observed": observed, "expected": expected}, indent=1))
        return 0 if ok else 1
    tier = os.environ.get("VERIF_TIER", "quick")
    rnd = random.Random(int(os.environ.get("VERIF_SEED", "0") or 0))
    t0 = time.time()
    deadline = t0 + (100 if tier == "quick" else 1100)
    tally, pool, complete = Tally(), Pool(), True
    try:
        complete &= enum_regex(tally, tier, rnd, deadline)
        for n in (1, 2, 3):
            complete &= enum_qcow2vt(tally, NAMES[:3], n, deadline)
            complete &= enum_ramfile(tally, pool, NAMES[:3], n, deadline, both_distractor_orders=(n < 3 or tier != "quick"))
        if tier != "quick":
            complete &= enum_qcow2vt(tally, NAMES[:3], 4, deadline)
            for n in (1, 2):
                complete &= enum_qcow2vt(tally, NAMES, n, deadline)
                complete &= enum_ramfile(tally, pool, NAMES, n, deadline)
            complete &= enum_qcow2vt(tally, NAMES, 3, deadline)
    finally:
        pool.close()
    wide = tier != "quick"
    res = {
        "name": "states_vm", "obligations": tally.per_ob, "cases": tally.cases, "distinct_nontrivial": len(tally.nontrivial),
        "rule": "vm cases: every assignment of ordered subsets of the state names to the images (+ memory dir), each with and "
                "without distractors (0 B snapshots / foreign files); non-trivial = at least one listing carries a state name "
                "(and >= 2 images for qcow2vt); regex cases: every generated listing is non-trivial (distinct by content)",
        "bound": f"images<=3 over {3}-name alphabet, all listing orders, each with/without distractors"
                 + ("; +4 images/3 names (qcow2vt), +4 names for <=3 images (qcow2vt) / <=2 images (ramfile)" if wide else "")
                 + f"; regex: tags len<={4 if wide else 3} over '{'a01._-' if wide else 'a0._'}' x {1 + len(ALL_ON_SIZES)} sizes x "
                 f"{len(LAYOUTS)} layouts x 3 ids, 2880 two-line listings, {40000 if wide else 2000} seeded three-line listings",
        "exhaustive": bool(complete), "samples": tally.samples, "failure_classes": tally.classes,
        "failures": tally.failures[:10], "seconds": round(time.time() - t0, 1),
    }
    print("BOUNDED-RESULT " + json.dumps(res))
    return 0


if __name__ == "__main__":
    sys.exit(main())
