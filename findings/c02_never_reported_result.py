"""Demonstration for C02 (definite status): a test whose result is never reported must still get a definite,
non-pending status recorded.  Exit 0 if the property holds, 1 if violated.  Run: cd <repo> && /venv/bin/python <this file>"""
import asyncio
import os
import sys
from unittest import mock

sys.path.insert(0, os.environ.get("VERIF_REPO", os.getcwd()))
from avocado_i2n.plugins.runner import TestRunner   # noqa: E402
from avocado_i2n.cartgraph import TestNode           # noqa: E402
from virttest.utils_params import Params             # noqa: E402


async def main():
    node = object.__new__(TestNode)
    node.__dict__.update(prefix="1", _params_cache=Params({"name": "normal.nongui.quicktest.tutorial1.vm1"}),
                         objects=[object()], results=[], _bridged_nodes=[], started_worker=mock.MagicMock())
    runner = TestRunner()
    runner.job = mock.MagicMock()
    runner.job.result.tests = []

    async def never_reports(self, node):     # the seam: the test runs but no result is ever journaled
        return None
    async def no_sleep(_):
        return None
    with mock.patch.object(TestRunner, "run_test_task", never_reports), mock.patch("asyncio.sleep", no_sleep):
        status = await runner.run_test_node(node, status_timeout=2)
    pending = [r for r in node.results if r["status"] == "UNKNOWN"]
    print("returned", status, "recorded", node.results)
    if pending:
        print("VIOLATED: a pending UNKNOWN placeholder is left as the only record of the execution")
        return 1
    return 0


sys.exit(asyncio.run(main()))
