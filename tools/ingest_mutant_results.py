"""Record the outcome of tools/run_mutant.sh (files /tmp/rm_<id>.out) in seeded/<id>/meta.json (field checks_run)
and print the detection table used in DESIGN.md."""
import glob
import json
import os
import re
import sys

ROOT = os.path.dirname(os.path.dirname(os.path.abspath(__file__)))
rows = []
for d in sorted(glob.glob(os.path.join(ROOT, "seeded", "C*")) + glob.glob(os.path.join(ROOT, "seeded", "_incoming", "C*"))):
    mid = os.path.basename(d)
    out = f"/tmp/rm_{mid}.out"
    meta_path = os.path.join(d, "meta.json")
    meta = json.load(open(meta_path))
    if os.path.exists(out):
        runs, cur = [], None
        for line in open(out):
            m = re.match(r"== (\S+) vs (\S+): rc=(\d+)", line)
            if m:
                cur = {"property": m.group(2), "exit_code": int(m.group(3)), "violations": [], "command":
                       f"tools/run_mutant.sh seeded/{mid} {m.group(2)}  (VERIF_REPO=<scratch copy of /repo with patch.diff applied> bin/check {m.group(2)})"}
                runs.append(cur)
            elif cur is not None and line.startswith("VIOLATION"):
                ob = re.search(r"replay=\S*/([^/\s]+?)(?:\.\d+)?\.json", line)
                cur["violations"].append((ob.group(1) if ob else line.strip()) + (" [no-failing-input-found]" if "no-failing-input-found" in line else ""))
        if runs:
            meta["checks_run"] = runs
            json.dump(meta, open(meta_path, "w"), indent=1)
    runs = meta.get("checks_run", [])
    caught = [r for r in runs if r["exit_code"] == 1]
    obs = []
    for r in caught:
        for v in r["violations"]:
            if v not in obs:
                obs.append(v)
    rows.append((mid, meta.get("property"), "confirmed" if "confirmed_by_builder" in meta else "unconfirmed",
                 ", ".join(f"{r['property']}:{'caught' if r['exit_code'] == 1 else 'rc=' + str(r['exit_code'])}" for r in runs) or "not run",
                 "; ".join(obs[:3]) + (f" (+{len(obs) - 3} more)" if len(obs) > 3 else "")))
print("| change | property | status | checks | first failing obligations |")
print("|---|---|---|---|---|")
for r in rows:
    print("| " + " | ".join(str(x) for x in r) + " |")
