"""Developer helper: python3-vt tools/try.py <module> [name substrings...]  (verifies matching contracts in parallel)."""
import importlib
import multiprocessing as mp
import os
import sys
import time

ROOT = os.path.dirname(os.path.dirname(os.path.abspath(__file__)))
sys.path.insert(0, ROOT)
from pyvc.source import RepoIndex      # noqa: E402
from pyvc import contract as C         # noqa: E402
import contracts.schema as schema      # noqa: E402

CTX = {}


def work(i):
    from pyvc import kinds
    kinds._fresh_counter[0] = 0
    c = CTX["cs"][i]
    r = C.verify(c, CTX["idx"], schema)
    lines = [f"{c.name} paths {r.paths} wall {r.wall:.1f}s error {r.error} {r.vacuity} {r.stats}"]
    for o in r.obligations:
        if o.status != "proved" or "-v" in sys.argv:
            lines.append(f"    {o.status} {o.name} {o.ms:.0f}ms {o.detail} exact={getattr(o, 'exact_model', None)} line={o.line}")
    lines.append(f"    ({sum(1 for o in r.obligations if o.status == 'proved')}/{len(r.obligations)} proved)")
    return "\n".join(lines)


def main():
    mod = sys.argv[1]
    pats = [a for a in sys.argv[2:] if not a.startswith("-")]
    importlib.import_module(mod)
    cs = [c for c in C.REGISTRY if (c.module == mod or "--all" in sys.argv) and (not pats or any(p in c.name for p in pats))]
    idx = RepoIndex(os.environ.get("VERIF_REPO", "/repo"))
    idx.load_all()
    CTX.update(cs=cs, idx=idx)
    t0 = time.time()
    with mp.get_context("fork").Pool(min(14, max(1, len(cs))), maxtasksperchild=1) as pool:
        for out in pool.imap(work, range(len(cs))):
            print(out, flush=True)
    print(f"total {time.time() - t0:.1f}s for {len(cs)} contract(s)")


if __name__ == "__main__":
    main()
