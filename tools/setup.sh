#!/bin/sh
# Nothing heavy to build: E1 runs under python3-vt, native replay under /venv/bin/python.
set -e
cd "$(dirname "$0")/.."
python3-vt -c "import z3; print('z3', z3.get_version_string())"
/venv/bin/python -c "import avocado_i2n, virttest; print('repo importable')"
mkdir -p evidence replays
