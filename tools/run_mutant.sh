#!/bin/bash
# usage: tools/run_mutant.sh <seeded dir> <property id>...   -- runs the checks of the given properties against a scratch
# copy of /repo with the seeded change applied (VERIF_REPO); evidence of these runs goes to a scratch directory.
dir=$1; shift
id=$(basename $dir)
scratch=$(mktemp -d /tmp/mut_${id}_XXXX)
rsync -a --exclude .git /repo/ $scratch/repo/
( cd $scratch/repo && patch -p1 -s < $dir/patch.diff ) || { echo "patch failed"; rm -rf $scratch; exit 3; }
mkdir -p $scratch/evidence
cd "$(dirname "$0")/.."
for pid in "$@"; do
  VERIF_REPO=$scratch/repo VERIF_EVIDENCE_DIR=$scratch/evidence bin/check $pid > $scratch/$pid.out 2>&1
  rc=$?
  echo "== $id vs $pid: rc=$rc"
  grep -E "^(VIOLATION|KNOWN-FINDING|UNDECIDED|CHECKER-ERROR|ERROR|OK)" $scratch/$pid.out | cut -c1-400
done
rm -rf $scratch
