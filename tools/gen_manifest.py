"""Generate MANIFEST.json from checks/table.py (python3-vt tools/gen_manifest.py)."""
import importlib
import json
import os
import sys

ROOT = os.path.dirname(os.path.dirname(os.path.abspath(__file__)))
sys.path.insert(0, ROOT)
from checks import PROPS  # noqa
importlib.import_module("checks.table")
from checks.table import NOT_APPLICABLE, LEVEL_TEXT  # noqa

props = [json.loads(l) for l in open(os.path.join(ROOT, "properties.jsonl"))]
checks = []
for p in props:
    pid = p["id"]
    if pid not in PROPS:
        continue
    spec = PROPS[pid]
    checks.append({
        "property_id": pid,
        "quick_cmd": f"bin/check {pid} --tier quick",
        "thorough_cmd": f"bin/check {pid} --tier thorough",
        "evidence_file": f"evidence/{pid}.json",
        "replay_cmd_template": f"bin/check {pid} --replay {{path}}",
        "engine": "pyvc",
        "level_claimed": {"category": spec.get("level", "proof"), "text": LEVEL_TEXT[pid], "design_ref": f"DESIGN.md §8.2 (as built) and §3 {pid} (design)"},
        "level_note": spec.get("level_note", ""),
        "technique": spec.get("technique", "contract-based deductive verification: VCs generated from the real functions' AST against side-car contracts, discharged by z3; native replay of counter-models"),
    })
manifest = {
    "version": 1,
    "setup_cmd": "sh tools/setup.sh",
    "hooks": {
        "guard": "AVOCADO_I2N_VERIF",
        "enable": "no hooks are needed: the engine reads /repo's sources and the replay harness wraps the real modules from outside",
        "baseline_off_cmd": "cd /repo && /venv/bin/python -m pytest -ra -q -p no:cacheprovider --timeout=900 --continue-on-collection-errors selftests",
        "source_commits": [],
        "add_only": True,
    },
    "engines": [
        {"name": "pyvc", "path": "pyvc/", "serves_properties": [c["property_id"] for c in checks],
         "kind_free_text": "AST-driven symbolic executor / VC generator for Python with side-car contracts (contracts/), z3 back end, model reification and native replay (replay/)"},
        {"name": "bounded", "path": "bounded/", "serves_properties": [c["property_id"] for c in checks if PROPS[c["property_id"]].get("bounded")],
         "kind_free_text": "bounded stand-ins: native enumeration of a stated finite scope against an executable contract (labelled bounded, never counted as proved)"},
    ],
    "checks": checks,
    "not_applicable": [{"property_id": k, "reason": v} for k, v in NOT_APPLICABLE.items() if k not in PROPS],
    "notes": "See DESIGN.md. Exit codes: 0 held, 1 violation (VIOLATION line), 2 undecided, 3 checker error.",
}
json.dump(manifest, open(os.path.join(ROOT, "MANIFEST.json"), "w"), indent=1)
print("checks:", [c["property_id"] for c in checks], "n/a:", [x["property_id"] for x in manifest["not_applicable"]])
