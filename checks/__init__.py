"""Registry: which machinery decides which property."""

COMMON_ASSUMPTIONS = [
    "python integers are unbounded (CPython); no machine arithmetic is abstracted",
    "dict iterates in insertion order; set iteration order is arbitrary (loop rules quantify over it)",
    "attribute / method lookup resolves to the class source in /repo (no monkey patching except the policy slots)",
    "implicit exceptions (KeyError, IndexError, AttributeError on None, ...) are explicit outcomes of the engine",
    "strings are sequences of unicode code points; str.lower/split/strip are uninterpreted with the axioms listed in pyvc/models.py",
    "one event loop, one thread; code between two suspension points is atomic",
    "TestNode.params / TestObject.params are read with a warm cache (no re-parse during the function)",
    "library list values are treated as values (no aliasing of list objects across fields)",
    "formatting an object into a string (f-strings, log arguments) is an uninterpreted total function: __repr__ / __str__ of "
    "repository classes are not executed (TestWorker.__repr__ reads parameters every parsed worker has)",
]

COMMON_TRUSTED = [
    "pyvc engine (/verif/pyvc): AST symbolic executor and VC generator written for this task",
    "z3 4.x/5.1 (python API) as the deciding back end",
    "virttest.utils_params.Params modelled in /verif/contracts/schema.py (get/[]/get_numeric/get_boolean/get_list/objects/object_params/copy)",
]

PROPS = {}


def register(pid, **kw):
    PROPS[pid] = kw
