"""Entry point of every registered check: python3-vt -m checks.run <PID> [--tier T] [--record]"""
import argparse
import importlib
import json
import os
import sys
import time

ROOT = os.path.dirname(os.path.dirname(os.path.abspath(__file__)))
sys.path.insert(0, ROOT)

from checks import PROPS, COMMON_ASSUMPTIONS, COMMON_TRUSTED   # noqa: E402
from pyvc import driver                                        # noqa: E402


def main():
    ap = argparse.ArgumentParser()
    ap.add_argument("pid")
    ap.add_argument("--tier", default=os.environ.get("VERIF_TIER", "quick"))
    ap.add_argument("--record", action="store_true", help="record the obligations proved on this tree as expected")
    ap.add_argument("--replay", default=None)
    ap.add_argument("--crosscheck", type=float, default=None, metavar="SECONDS",
                    help="evaluate every contract natively on generated inputs for SECONDS each (encoding cross-check)")
    a = ap.parse_args()
    importlib.import_module("checks.table")
    if a.pid not in PROPS:
        print(f"unknown property {a.pid}")
        return 3
    if a.replay:
        w = json.load(open(a.replay))
        if "harness" in w and isinstance(w.get("failure"), dict):
            # a failure of a bounded stand-in: re-run exactly that case on the real code (exit 1 if it still fails)
            import subprocess
            env = dict(os.environ, VERIF_REPO=driver.repo_path(), PYTHONPATH=driver.repo_path() + os.pathsep + ROOT)
            p = subprocess.run([driver.VENV_PY, os.path.join(ROOT, "bounded", w["harness"]), "--replay",
                                json.dumps(w["failure"].get("input"))], env=env, cwd=driver.repo_path())
            return 1 if p.returncode == 1 else (0 if p.returncode == 0 else 3)
        if "inputs" not in w:
            # an obligation without a replayable input (no-failing-input-found): show the verifier's output
            print(json.dumps(w, indent=1)[:6000])
            return 0
        v = driver.native_replay(w, a.replay + ".rerun")
        print(json.dumps(v, indent=1))
        return 1 if v.get("violated") else 0
    spec = PROPS[a.pid]
    os.environ["VERIF_TIER_EFFECTIVE"] = a.tier
    run = driver.PropertyRun(a.pid, a.tier)
    exp_path = os.path.join(ROOT, "expected_obligations.json")
    expected_all = driver.load_json(exp_path, {})
    expected = set(expected_all.get(a.pid, []))
    results = driver.run_e1(a.pid, spec.get("modules", []))
    run.add_e1(results, None if a.record else expected)
    budget = a.crosscheck if a.crosscheck is not None else (20.0 if a.tier == "thorough" else None)
    if budget:
        run.crosscheck(results, budget)
    # vanished obligations are a checker error (vacuity guard)
    proved_now = {o["name"] for o in run.obligations}
    if not a.record:
        missing = sorted(expected - proved_now - {u["obligation"] for u in run.undecided})
        missing = [m for m in missing if ".raises." not in m or ".exactly_when" in m]
        # obligations of a function for which a violation is already reported are not "vanished"
        reported = {f["contract"] for f in run.functions
                    if any(v[0] == f["contract"] + ".*" or v[0].startswith(f["contract"] + ".") for v in run.violations)}
        missing = [m for m in missing if not any(m.startswith(c + ".") for c in reported)]
        fun_err = [f for f in run.functions if f["error"]]
        if missing and not fun_err:
            run.errors.append(f"obligations recorded for {a.pid} are no longer generated: {missing[:5]}")
    for b in spec.get("bounded", []):
        mod, fn = b.rsplit(":", 1)
        getattr(importlib.import_module(mod), fn)(run, a.tier)
    for l in spec.get("lemmas", []):
        mod, fn = l.rsplit(":", 1)
        getattr(importlib.import_module(mod), fn)(run, a.tier)
    if not run.obligations and not run.bounded:
        run.errors.append("no obligation was generated")
    rc = run.finish(
        level=spec.get("level", "proof"),
        explanation=spec.get("explanation", ""),
        trusted_base=COMMON_TRUSTED + spec.get("trusted", []),
        assumptions=COMMON_ASSUMPTIONS + spec.get("assumptions", []) + sorted({x for f in results for x in f.get("assumes", [])}),
        undecided_clauses=spec.get("undecided_clauses", []),
        checker_cmd=f"bin/check {a.pid} --tier {a.tier}",
        extra=spec.get("extra"),
    )
    if a.record and rc in (0, 2):
        # only contract clauses are pinned: call-site preconditions, invariants and implicit-exception obligations
        # depend on the shape of the code and may legitimately appear / disappear when it is edited
        mine = sorted(o["name"] for o in run.obligations
                      if (o["status"] == "proved" or o.get("known_finding"))
                      and o.get("kind") in ("post", "exc", "frame", "lemma", "bounded"))
        # several checks may record at the same time: read-modify-write under a file lock
        import fcntl
        with open(exp_path + ".lock", "w") as lk:
            fcntl.lockf(lk, fcntl.LOCK_EX)
            expected_all = driver.load_json(exp_path, {})
            expected_all[a.pid] = mine
            with open(exp_path, "w") as f:
                json.dump(expected_all, f, indent=1, sort_keys=True)
            fcntl.lockf(lk, fcntl.LOCK_UN)
        print(f"recorded {len(mine)} expected obligations for {a.pid}")
    return rc


if __name__ == "__main__":
    sys.exit(main())
