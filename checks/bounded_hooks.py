"""Hooks that run the bounded stand-ins (E2) of a property; see pyvc/bounded.py for the protocol."""
from pyvc.bounded import run_harness

C13_OBS = ("scope_table", "sources_proximity_order", "only_permitted_sources", "get_closest_and_only_if_different",
           "set_unset_every_mirror", "show_subset", "refusals", "root_scope_gate")


def trie(run, tier):
    run_harness(run, "trie.py", tier)


def cmdline(run, tier):
    run_harness(run, "cmdline.py", tier)


def setup_policy(run, tier):
    run_harness(run, "setup_policy.py", tier)


def pool_scopes(run, tier):
    run_harness(run, "pool_ops.py", tier, only=lambda ob: ob in C13_OBS)


def pool_transfers(run, tier):
    run_harness(run, "pool_ops.py", tier, only=lambda ob: ob not in C13_OBS)


def update_tool(run, tier):
    run_harness(run, "update_tool.py", tier)


def states_vm(run, tier):
    run_harness(run, "states_vm.py", tier)


def network(run, tier):
    run_harness(run, "network.py", tier)


def tunnel(run, tier):
    run_harness(run, "tunnel.py", tier)


def manu_steps(run, tier):
    run_harness(run, "manu_steps.py", tier)


def sync_states(run, tier):
    run_harness(run, "sync_scan_pull.py", tier, only=lambda ob: ob.startswith("A"))


def scan_states(run, tier):
    run_harness(run, "sync_scan_pull.py", tier, only=lambda ob: ob.startswith("B") or ob.startswith("S_"))


def pull_locations(run, tier):
    run_harness(run, "sync_scan_pull.py", tier, only=lambda ob: ob.startswith("C") or ob.startswith("S_"))


def graph_wf(run, tier):
    run_harness(run, "graph_wf.py", tier, only=lambda ob: "bridging" not in ob and "lazy" not in ob and "deterministic" not in ob)


def graph_copies(run, tier):
    run_harness(run, "graph_wf.py", tier, only=lambda ob: "bridging" in ob or "lazy" in ob or "deterministic" in ob)


def _traversal(prefixes):
    def hook(run, tier):
        run_harness(run, "traversal_scenarios.py", tier, only=lambda ob: ob.startswith(prefixes))
    return hook


traversal_c01 = _traversal(("C01_",))
traversal_c02 = _traversal(("C02_",))
traversal_c03 = _traversal(("C03_",))
traversal_c04 = _traversal(("C04_",))
traversal_c05 = _traversal(("C05_",))
traversal_c08 = _traversal(("C08_",))


def restr_filter(run, tier):
    run_harness(run, "restr_filter.py", tier)
