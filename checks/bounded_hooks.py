"""Hooks that run the bounded stand-ins (E2) of a property; see pyvc/bounded.py for the protocol."""
from pyvc.bounded import run_harness


def trie(run, tier):
    run_harness(run, "trie.py", tier)
