"""Property table (kept in one place so MANIFEST.json, DESIGN.md and the checks agree)."""
from checks import register

register(
    "C16",
    modules=["contracts.c16", "contracts.node_getters", "contracts.node_decisions", "contracts.node_edges"],
    bounded=["checks.bounded_hooks:trie"],
    level="proof",
    explanation="EdgeRegister counters: exact functional contracts proved for all registry contents; "
                "PrefixTree lookups: bounded (see coverage.bounded)",
    trusted=["TestNode.bridged_form summarised as a pure string function of the node (C16 counters)"],
    undecided_clauses=["unbounded proof of the PrefixTree (bounded stand-in only)"],
)

LEVEL_TEXT = {
    "C16": "Exact functional contracts of EdgeRegister.register/get_workers/get_counters are discharged for all "
           "registry contents and arguments (unbounded); trie lookups are checked bounded and reported separately.",
}

_PENDING = "check not built yet in this round (see DESIGN.md §7 order of work)"
NOT_APPLICABLE = {
    "C07": "the oracle is the meaning of the Cartesian configuration language, implemented outside /repo "
           "(virttest.cartesian_config); no contract on /repo functions can express it (DESIGN.md §4)",
}
for _p in ["C01", "C02", "C06", "C08", "C09", "C11", "C12", "C13", "C14", "C15", "C17", "C18", "C19", "C20"]:
    NOT_APPLICABLE.setdefault(_p, _PENDING)

register(
    "C04",
    modules=["contracts.c16", "contracts.node_getters"],
    level="proof",
    explanation="occupancy predicates proved exact for all heaps; segment obligations and lemma Inv4 (see obligations)",
    trusted=["TestNode.bridged_form summarised as a pure string function of the node"],
    undecided_clauses=["behaviour after a test overruns its timeout (excluded by the property itself)"],
)
LEVEL_TEXT["C04"] = ("The occupancy predicates (is_started / is_occupied and the getters they use) are proved exact for all "
                     "heaps, worker sets, scopes and thresholds (unbounded); the check-then-mark segment structure is "
                     "checked on the CFG; the composition into 'never more than k executions' is the lemma Inv4.")

register(
    "C10",
    modules=["contracts.c16", "contracts.node_getters", "contracts.node_decisions"],
    level="proof",
    explanation="retry/stop decision table of should_rerun proved per configuration case; uid / own result / verdict obligations",
    trusted=[],
    undecided_clauses=[],
)
LEVEL_TEXT["C10"] = ("The retry/stop decision table of should_rerun is proved (27 configuration cases, unbounded result "
                     "lists, all settings incl. invalid ones); default_run_decision is proved against it.")

register(
    "C03",
    modules=["contracts.c16", "contracts.node_getters", "contracts.node_decisions"],
    level="proof",
    explanation="run decision, retry budget clause, placeholder accounting",
    trusted=[],
    undecided_clauses=[],
)
LEVEL_TEXT["C03"] = ("Run decision (first-examination skip, rerun budget clause, flat/clone never run) proved per "
                     "function for all heaps; the budget invariant over executions is the lemma Inv3.")

register(
    "C05",
    modules=["contracts.c16", "contracts.node_getters", "contracts.node_decisions"],
    level="proof",
    explanation="clean decision guard, readiness predicates, sync request discipline",
    trusted=[],
    undecided_clauses=[],
)
LEVEL_TEXT["C05"] = ("The clean decision guard ('last worker closes the door') and the readiness predicates are proved "
                     "for all heaps and worker sets; the unset/sync request discipline is checked exhaustively over the "
                     "finite policy domain (bounded stand-in, labelled).")

register(
    "C02",
    modules=["contracts.c16", "contracts.node_getters", "contracts.node_decisions", "contracts.node_edges", "contracts.runner"],
    level="proof",
    explanation="safety clauses of the traversal: pick/drop error freedom, bounded result wait, definite status",
    trusted=[],
    undecided_clauses=["global termination, deadlock freedom, 'every test executed at least once' (liveness)"],
)
LEVEL_TEXT["C02"] = "in progress"
