"""Property table (kept in one place so MANIFEST.json, DESIGN.md and the checks agree)."""
from checks import register, PROPS

register(
    "C16",
    modules=["contracts.c16", "contracts.node_getters", "contracts.node_decisions", "contracts.node_edges"],
    bounded=["checks.bounded_hooks:trie"],
    level="proof",
    explanation="EdgeRegister counters: exact functional contracts proved for all registry contents; "
                "PrefixTree lookups: bounded (see coverage.bounded)",
    trusted=["TestNode.bridged_form summarised as a pure string function of the node (C16 counters)"],
    undecided_clauses=["unbounded proof of the PrefixTree (bounded stand-in only)"],
)

LEVEL_TEXT = {
    "C16": "Exact functional contracts of EdgeRegister.register/get_workers/get_counters are discharged for all "
           "registry contents and arguments (unbounded); trie lookups are checked bounded and reported separately.",
}

_PENDING = "check not built yet in this round (see DESIGN.md §7 order of work)"
NOT_APPLICABLE = {
    "C07": "the oracle is the meaning of the Cartesian configuration language, implemented outside /repo "
           "(virttest.cartesian_config); no contract on /repo functions can express it (DESIGN.md §4)",
}
for _p in ["C01", "C02", "C06", "C08", "C09", "C11", "C12", "C13", "C14", "C15", "C17", "C18", "C19", "C20"]:
    NOT_APPLICABLE.setdefault(_p, _PENDING)

register(
    "C04",
    modules=["contracts.c16", "contracts.node_getters", "contracts.node_decisions", "contracts.traversal", "contracts.loop_blocks"],
    level="proof",
    explanation="occupancy predicates proved exact for all heaps; segment obligations and lemma Inv4 (see obligations)",
    trusted=["TestNode.bridged_form summarised as a pure string function of the node"],
    undecided_clauses=["behaviour after a test overruns its timeout (excluded by the property itself)"],
)
LEVEL_TEXT["C04"] = ("The occupancy predicates (is_started / is_occupied and the getters they use) are proved exact for all "
                     "heaps, worker sets, scopes and thresholds (unbounded); the check-then-mark segment structure is "
                     "checked on the CFG; the composition into 'never more than k executions' is the lemma Inv4.")

register(
    "C10",
    modules=["contracts.c16", "contracts.node_getters", "contracts.node_decisions", "contracts.runner"],
    level="proof",
    explanation="retry/stop decision table of should_rerun proved per configuration case; uid / own result / verdict obligations",
    trusted=[],
    undecided_clauses=["should_rerun with replay given and rerun_status present but empty (3 of 27 configuration cases): "
                       "no proof and no counter-model within budget"],
)
LEVEL_TEXT["C10"] = ("The retry/stop decision table of should_rerun is proved per configuration case (presence / emptiness of "
                     "replay, rerun_status, stop_status: 8 cases in the quick tier, 24 of the 27 in the thorough tier; the three "
                     "cases with replay given and an explicitly empty rerun_status are not discharged within budget and stay "
                     "undecided), for unbounded result lists and all settings incl. invalid ones; default_run_decision, the "
                     "runner's uid / own-result / verdict clauses are proved against it.")

register(
    "C03",
    modules=["contracts.c16", "contracts.node_getters", "contracts.node_decisions", "contracts.node_edges", "contracts.runner", "contracts.traversal", "contracts.scan_states"],
    level="proof",
    explanation="run decision, retry budget clause, placeholder accounting",
    trusted=[],
    undecided_clauses=[],
)
LEVEL_TEXT["C03"] = ("Run decision (first-examination skip, rerun budget clause, flat/clone never run) proved per "
                     "function for all heaps; the budget invariant over executions is the lemma Inv3.")

register(
    "C05",
    modules=["contracts.c16", "contracts.node_getters", "contracts.node_decisions", "contracts.node_edges", "contracts.traversal", "contracts.loop_blocks", "contracts.sync_states"],
    level="proof",
    explanation="clean decision guard, readiness predicates, sync request discipline",
    trusted=[],
    undecided_clauses=[],
)
LEVEL_TEXT["C05"] = ("The clean decision guard ('last worker closes the door') and the readiness predicates are proved "
                     "for all heaps and worker sets; the unset/sync request discipline is checked exhaustively over the "
                     "finite policy domain (bounded stand-in, labelled).")

register(
    "C02",
    modules=["contracts.c16", "contracts.node_getters", "contracts.node_decisions", "contracts.node_edges", "contracts.runner", "contracts.traversal", "contracts.loop_blocks"],
    level="proof",
    explanation="safety clauses of the traversal: pick/drop error freedom, bounded result wait, definite status",
    trusted=[],
    undecided_clauses=["global termination, deadlock freedom, 'every test executed at least once' (liveness)"],
)
LEVEL_TEXT["C02"] = "in progress"

BOUNDED_NOTE = ("bounded stand-in: the executable contract is evaluated on the real functions over an enumerated finite "
                "scope (bound stated in the evidence); never counted as proved")

for _pid, _hook, _text in [
    ("C11", "cmdline", "Tokenizer contract of params_from_cmd (order of restrictions, defaults, per-vm strings, rejections, "
                       "overrides) and selection semantics against an independent matcher: exhaustive over all argument lists "
                       "of length <= 3 from a 17-token alphabet in every order (bounded stand-in)."),
    ("C12", "setup_policy", "Policy table, abort frame, untouched objects and store refinement of the six state operations "
                            "against an in-memory back end: exhaustive over modes x presence x object types for the stated "
                            "layouts (bounded stand-in)."),
    ("C13", "pool_scopes", "Scope classification, proximity order, permitted sources, closest fetch, mirror coverage and "
                           "refusals of the pool back ends with a recording transport (bounded stand-in)."),
    ("C14", "pool_transfers", "Transfer exactness on real temporary directories and lock discipline of image_lock incl. "
                              "exception injection at every call of the critical section and forked lock holders "
                              "(bounded stand-in)."),
    ("C15", "update_tool", "update() end to end on the shipped suite: executed path and removed states for (from, to) pairs, "
                           "flag_children / flag_intersection against a naive fixpoint (bounded stand-in)."),
    ("C17", "states_vm", "vm state = intersection over images for 1..3 images and all state-set assignments; on/off regex "
                         "separation over generated qemu-img listings (exhaustive for the stated scope; bounded stand-in)."),
    ("C18", "network", "Netmask/prefix round trip (all 33 prefixes, exhaustive), address translation and allocation against "
                       "integer arithmetic, network structure after construction and reattachment (bounded stand-in)."),
    ("C19", "tunnel", "Mirror relations of the generated end point parameters over the complete product of local x remote x "
                      "peer x auth types, peer variants and symmetry of connects_nodes (exhaustive over the type product)."),
    ("C20", "manu_steps", "Manu.run chain semantics and one run per (selected vm, compatible worker) for the built-in steps "
                          "(bounded stand-in)."),
]:
    register(_pid, modules=[], bounded=[f"checks.bounded_hooks:{_hook}"], level="other",
             explanation=_text + " " + BOUNDED_NOTE, technique="bounded native check of the real functions against an "
             "executable contract (stand-in where no contract is discharged deductively yet)",
             trusted=["mocks of infrastructure as in the project's own selftests"], undecided_clauses=[])
    LEVEL_TEXT[_pid] = _text
    NOT_APPLICABLE.pop(_pid, None)

PROPS["C05"]["bounded"] = ["checks.bounded_hooks:sync_states"]

GRAPH_NOTE = ("The local edge operations every parse is built from (descend_from_node, clone_as_source, bridge_with_node, "
              "drop_parent/child, EdgeRegister) are proved against their contracts for all heaps (unbounded, E1); the "
              "whole-graph clauses are evaluated on the real parser over an enumerated set of selections of the shipped "
              "suite (bounded stand-in, bound in the evidence; never counted as proved).")
register(
    "C06",
    modules=["contracts.c16", "contracts.node_edges", "contracts.graph_clones"],
    bounded=["checks.bounded_hooks:graph_wf"],
    level="other",
    technique="contract-based deductive verification of the edge operations (own VC generator over the real source + z3) "
              "plus a bounded native check of the parsed graphs",
    explanation="edge bookkeeping proved (both ends recorded, registers shared only by bridging); acyclicity, single root, "
                "unique ids, unique producer, one net, clone sources not runnable checked on parsed graphs (bounded)",
    trusted=["virttest.cartesian_config parser (outside /repo)"],
    undecided_clauses=["generated suites with random setup DAGs (only the shipped suite is enumerated)"],
)
LEVEL_TEXT["C06"] = GRAPH_NOTE
register(
    "C09",
    modules=["contracts.c16", "contracts.node_edges", "contracts.graph_clones"],
    bounded=["checks.bounded_hooks:graph_copies"],
    level="other",
    technique="contract-based deductive verification of bridging and the shared registers (own VC generator + z3) plus a "
              "bounded native comparison of per-worker subgraphs, lazy vs eager parsing and repeated parses",
    explanation="bridge_with_node proved symmetric with shared registers; register isolation between classes proved; "
                "worker-copy equivalence, lazy == eager and determinism compared on parsed graphs (bounded)",
    trusted=["virttest.cartesian_config parser (outside /repo)"],
    undecided_clauses=["lazy expansion under real interleavings with running tests (the expansion loop is replayed in "
                       "shuffled orders without test execution)"],
)
LEVEL_TEXT["C09"] = GRAPH_NOTE
for _pid in ("C06", "C09"):
    NOT_APPLICABLE.pop(_pid, None)


E1_TECHNIQUE = ("contract-based deductive verification: VCs generated from the real functions' AST against side-car "
                "contracts, discharged by z3; native replay of counter-models; bounded native check for the clauses "
                "outside the engine's reach (labelled bounded)")

PROPS["C17"].update(
    modules=["contracts.states_show"], level="proof", technique=E1_TECHNIQUE,
    explanation="'a vm state is reported exactly when every image has it (and, for ramfile states, the memory file "
                "exists)' proved for QCOW2VTBackend.show and RamfileBackend._show with 1..3 images and arbitrary "
                "(unbounded) per-image listings and directory contents; on/off separation of the qemu-img regexes: bounded",
    trusted=["per-image listing (qemu-img snapshot output parsed by QCOW2Backend.show) is a seam: an arbitrary function "
             "of the image name", "os.listdir / os.stat / os.path.join as seams"],
    undecided_clauses=[])
LEVEL_TEXT["C17"] = ("The intersection clause is proved for 1..3 images (the property's own range) with unbounded listings "
                     "(E1); the separation of on/off states by the two qemu-img regexes is checked over generated "
                     "listings (bounded stand-in, labelled).")

PROPS["C12"].update(
    modules=["contracts.state_ops"], level="proof", technique=E1_TECHNIQUE,
    explanation="per-object decision step of check/get/set/unset_states (loop body extracted mechanically) proved against "
                "the documented policy table for arbitrary parameters: reuse / ignore / force / abort, abort and invalid "
                "policy raise without any back end call, skipped types and read-only images untouched; the iteration "
                "over objects, untouched objects and the store refinement of operation sequences: bounded",
    trusted=["existence oracle _state_check_chain, back end registry and back end operations as seams (call log)"],
    undecided_clauses=[])
LEVEL_TEXT["C12"] = ("The per-object policy step of check/get/set/unset_states is proved for all mode strings, object "
                     "types and parameter settings (E1, extracted loop bodies); object iteration, frame over several "
                     "objects and the set-of-names store model over operation sequences are checked exhaustively over "
                     "the stated finite scope (bounded stand-in, labelled).")

PROPS["C13"].update(
    modules=["contracts.pool_scopes"], level="proof", technique=E1_TECHNIQUE,
    explanation="scope classification (get_source_scope) proved exact; per-source step of show/get/set/unset (loop bodies "
                "extracted mechanically) proved: a source is contacted only if its scope is enabled and it is not the "
                "own pool, set/unset reach every permitted mirror, get stops at the first permitted source and downloads "
                "only if the pool has the state and the local copy is missing or differs; proximity score bands ordered "
                "own >= shared > swarm > cluster; refusals of set_root / set without local state; whole-operation "
                "behaviour over source lists (ordering by sorted, end-to-end): bounded",
    trusted=["transport operations and the local back end (_show/_set/...) as seams with a call log",
             "sorted(key=proximity, reverse=True) orders by the proved key (Python semantics)"],
    undecided_clauses=[])
LEVEL_TEXT["C13"] = ("Scope table, per-source steps, proximity bands and refusals are proved for arbitrary parameters and "
                     "source strings (E1; loop bodies and the key function extracted mechanically); complete operations "
                     "over enumerated source lists and scope subsets are checked with a recording transport (bounded "
                     "stand-in, labelled).")

PROPS["C14"].update(
    modules=["contracts.pool_locks"], level="proof", technique=E1_TECHNIQUE,
    explanation="lock discipline of the local and link transfer operations proved with image_lock inlined: every access to "
                "the pool file happens with the lock held, the lock is released on every normal and exceptional exit, a lock "
                "not acquired within the (symbolic) timeout raises after exactly `timeout` attempts instead of proceeding, "
                "copies are skipped when both sides match, link mode never replaces real data and never uploads a link; "
                "byte-identity of copies and exclusion between processes: bounded (real files, forked lock holders)",
    trusted=["fcntl.lockf semantics (kernel), shutil.copy, os.* and the md5 comparison as seams",
             "mutual exclusion between processes is the kernel's fcntl guarantee given the discipline proved here"],
    undecided_clauses=["remote transfers (download_remote/upload_remote use a remote shell session, not the local lock)"])
LEVEL_TEXT["C14"] = ("Lock discipline (held during every pool file access, released on every exit, timeout raises) and the "
                     "link-mode safety clauses are proved for the local/link transfer operations with image_lock inlined "
                     "(E1, symbolic timeout); byte-exact copies on real directories, exception injection and forked lock "
                     "holders are exercised by the bounded stand-in (labelled).")

PROPS["C18"].update(
    modules=["contracts.netconfig"], technique=E1_TECHNIQUE,
    explanation=PROPS["C18"]["explanation"] + " The allocation step (get_allocatable_address) is additionally proved "
                "as a contract for all ranges and interface sets: a free, unused address of the range is handed out and "
                "marked, nothing else changes, IndexError exactly when none is free (E1).",
    trusted=PROPS["C18"]["trusted"] + ["ipaddress.IPv4Address abstracted by its integer value (round trip assumed)"])

PROPS["C20"].update(
    modules=["contracts.manu"], technique=E1_TECHNIQUE,
    explanation=PROPS["C20"]["explanation"] + " The chain step of Manu.run (loop body extracted mechanically) is "
                "additionally proved: the named step is called once with its prefix, a failing or raising step sets the "
                "chain verdict to failure, the verdict never recovers, no exception escapes and the chain continues (E1).",
    trusted=PROPS["C20"]["trusted"] + ["step functions are seams (None, any integer, any Exception)"])

TRAVERSAL_MODULES = ["contracts.c16", "contracts.node_getters", "contracts.node_decisions", "contracts.node_edges",
                     "contracts.traversal", "contracts.loop_blocks", "contracts.pull_locations", "contracts.scan_states"]
register(
    "C01",
    modules=TRAVERSAL_MODULES,
    bounded=["checks.bounded_hooks:scan_states"],
    level="other", technique=E1_TECHNIQUE,
    explanation="per-function clauses proved: the run decision scans the pools exactly when nobody finished the node and "
                "runs it when the scan misses a state (default_run_decision), a worker proceeds to a test only when it is "
                "done with all eligible parents (is_setup_ready exact; loop step: traverse_node only when setup ready), a "
                "parent is released only after its run decision says it need not run (loop step), shared_result_worker_ids "
                "names exactly the workers with a PASS result; the scan request and verdict against the pools: bounded; "
                "the composition over all schedules is not proved (see undecided)",
    trusted=["the remote door / state back ends behind scan_states (seam)", "pull_locations summary (frame)"],
    undecided_clauses=["whole-run statement over all interleavings, initial pool populations and failure placements "
                       "(needs an inductive invariant over the complete graph; sampled by the traversal scenarios)"],
)
LEVEL_TEXT["C01"] = ("The decision and bookkeeping functions the property rests on are proved against contracts for all "
                     "heaps and worker sets (E1); the scan request/verdict and the schedule-level statement are checked "
                     "on enumerated scenarios (bounded stand-ins, labelled); the whole-run composition is not proved.")
register(
    "C08",
    modules=TRAVERSAL_MODULES,
    bounded=["checks.bounded_hooks:pull_locations"],
    level="other", technique=E1_TECHNIQUE,
    explanation="per-function clauses proved: run / clean decisions and readiness / pick predicates only ever concern the "
                "worker named in the test (foreign worker => RuntimeError or ignored edge), shared_result_worker_ids names "
                "exactly the registered workers with a visible PASS result; pull_locations (sources == producers, access "
                "parameters copied, idempotent, unknown worker rejected): bounded",
    trusted=["of pull_locations only two extracted blocks are under E1 contracts (source list of one parent; location "
             "appended per edge object); the loops around them and the copied access parameters are bounded"],
    undecided_clauses=["restriction matching of workers against vm variants (Cartesian parser, outside /repo)"],
)
LEVEL_TEXT["C08"] = ("Worker guards of the decision / pick / readiness functions and the producer set are proved (E1); the "
                     "location parameters written by pull_locations are compared with the producers over enumerated "
                     "result lists, edges and worker registrations (bounded stand-in, labelled).")
for _pid in ("C01", "C08"):
    NOT_APPLICABLE.pop(_pid, None)

# schedule-level clauses: the real traversal under a virtual clock over enumerated scenarios (bounded stand-in)
for _pid in ("C01", "C02", "C03", "C04", "C05", "C08"):
    PROPS[_pid].setdefault("bounded", [])
    PROPS[_pid]["bounded"] = list(PROPS[_pid]["bounded"]) + [f"checks.bounded_hooks:traversal_{_pid.lower()}"]
    LEVEL_TEXT[_pid] = LEVEL_TEXT[_pid] + (" The schedule-level statement is additionally evaluated on the real traversal "
                                           "under a virtual clock over enumerated scenarios (worker sets, pool populations, "
                                           "durations, failures, retry settings; bounded stand-in, labelled).")

# restriction filters (worker / vm restrictions applied to parsed objects and nodes): bounded stand-in
for _pid in ("C08", "C11"):
    PROPS[_pid]["bounded"] = list(PROPS[_pid].get("bounded", [])) + ["checks.bounded_hooks:restr_filter"]

PROPS["C11"].update(
    modules=["contracts.c16", "contracts.node_edges", "contracts.cmdline"], technique=E1_TECHNIQUE,
    explanation=PROPS["C11"]["explanation"] + " Every branch of the tokenizing loop of params_from_cmd is under contract as an "
                "extracted block (malformed argument rejected; only / no appended in order and the default escaped only by a "
                "primary restriction; per-vm restriction appended to the first matching vm, unknown object rejected; nets "
                "restriction vs explicit nets conflict in both orders; vms= selects exactly the listed vms, unknown vm rejected; "
                "any other key=value recorded as override with commas as spaces), as are the loop that drops the strings of "
                "unselected vms and the two default functions full_tests_params_and_str / full_vm_params_and_strs (default added "
                "only when none given, overrides handed to the parser); regular expressions and the Cartesian parser are seams (E1). "
                "The step that applies a per-object restriction to a parsed test "
                "(TestNode.update_restrs, loop body extracted) is additionally proved: the restriction line is appended unless "
                "exactly that line is already present, other objects' restrictions are untouched (E1); the only/no filters over "
                "objects and nodes are compared with an independent matcher (bounded).")

PROPS["C08"]["modules"] = list(PROPS["C08"]["modules"]) + ["contracts.worker"]

PROPS["C19"].update(
    modules=["contracts.tunnel"], technique=E1_TECHNIQUE,
    explanation=PROPS["C19"]["explanation"] + " Order independence of connects_nodes is additionally proved as a contract: "
                "the answer is the symmetric 'one node on each side' formula over the (uninterpreted) side membership "
                "predicates (E1). The statement groups of VMTunnel.__init__ that write the two end points' parameters are under "
                "contract as extracted blocks: sides and types (#side_params), the left local network and its mirror as the right "
                "remote network (#local_net), the right local network and its mirror (#remote_net), peer addresses pointing at each "
                "other (#peer_params), swapped pre-shared-key identities (#auth_params); unsupported types raise ValueError (E1).")

PROPS["C15"].update(
    modules=["contracts.update_tool"], technique=E1_TECHNIQUE,
    explanation=PROPS["C15"]["explanation"] + " Two statement blocks of update()'s per-worker loop are additionally proved: the "
                "parsing parameters force the state modes (ra / ff / fi) and name the current vm and worker whatever the command "
                "line says, and a worker that cannot host the vm variant is skipped without ending the loop (E1).")

# bridging of equivalent nodes is what makes occupancy visible across workers (C04)
PROPS["C04"]["modules"] = list(PROPS["C04"]["modules"]) + ["contracts.graph_clones", "contracts.update_tool"]
PROPS["C09"]["modules"] = list(PROPS["C09"]["modules"]) + ["contracts.update_tool"]

# the identifier clause of C10 / the budget clause of C03 also rest on the creation pre-step counting every earlier try
for _pid in ("C10", "C03"):
    if "contracts.loop_blocks" not in PROPS[_pid]["modules"]:
        PROPS[_pid]["modules"] = list(PROPS[_pid]["modules"]) + ["contracts.loop_blocks"]
PROPS["C16"]["modules"] = list(PROPS["C16"]["modules"]) + ["contracts.graph_clones"]
