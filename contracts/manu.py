"""C20 (chain clause): one step of the setup chain of Manu.run (avocado_i2n/plugins/manu.py).

The body of `for i, setup_step in enumerate(setup_chain)` is extracted mechanically from the real source on every run.
The step function looked up with getattr(intertest, <name>) is a seam: it returns None, an arbitrary integer, or raises
an arbitrary Exception.  What the extraction drops: the parsing of the command line before the loop and the order of the
iteration itself (`enumerate` over Params.objects: Python semantics; the de-duplication by objects() is the known
finding C20-repeated-steps-deduplicated of the bounded stand-in)."""
import ast
import z3
from pyvc.kinds import V, STR, INT, BOOL, Ref, Seq, NONE, VList, VModule, VFunc, const, fresh
from pyvc.contract import Contract

MANU = "avocado_i2n/plugins/manu.py"


def chain_body(fn):
    loops = [n for n in fn.body if isinstance(n, ast.For)]
    return loops[0].body if len(loops) == 1 else []


def step_function(eng, st, args, kw, node):
    """getattr(intertest, name): the step; calling it is logged and may do anything a step can do."""
    name = args[1]

    def call(eng, st, cargs, ckw, cnode):
        n = st.ghost.get("step.calls") or V(INT, z3.Const("step.calls0", z3.IntSort()))
        st.ghost["step.calls"] = V(INT, n.term + 1)
        st.ghost["step.name"] = name
        st.ghost["step.arg1"] = cargs[1]
        outcome = fresh(INT, "step.outcome")
        for st1, raised in eng.fork(st, outcome.term == 0, "step.raises"):
            if raised:
                st1.ghost["step.raised"] = V(BOOL, z3.BoolVal(True))
                eng.raise_exc(st1, "Exception", cnode)
                continue
            st1.ghost["step.raised"] = V(BOOL, z3.BoolVal(False))
            for st2, none in eng.fork(st1, outcome.term == 1, "step.returns_none"):
                if none:
                    st2.ghost["step.failed"] = V(BOOL, z3.BoolVal(False))
                    yield st2, NONE
                else:
                    r = fresh(INT, "step.result")
                    st2.ghost["step.failed"] = V(BOOL, r.term != 0)
                    yield st2, r
    yield st, VFunc("handler", fn=call, name="step")


def format_exception(eng, st, recv, args, kw, node):
    yield st, VList([])


STEP = Contract(
    target=f"{MANU}::Manu.run", name="Manu.run#chain_step", block=("chain_step", chain_body),
    params={"run_params": Ref("Params"), "config": Ref("Params"), "i": INT, "setup_step": STR, "retcode": INT},
    requires=["i >= 0", "retcode == 0 or retcode == 1", "run_params != config"],
    overrides={"traceback.format_exception": format_exception},
    extra_names={"getattr": VFunc("handler", fn=step_function, name="getattr"), "intertest": VModule("intertest"),
                 "LOG_UI": VModule("logging"), "log": VModule("logging"), "traceback": VModule("traceback")},
    raises={},            # no exception of a step escapes the chain
    ensures=[
        ("step_called_once_by_name", "ghost('step.calls') == old(ghost('step.calls')) + 1 and ghost('step.name', STR) == setup_step"),
        ("step_gets_its_prefix", "ghost('step.arg1', STR) == '0m' + str(i)"),
        ("failure_is_reported", "implies(ghost('step.raised') or ghost('step.failed'), retcode == 1)"),
        ("success_keeps_verdict", "implies(not ghost('step.raised') and not ghost('step.failed'), retcode == old(retcode))"),
        ("verdict_never_recovers", "implies(old(retcode) == 1, retcode == 1)"),
        ("chain_continues", "flow == 'normal'"),
        ("count_recorded", "'count' in run_params"),
    ],
    frame=["Params.p_has", "Params.p_val"], props=["C20"],
    assumes=["extracted block: the loop body of Manu.run; traceback formatting abstracted to an empty list",
             "the step function is a seam (None, any integer, or any Exception); BaseException (KeyboardInterrupt) is out of scope"],
)


# ---------------------------------------------------------------- the run policy of the per-object manual steps (C20)
from contracts.node_getters import GETTER_OVERRIDES, WF_NODE, by_contract          # noqa: E402
from contracts.node_decisions import SHOULD_RERUN_SUMMARY                          # noqa: E402

INTERTEST = "avocado_i2n/intertest_setup.py"


def run_flag_lambda(fn):
    """the `flag=lambda self, slot: ...` argument of graph.flag_children(flag_type="run", ...) as a return statement"""
    found = []
    for n in ast.walk(fn):
        if isinstance(n, ast.Call) and ast.unparse(n.func).endswith("flag_children"):
            kws = {k.arg: k.value for k in n.keywords}
            if isinstance(kws.get("flag"), ast.Lambda) and isinstance(kws.get("flag_type"), ast.Constant) \
                    and kws["flag_type"].value == "run":
                lam = kws["flag"]
                ret = ast.Return(value=lam.body)
                ast.copy_location(ret, lam)
                ret.end_lineno = getattr(lam, "end_lineno", lam.lineno)
                found.append(ret)
    return found if len(found) == 1 else []


RUN_FLAG = Contract(
    target=f"{INTERTEST}::_parse_and_iterate_for_objects_and_workers", name="_parse_and_iterate_for_objects_and_workers#run_flag",
    block=("run_flag", run_flag_lambda),
    params={"self": Ref("TestNode"), "slot": Ref("TestWorker")},
    requires=WF_NODE,
    overrides=dict(GETTER_OVERRIDES, **{"TestNode.should_rerun": by_contract(SHOULD_RERUN_SUMMARY)}),
    raises={"RuntimeError": None, "ValueError": None},
    ensures=[
        # exactly once per (vm, worker): a step this worker has finished is never flagged to run again
        ("finished_step_not_run_again", "implies(slot in self.shared_finished_workers, result == False)"),
        ("unfinished_step_runs", "implies(not self.is_shared_root() and slot not in self.shared_finished_workers, result == True)"),
        ("shared_root_never_runs", "implies(self.is_shared_root(), result == False)"),
    ],
    result_kind=BOOL, frame=[], props=["C20"],
    assumes=["extracted block: the body of the run policy lambda handed to flag_children"],
)


# ---------------------------------------------------------------- _reuse_tool_with_param_dict: temporary parameters are temporary
from pyvc.kinds import Map                                                              # noqa: E402


def reused_tool(eng, st, args, kw, node):
    """the reused tool: called with the shared configuration; returns None or an arbitrary integer status"""
    n = st.ghost.get("tool.calls") or V(INT, z3.Const("tool.calls0", z3.IntSort()))
    st.ghost["tool.calls"] = V(INT, n.term + 1)
    none = fresh(BOOL, "tool.none")
    for st1, isnone in eng.fork(st, none.term, "tool.returns_none"):
        if isnone:
            st1.ghost["tool.status"] = V(INT, z3.IntVal(0))
            yield st1, NONE
        else:
            r = fresh(INT, "tool.result")
            st1.ghost["tool.status"] = r
            yield st1, r


OLD_PD = "old(config['param_dict'])"
REUSE_TOOL = Contract(
    target=f"{INTERTEST}::_reuse_tool_with_param_dict",
    params={"config": Map(STR, Ref("Params")), "tag": STR, "param_dict": Ref("Params"),
            "tool": VFunc("handler", fn=reused_tool, name="tool")},
    requires=["'param_dict' in config and config['param_dict'] is not None and config['param_dict'] != param_dict"],
    raises={},
    ensures=[
        # whatever the reused tool reports, the shared parameters are the original ones again afterwards
        ("temporary_parameters_are_dropped", f"forall(STR, lambda k: (k in config['param_dict']) == old(k in config['param_dict']) and "
                                             f"implies(k in config['param_dict'], config['param_dict'][k] == old(config['param_dict'][k])))"),
        ("tool_called_once", "ghost('tool.calls') == old(ghost('tool.calls')) + 1"),
        ("overwrite_parameters_untouched", "forall(STR, lambda k: (k in param_dict) == old(k in param_dict) and "
                                           "implies(k in param_dict, param_dict[k] == old(param_dict[k])))"),
    ],
    frame=["Params.p_has", "Params.p_val"], props=["C20"],
    assumes=["the reused tool is a seam (None or any integer status); exceptions of the tool are outside this contract"],
)


# ---------------------------------------------------------------- incompatible workers are skipped, the others still get the step
def skip_block(fn):
    """the `if` that follows `nodes = graph.parse_composite_nodes(...)` (found by position, not by the spelling of its test)"""
    found = []
    for n in ast.walk(fn):
        for field in ("body", "orelse", "finalbody"):
            stmts = getattr(n, field, None)
            if not isinstance(stmts, list):
                continue
            for a, b in zip(stmts, stmts[1:]):
                if isinstance(a, ast.Assign) and isinstance(a.value, ast.Call) and isinstance(b, ast.If) \
                        and ast.unparse(a.value.func).endswith("parse_composite_nodes"):
                    found.append(b)
    return found[:1] if len(found) == 1 else []


def _skip_contract(func, with_else):
    name = f"{func}#incompatible_worker"
    return Contract(
        target=f"{INTERTEST}::{func}", name=name, block=("incompatible_worker", skip_block),
        params={"nodes": Seq(Ref("TestNode")), "test_worker": Ref("TestWorker"), "verb": Seq(STR)},
        requires=["len(verb) >= 4"],
        raises={"RuntimeError": "len(nodes) > 1" if with_else else "False"},
        ensures=[
            # a worker that cannot host the selected vms is skipped; the step still runs on every other worker
            ("only_this_worker_is_skipped", "ite(len(nodes) == 0, flow == 'continue', flow == 'normal')"),
        ],
        frame=[], props=["C20"],
        assumes=["extracted block: the statement that handles a worker without a compatible test variant"],
    )


SKIP_ONE_NODE = _skip_contract("_parse_one_node_for_all_objects_per_worker", True)
SKIP_PER_OBJECT = _skip_contract("_parse_and_iterate_for_objects_and_workers", False)

# same run policy for the steps that take all vms at once
RUN_FLAG_ONE_NODE = Contract(
    target=f"{INTERTEST}::_parse_one_node_for_all_objects_per_worker", name="_parse_one_node_for_all_objects_per_worker#run_flag",
    block=("run_flag", run_flag_lambda),
    params=RUN_FLAG.params, requires=RUN_FLAG.requires, overrides=RUN_FLAG.overrides, raises=RUN_FLAG.raises,
    ensures=RUN_FLAG.ensures, result_kind=BOOL, frame=[], props=["C20"], assumes=RUN_FLAG.assumes,
)
