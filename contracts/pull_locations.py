"""C08 / C01: the pieces of TestNode.pull_locations (avocado_i2n/cartgraph/node.py) that decide which sources a test is
told to fetch its setup from.  pull_locations is four nested loops over dynamic parameter keys; two statement blocks are
extracted mechanically from the real source on every run:

* `sources`: the statements that build the list of setup locations of one parent: the shared pool plus one
  '<worker id>:<setup path>' per worker named by shared_result_worker_ids (contract proved in contracts.node_getters:
  only workers with a visible PASS result);
* `location_step`: the body of the loop over the edge objects that appends one location to get_location_<object>.
What the extraction drops: the loops over parents / locations themselves and the copying of the worker's access
parameters (nets_*), which stay with the bounded stand-in (sync_scan_pull C0-C5).
"""
import ast
import z3
from pyvc.kinds import V, STR, INT, BOOL, Ref, Seq, SetK, NONE, const, fresh
from pyvc.contract import Contract, seam_handler
from contracts.node_getters import by_contract, RESULT_WORKER_IDS, GETTER_OVERRIDES

NODE = "avocado_i2n/cartgraph/node.py"
TARGET = f"{NODE}::TestNode.pull_locations"


def parent_loop(fn):
    loops = [n for n in fn.body if isinstance(n, ast.For) and isinstance(n.target, ast.Name) and n.target.id == "node"]
    return loops[0] if len(loops) == 1 else None


def sources_block(fn):
    lp = parent_loop(fn)
    if lp is None:
        return []
    out = []
    for s in lp.body:
        if isinstance(s, ast.Assign) and ast.unparse(s.targets[0]) == "setup_locations":
            out.append(s)
        elif isinstance(s, ast.For) and isinstance(s.target, ast.Name) and s.target.id == "net_suffix":
            out.append(s)
    return out if len(out) == 2 else []


def location_step(fn):
    loops = [n for n in ast.walk(fn) if isinstance(n, ast.For) and isinstance(n.target, ast.Name) and n.target.id == "component"]
    return loops[0].body if len(loops) == 1 else []


IDS = "node.shared_result_worker_ids"
SHARED = "(':' + self.params.get('shared_pool', '.'))"
SOURCES = Contract(
    target=TARGET, name="TestNode.pull_locations#sources", block=("sources", sources_block),
    params={"self": Ref("TestNode"), "node": Ref("TestNode"), "setup_path": STR},
    requires=[r.replace("self.", "node.").replace("(self)", "(node)") for r in RESULT_WORKER_IDS.requires],
    overrides=dict(GETTER_OVERRIDES, **dict(RESULT_WORKER_IDS.overrides,
                                            **{"TestNode.shared_result_worker_ids": by_contract(RESULT_WORKER_IDS)})),
    extra_names=dict(RESULT_WORKER_IDS.extra_names),
    loops={0: {"invariants": [
        f"forall(setup_locations, lambda loc: loc == {SHARED} or exists(STR, lambda w: w in _seen and loc == w + ':' + setup_path))",
        f"forall(STR, lambda w: implies(w in _seen, (w + ':' + setup_path) in setup_locations))",
        f"{SHARED} in setup_locations"],
        "kinds": {"setup_locations": Seq(STR), "net_suffix": STR}}},
    outputs={"setup_locations": Seq(STR)},
    ensures=[
        # never a worker that did not produce it ...
        ("only_shared_pool_and_producers", f"forall(setup_locations, lambda loc: loc == {SHARED} or "
                                           f"exists(STR, lambda w: w in {IDS} and loc == w + ':' + setup_path))"),
        # ... and every producer, in addition to the shared pool
        ("every_producer_named", f"forall(STR, lambda w: implies(w in {IDS}, (w + ':' + setup_path) in setup_locations))"),
        ("shared_pool_named", f"{SHARED} in setup_locations"),
    ],
    frame=[], props=["C08", "C01"],
    assumes=["extracted block: two statements of the loop over the parents; shared_result_worker_ids by its proved contract"],
)

KEY = "('get_location_' + component.long_suffix)"
OLDV = f"old(self.params.get({KEY}, ''))"
UNCHANGED = ("forall(STR, lambda k: (k in self.params) == old(k in self.params) and "
             "implies(k in self.params, self.params[k] == old(self.params[k])))")
OTHERS = (f"forall(STR, lambda k: implies(k != {KEY}, (k in self.params) == old(k in self.params) and "
          f"implies(k in self.params, self.params[k] == old(self.params[k]))))")
LOCATION_STEP = Contract(
    target=TARGET, name="TestNode.pull_locations#location_step", block=("location_step", location_step),
    params={"self": Ref("TestNode"), "component": Ref("TestObject"), "setup_location": STR},
    requires=["len(setup_location) > 0"],
    ensures=[
        ("net_objects_get_no_location", f"implies(component.key == 'nets', {UNCHANGED})"),
        ("already_named_is_idempotent", f"implies(component.key != 'nets' and setup_location in {OLDV}, {UNCHANGED})"),
        ("location_added_for_the_object", f"implies(component.key != 'nets', setup_location in self.params[{KEY}])"),
        ("appended_not_replaced", f"implies(component.key != 'nets' and setup_location not in {OLDV}, "
                                  f"self.params[{KEY}] == ite(len({OLDV}) > 0, {OLDV} + ' ' + setup_location, setup_location))"),
        ("only_this_objects_key", OTHERS),
    ],
    frame=["Params.p_has", "Params.p_val"], props=["C08", "C01"],
    assumes=["extracted block: body of the loop over the objects of one edge; TestObject.long_suffix read from its field"],
)
