"""C17: a vm state exists exactly when every image of the vm has it (QCOW2VTBackend.show, RamfileBackend._show).

The per-image listing (qemu-img output parsed by the image back end) is a seam: an uninterpreted function
img_states(image name) -> list of state names.  The number of images is fixed per contract case (0..3: the property
quantifies over vms with 1..3 images); the listings themselves are arbitrary (unbounded)."""
import z3
from pyvc.kinds import V, STR, INT, BOOL, Ref, Seq, SetK, Map, NONE, VList, VClass, VFunc, const, fresh
from pyvc.contract import Contract

L = Seq(STR)
IMG_STATES = z3.Function("img_states", z3.StringSort(), L.sort())


def image_show(eng, st, recv, args, kw, node):
    """Seam: <image back end>.show(image_params): the listing of the image named by image_params['images']."""
    p = args[0]
    for st1, name in eng.call_method(p, "__getitem__", [const("images")], {}, st, node):
        calls = st1.ghost.get("image_show.calls") or V(INT, z3.Const("image_show.calls0", z3.IntSort()))
        st1.ghost["image_show.calls"] = V(INT, calls.term + 1)
        yield st1, V(L, IMG_STATES(name.term))


def img_states_spec(eng, st, args, kw, node):
    yield st, V(L, IMG_STATES(args[0].term))


def fixed_images(names):
    def objects(eng, st, recv, args, kw, node):
        yield st, VList([st.frames[0][n] for n in names])
    return objects


def all_have(names):
    return " and ".join(f"s in img_states({n})" for n in names) or "True"


def show_case(target, cls, k, label, extra_overrides=None, extra_requires=(), spec=None, **kw):
    names = [f"img{i + 1}" for i in range(k)]
    params = {"cls": VClass(cls), "params": Ref("Params"), "object": NONE}
    params.update({n: STR for n in names})
    overrides = {"Params.objects": fixed_images(names), "QCOW2Backend.show": image_show}
    overrides.update(extra_overrides or {})
    return Contract(
        target=target, name=f"{label}[images={k}]", params=params,
        requires=list(extra_requires), overrides=overrides,
        extra_names={"img_states": VFunc("handler", fn=img_states_spec, name="img_states")},
        ensures=spec(names), frame=[], props=["C17"], case=f"images={k}",
        assumes=["the per-image listing is an arbitrary function of the image name (seam); Params.objects('images') "
                 f"is the list of {k} image names of this case"], **kw)


def vt_spec(names):
    if not names:
        return [("no_images_no_states", "len(result) == 0")]
    return [("state_iff_all_images_have_it", f"forall(STR, lambda s: (s in result) == ({all_have(names)}))"),
            ("one_listing_per_image", f"ghost('image_show.calls') == old(ghost('image_show.calls')) + {len(names)}")]


QCOW2 = "avocado_i2n/states/qcow2.py"
VT_SHOW = [show_case(f"{QCOW2}::QCOW2VTBackend.show", "QCOW2VTBackend", k, "QCOW2VTBackend.show", spec=vt_spec,
                     raises={"ParamNotFound": "'vms' not in params"}) for k in range(0, 4)]


# ---------------------------------------------------------------- RamfileBackend._show
RAMFILE = "avocado_i2n/states/ramfile.py"


def listdir(eng, st, recv, args, kw, node):
    r = st.ghost.get("listdir.result")
    if r is None:
        r = V(L, z3.Const("listdir.result", L.sort()))
        st.ghost["listdir.result"] = r
    yield st, r


def path_join(eng, st, recv, args, kw, node):
    t = args[0].term
    for a in args[1:]:
        t = z3.Concat(t, z3.StringVal("/"), a.term)
    yield st, V(STR, t)


def os_stat(eng, st, recv, args, kw, node):
    from pyvc.kinds import VModule
    eng.models.modules["statresult.st_size"] = fresh(INT, "st_size")
    yield st, VModule("statresult")


def image_backend(eng, st, cls, node):
    """RamfileBackend.image_state_backend is assigned at import time by the states package: some image back end."""
    yield st, VClass("QCOW2Backend")


import contracts.schema as _schema                                                           # noqa: E402
_schema.SCHEMA.setdefault("RamfileBackend", {"fields": {}})["classattrs"] = {"image_state_backend": image_backend}


def ram_spec(names):
    return [("state_iff_memory_file_and_all_images", f"forall(STR, lambda s: (s in result) == "
             f"((s + '.state') in ghost('listdir.result', SeqOf(STR)) and {all_have(names)}))")]


SNAP = "ghost('listdir.result', SeqOf(STR))"
RAM_LOOP = lambda names: {1: {"invariants": [                                                    # noqa: E731
    f"forall(STR, lambda s: (s in states) == (exists(range(0, _i), lambda j: {SNAP}[j] == s + '.state') and {all_have(names)}))"],
    "kinds": {"snapshot": STR, "state": STR, "size": INT, "states": L}}}

RAM_SHOW = [show_case(f"{RAMFILE}::RamfileBackend._show", "RamfileBackend", k, "RamfileBackend._show", spec=ram_spec,
                      extra_overrides={"os.listdir": listdir,
                                       "os.path.join": path_join, "os.stat": os_stat},
                      raises={"ParamNotFound": "'swarm_pool' not in params or 'vms' not in params or 'object_id' not in params"},
                      loops=RAM_LOOP([f"img{i + 1}" for i in range(k)])) for k in range(1, 4)]
