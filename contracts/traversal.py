"""Contracts of the traversal coroutines of TestGraph: traverse_node, reverse_node (C02, C03, C04, C05, C08, C10)."""
import z3
from pyvc.kinds import V, STR, INT, BOOL, Ref, Seq, SetK, Map, NULL, RefSort, VNone, NONE, const, fresh, fresh_name
from pyvc.contract import Contract, contract_handler, seam_handler
import pyvc.contract as _C
from contracts.node_getters import WF_NODE, WF_OBJECTS, WF_RESULTS, by_contract, BRL, FLEN
from contracts.node_decisions import (IS_OCCUPIED, DEFAULT_RUN, DEFAULT_CLEAN, VALID_PARAMS, wf_ready, valid_modes, ONE_COPY,
                                      B as BRIDGED)
from contracts.node_edges import re_search, BRIDGE_OVERRIDES
from contracts.runner import RUN_TEST_NODE, RUNNER_NAMES
from contracts.c16 import bridged_form, bridged_form_fn

GRAPH = "avocado_i2n/cartgraph/graph.py"

# ---------------------------------------------------------------- summaries of callees that are not proved here
PULL_LOCATIONS = Contract(
    target="avocado_i2n/cartgraph/node.py::TestNode.pull_locations",
    name="TestNode.pull_locations[summary]",
    params={"self": Ref("TestNode")},
    raises={"RuntimeError": None, "ParamNotFound": None},
    ensures=[
        # only the parameters of this node change, and only setup-location / access keys (checked bounded: sync_scan_pull)
        ("other_params_kept", "forall(Ref('Params'), lambda p: implies(p != self.params, "
                              "forall(STR, lambda k: (k in p) == old(k in p) and implies(k in p, p[k] == old(p[k])))))"),
        ("own_params_kept", "forall(STR, lambda k: implies(not k.startswith('get_location') and not k.startswith('nets_'), "
                            "(k in self.params) == old(k in self.params) and implies(k in self.params, "
                            "self.params[k] == old(self.params[k]))))"),
    ],
    frame=["Params.p_has", "Params.p_val"],
    props=[],
)

# the name of a test is never rewritten during a traversal (readiness and pick predicates depend on it)
NAMES_KEPT = ("forall(Ref('Params'), lambda p: ('name' in p) == old('name' in p) and implies('name' in p, p['name'] == old(p['name'])))")

NO_FINISHED_MARKER_YET = ("forall(Ref('TestNode'), lambda n: implies(allocated(n), n.finished_worker == old(n.finished_worker)))")

TRAVERSE_TERMINAL = Contract(
    target=f"{GRAPH}::TestGraph.traverse_terminal_node",
    name="TestGraph.traverse_terminal_node[summary]",
    params={"self": Ref("TestGraph"), "object_name": STR, "worker": Ref("TestWorker"), "params": (Ref("Params"), "nullable")},
    requires=[NO_FINISHED_MARKER_YET],
    raises={"AssertionError": None, "RuntimeError": None, "ValueError": None, "ParamNotFound": None, "KeyError": None},
    ensures=[("markers_kept", "forall(Ref('TestNode'), lambda n: implies(allocated(n), n.started_worker == old(n.started_worker) "
                              "and n.finished_worker == old(n.finished_worker)))"),
             ("names_kept", NAMES_KEPT)],
    result_kind=BOOL,
    frame=["TestNode.results", "TestNode.prefix", "Params.p_has", "Params.p_val", "JobResultSet.tests", "JobResult.j_status",
           "JobResult.j_time", "JobResult.tid", "TestID.name", "TestID.uid", "Result.r_name", "Result.r_status",
           "TestNode.started_worker", "TestNode.finished_worker"],
    props=[],
)

# run_test_node at a call site: the node must carry the marker of the worker that runs it (C04.run.requires_marker)
RUN_TEST_NODE_MARKED = Contract(
    target=RUN_TEST_NODE.target, name="TestRunner.run_test_node[call site]",
    params={"self": Ref("TestRunner"), "node": Ref("TestNode"), "status_timeout": const(10)},
    # while a test is awaited nobody may already see it as finished by this traversal step: no finished marker has been
    # written since the step was entered (old() at a call site refers to the entry of the calling function)
    requires=["node.started_worker is not None", NO_FINISHED_MARKER_YET] + [r for r in RUN_TEST_NODE.requires if "status_timeout" not in r],
    raises=RUN_TEST_NODE.raises, ensures=RUN_TEST_NODE.ensures, result_kind=BOOL, frame=RUN_TEST_NODE.frame,
    extra_names=RUN_TEST_NODE.extra_names, props=[],
)

from contracts.node_decisions import CLEAN_OVERRIDES  # noqa: E402

TRAVERSE_OVERRIDES = dict(CLEAN_OVERRIDES)
TRAVERSE_OVERRIDES.update({
    "TestNode.is_occupied": by_contract(IS_OCCUPIED),
    "TestNode.pull_locations": by_contract(PULL_LOCATIONS),
    "TestNode.default_run_decision": by_contract(DEFAULT_RUN),
    "TestNode.default_clean_decision": by_contract(DEFAULT_CLEAN),
    "TestGraph.traverse_terminal_node": by_contract(TRAVERSE_TERMINAL),
    "TestRunner.run_test_node": by_contract(RUN_TEST_NODE_MARKED),
    "TestNode.bridged_form": bridged_form,
    "re.search": re_search,
})

NODE_VALID = (WF_NODE + [WF_OBJECTS, WF_RESULTS] + VALID_PARAMS)
N = "test_node"


def on(n, exprs):
    return [e.replace("self.", n + ".").replace("(self)", f"({n})").replace("self,", n + ",") for e in exprs]


OCC = f"old({N}.is_occupied(worker))"

TRAVERSE_NODE = Contract(
    target=f"{GRAPH}::TestGraph.traverse_node",
    params={"self": Ref("TestGraph"), "test_node": Ref("TestNode"), "worker": Ref("TestWorker"),
            "params": (Ref("Params"), "nullable")},
    requires=on(N, NODE_VALID) + [
        "self.runner is not None and self.runner.job is not None and self.runner.job.result is not None",
        "forall(self.runner.job.result.tests, lambda t: t is not None and t['name'] is not None and t['status'] in DEFINITE)",
        "forall(self.runner.previous_results, lambda r: r is not None and allocated(r))",
        f"forall({N}.results, lambda r: r is not None and allocated(r))",
        "worker.spawner is not None",
    ],
    overrides=TRAVERSE_OVERRIDES,
    extra_names=dict(RUNNER_NAMES, filtered_len=FLEN, bridged_results_len=BRL),
    raises={"RuntimeError": None, "ValueError": None, "ParamNotFound": None, "AssertionError": None, "KeyError": None},
    loops={0: {"invariants": [f"{N}.started_worker == worker", f"{N}.finished_worker == old({N}.finished_worker)"],
               "modifies": ["TestObject.current_state"],
               "kinds": {"object_params": Ref("Params"), "object_state": STR, "test_object": Ref("TestObject")}}},
    ensures=[
        ("occupied_untouched", f"implies({OCC}, {N}.started_worker == old({N}.started_worker) and "
                               f"{N}.finished_worker == old({N}.finished_worker) and {N}.results == old({N}.results))"),
        ("marks_finished", f"implies(not {OCC}, {N}.finished_worker == worker and {N}.started_worker is None)"),
        ("other_markers_kept", f"forall(Ref('TestNode'), lambda n: implies(n != {N} and allocated(n), "
                               f"n.started_worker == old(n.started_worker) and n.finished_worker == old(n.finished_worker)))"),
        ("names_kept", NAMES_KEPT),
    ],
    frame=["TestNode.started_worker", "TestNode.finished_worker", "TestNode.results", "TestNode.prefix", "Params.p_has",
           "Params.p_val", "JobResultSet.tests", "JobResult.j_status", "JobResult.j_time", "JobResult.tid", "TestID.name",
           "TestID.uid", "Result.r_name", "Result.r_status", "TestObject.current_state", "TestNode.should_rerun"],
    props=["C04", "C02", "C03", "C01"],
    assumes=["pull_locations and traverse_terminal_node are used through summaries (frame only); their own clauses are "
             "checked by the bounded stand-in sync_scan_pull and by the scenario checks"],
)

# ---------------------------------------------------------------- reverse_node
SYNC_STATES = seam_handler("sync", None, may_raise=["ValueError", "KeyError", "ParamNotFound", "AttributeError"])
REVERSE_OVERRIDES = dict(TRAVERSE_OVERRIDES)
REVERSE_OVERRIDES["TestNode.sync_states"] = SYNC_STATES
from contracts.node_getters import STATEFUL_OBJECTS  # noqa: E402
REVERSE_OVERRIDES["TestNode.get_stateful_objects"] = by_contract(STATEFUL_OBJECTS)

CLEAN_VALID = [r.replace("self", N) for r in DEFAULT_CLEAN.requires]

REVERSE_NODE = Contract(
    target=f"{GRAPH}::TestGraph.reverse_node",
    params={"self": Ref("TestGraph"), "test_node": Ref("TestNode"), "worker": Ref("TestWorker"),
            "params": (Ref("Params"), "nullable")},
    requires=CLEAN_VALID,
    overrides=REVERSE_OVERRIDES,
    stubs={"TestNode.bridged_form": (bridged_form_fn, "TestNode", STR, "property")},
    raises={"RuntimeError": None, "ValueError": None, "ParamNotFound": None, "KeyError": None, "AttributeError": None},
    ensures=[
        ("occupied_untouched", f"implies({OCC}, {N}.started_worker == old({N}.started_worker) and "
                               f"ghost('sync.calls') == old(ghost('sync.calls')))"),
        ("marker_cleared", f"implies(not {OCC}, {N}.started_worker is None)"),
        ("sync_only_if_clean_decision", f"implies(ghost('sync.calls') != old(ghost('sync.calls')), "
                                        f"not {OCC} and ghost('sync.calls') == old(ghost('sync.calls')) + 1)"),
        ("finished_marker_kept", f"{N}.finished_worker == old({N}.finished_worker)"),
    ],
    frame=["TestNode.started_worker"],
    props=["C04", "C05"],
)
