"""C14 (lock discipline): the local transfer operations of avocado_i2n/states/pool.py hold the image lock while they
touch the pool file and release it on every exit, and a lock that cannot be acquired within the timeout raises
instead of proceeding unlocked.

download_local / upload_local / delete_local / download_link are verified whole; the generator context manager
image_lock is inlined at the `with` statement by the engine (its body is real source as well).  The file system, the
hash comparison and fcntl are seams; fcntl.lockf(LOCK_EX|LOCK_NB) may succeed (ghost lock.held := True) or raise an
IOError with an arbitrary errno, fcntl.lockf(LOCK_UN) sets lock.held := False.  Every seam that touches the pool file
records whether the lock was held when it was called.
Not covered here: mutual exclusion between processes (a property of the kernel's fcntl locks, exercised by the bounded
stand-in with forked lock holders), byte-identity of copies (shutil.copy is trusted), a process dying while it holds
the lock (the kernel releases fcntl locks of a dead process)."""
import z3
from pyvc.kinds import V, STR, INT, BOOL, Ref, Seq, NONE, VModule, VFunc, VExc, const, fresh
from pyvc.contract import Contract, seam_handler, ghost_reader

POOL = "avocado_i2n/states/pool.py"
LOCK_EX, LOCK_NB, LOCK_UN, EACCES, EAGAIN = 2, 4, 8, 13, 11


def held(st):
    v = st.ghost.get("lock.held")
    if v is None:
        v = V(BOOL, z3.Const("lock.held0", z3.BoolSort()))
        st.ghost["lock.held"] = v
    return v


def lockf(eng, st, recv, args, kw, node):
    ok, op = (lambda a: (True, a))(None), None
    from pyvc.kinds import concrete
    okc, opv = concrete(args[1])
    if not okc:
        raise NotImplementedError("symbolic lock operation")
    n = st.ghost.get("lockf.calls") or V(INT, z3.Const("lockf.calls0", z3.IntSort()))
    st.ghost["lockf.calls"] = V(INT, n.term + 1)
    if opv == LOCK_UN:
        st.ghost["lock.held"] = const(True) if False else V(BOOL, z3.BoolVal(False))
        rel = st.ghost.get("unlock.calls") or V(INT, z3.Const("unlock.calls0", z3.IntSort()))
        st.ghost["unlock.calls"] = V(INT, rel.term + 1)
        yield st, NONE
        return
    # non-blocking exclusive lock: taken, busy (EACCES / EAGAIN) or another error
    got = fresh(BOOL, "lockf.got")
    for st1, g in eng.fork(st, got.term, "lockf.acquired"):
        if g:
            st1.ghost["lock.held"] = V(BOOL, z3.BoolVal(True))
            yield st1, NONE
        else:
            err = fresh(INT, "lockf.errno")
            st1.ghost["lockf.last_errno"] = err
            eng.raise_exc(st1, "OSError", node, [err])


def with_open(eng, s, st):
    item = s.items[0]
    for st1 in eng.assign(item.optional_vars, VModule("lockfd"), st):
        yield from eng.ex_block(s.body, st1)


def fs_op(name, result_kind=None, may_raise=("OSError",)):
    """A file system operation on the pool / cache file: records whether the lock was held when it was called."""
    return seam_handler(name, result_kind, may_raise=list(may_raise), snapshot=["lock.held"])


F_ISLINK = z3.Function("fs_islink", z3.StringSort(), z3.IntSort(), z3.BoolSort())
F_EXISTS = z3.Function("fs_exists", z3.StringSort(), z3.IntSort(), z3.BoolSort())


def epoch(st):
    v = st.ghost.get("fs.epoch")
    if v is None:
        v = V(INT, z3.IntVal(0))
        st.ghost["fs.epoch"] = v
    return v


def fs_query(fn):
    """os.path.islink / exists: a function of the path and of the file system version (changed by copy/unlink/symlink)."""
    def h(eng, st, recv, args, kw, node):
        yield st, V(BOOL, fn(args[0].term, epoch(st).term))
    return h


def fs_mutation(name):
    inner = fs_op(name)

    def h(eng, st, recv, args, kw, node):
        for st1, r in inner(eng, st, recv, args, kw, node):
            st1.ghost["fs.epoch"] = V(INT, epoch(st1).term + 1)
            yield st1, r
    return h


def fs_spec(fn):
    """spec functions fs_islink(path) / fs_exists(path): the file system as it was on entry"""
    def h(eng, st, args, kw, node):
        yield st, V(BOOL, fn(args[0].term, z3.IntVal(0)))
    return h


def dirname(eng, st, recv, args, kw, node):
    f = z3.Function("os_path_dirname", z3.StringSort(), z3.StringSort())
    yield st, V(STR, f(args[0].term))


OVERRIDES = {
    "with:open": with_open,
    "fcntl.lockf": lockf,
    "os.makedirs": seam_handler("makedirs", None),
    "os.path.dirname": dirname,
    "time.sleep": seam_handler("sleep", None),
    "shutil.copy": fs_mutation("copy"),
    "os.unlink": fs_mutation("unlink"),
    "os.symlink": fs_mutation("symlink"),
    "os.path.islink": fs_query(F_ISLINK),
    "os.path.exists": fs_query(F_EXISTS),
    "os.path.realpath": seam_handler("realpath", STR),
    "TransferOps.compare_local": fs_op("compare", BOOL, may_raise=("OSError",)),
    "TransferOps.compare_link": fs_op("compare", BOOL, may_raise=("OSError",)),
}


def install_constants(eng, st, frame):
    m = eng.models.modules
    m["fcntl.LOCK_EX"], m["fcntl.LOCK_NB"], m["fcntl.LOCK_UN"] = const(LOCK_EX), const(LOCK_NB), const(LOCK_UN)
    m["errno.EACCES"], m["errno.EAGAIN"] = const(EACCES), const(EAGAIN)
    st.ghost["lock.held"] = V(BOOL, z3.BoolVal(False))        # the function is entered without the lock


def calls(op): return f"ghost('{op}.calls')"                                   # noqa: E704
def same(op): return f"{calls(op)} == old({calls(op)})"                        # noqa: E704
def once(op): return f"{calls(op)} == old({calls(op)}) + 1"                    # noqa: E704
def under_lock(op): return f"implies(not {same(op)}, ghost('{op}.saw.lock.held') == True)"   # noqa: E704


TIMEOUT = "old(params.get_numeric('update_pool_timeout', 300))"
# image_lock's waiting loop, for an arbitrary (symbolic) timeout
LOCK_LOOP = {("image_lock", 0): {
    "invariants": ["ghost('lock.held') == False",
                   "ghost('sleep.calls') == old(ghost('sleep.calls')) + _i",
                   "ghost('lockf.calls') == old(ghost('lockf.calls')) + _i",
                   "ghost('unlock.calls') == old(ghost('unlock.calls'))"],
    "ghost": ["lock.held", "sleep.calls", "lockf.calls", "lockf.last_errno"],
    "kinds": {"_": INT}}}

RELEASED = "ghost('lock.held') == False"
EXC = [
    ("lock_released_on_failure", RELEASED),
    ("timeout_only_after_all_attempts", f"implies(exc == 'RuntimeError' and {same('compare')}, "
                                        f"ghost('lockf.calls') == old(ghost('lockf.calls')) + {TIMEOUT} and {same('unlock')})"),
]


def transfer(name, params, ensures, extra_exc=(), raises=None):
    return Contract(
        target=f"{POOL}::TransferOps.{name}", params=params, setup=install_constants,
        requires=["params.get_numeric('update_pool_timeout', 300) >= 0"],
        overrides=OVERRIDES, loops=LOCK_LOOP,
        extra_names={"fs_islink": VFunc("handler", fn=fs_spec(F_ISLINK), name="fs_islink"),
                     "fs_exists": VFunc("handler", fn=fs_spec(F_EXISTS), name="fs_exists")},
        raises=dict({"OSError": None, "RuntimeError": None, "ValueError": None, "ParamNotFound": None}, **(raises or {})),
        ensures=[("lock_released", RELEASED), ("unlocked_exactly_once", once("unlock"))] + ensures,
        exc_ensures=EXC + list(extra_exc),
        frame=[], props=["C14"],
        assumes=["fcntl.lockf, the file system and the hash comparison are seams; the lock is not held on entry",
                 "int(str) conversion errors of update_pool_timeout are ValueError outcomes of get_numeric"])


PATHS = {"cache_path": STR, "pool_path": STR, "params": Ref("Params")}
DOWNLOAD_LOCAL = transfer("download_local", PATHS, [
    ("copy_only_under_lock", under_lock("copy")),
    ("compare_under_lock", under_lock("compare")),
    ("skip_when_equal", f"ite(ghost('compare.result'), {same('copy')}, {once('copy')})"),
    ("pool_to_cache", f"implies(not {same('copy')}, ghost('copy.arg0', STR) == pool_path and ghost('copy.arg1', STR) == cache_path)"),
    ("never_deletes", f"{same('unlink')} and {same('symlink')}"),
], extra_exc=[("failed_download_destroys_nothing", f"{same('unlink')} and {same('symlink')}")])
UPLOAD_LOCAL = transfer("upload_local", PATHS, [
    ("copy_only_under_lock", under_lock("copy")),
    ("compare_under_lock", under_lock("compare")),
    ("skip_when_equal", f"ite(ghost('compare.result'), {same('copy')}, {once('copy')})"),
    ("cache_to_pool", f"implies(not {same('copy')}, ghost('copy.arg0', STR) == cache_path and ghost('copy.arg1', STR) == pool_path)"),
    ("never_deletes", f"{same('unlink')} and {same('symlink')}"),
], extra_exc=[("failed_upload_destroys_nothing", f"{same('unlink')} and {same('symlink')}")])
DELETE_LOCAL = transfer("delete_local", {"pool_path": STR, "params": Ref("Params")}, [
    ("unlink_only_under_lock", under_lock("unlink")),
    ("deletes_the_pool_file_once", f"{once('unlink')} and ghost('unlink.arg0', STR) == pool_path"),
    ("never_copies", f"{same('copy')} and {same('symlink')}"),
])
DOWNLOAD_LINK = transfer("download_link", PATHS, [
    ("link_only_under_lock", f"{under_lock('symlink')} and {under_lock('unlink')}"),
    ("skip_when_equal", f"implies(ghost('compare.result'), {same('symlink')} and {same('unlink')})"),
    ("links_cache_to_pool", f"implies(not ghost('compare.result'), {once('symlink')} and ghost('symlink.arg0', STR) == pool_path "
                            f"and ghost('symlink.arg1', STR) == cache_path)"),
    ("only_a_link_is_ever_removed", f"implies(not {same('unlink')}, ghost('unlink.arg0', STR) == cache_path)"),
    ("never_copies_data", same("copy")),
    # link mode never replaces real data with a link
    ("real_data_never_replaced", f"implies(not {same('symlink')}, fs_islink(cache_path) or not fs_exists(cache_path))"),
    ("only_links_are_unlinked", f"implies(not {same('unlink')}, fs_islink(cache_path))"),
], extra_exc=[
    ("refuses_only_real_data", f"implies(exc == 'RuntimeError' and not {same('compare')}, "
                               f"not fs_islink(cache_path) and fs_exists(cache_path) and {same('symlink')} and {same('unlink')})"),
])
UPLOAD_LINK = Contract(
    target=f"{POOL}::TransferOps.upload_link", params=PATHS, setup=install_constants,
    requires=["params.get_numeric('update_pool_timeout', 300) >= 0"],
    overrides=dict(OVERRIDES, **{"TransferOps.upload_local": seam_handler("upload_local", None, may_raise=["OSError", "RuntimeError"])}),
    extra_names={"fs_islink": VFunc("handler", fn=fs_spec(F_ISLINK), name="fs_islink")},
    raises={"ValueError": "fs_islink(cache_path)", "OSError": None, "RuntimeError": None},
    ensures=[("a_link_is_never_uploaded", f"not fs_islink(cache_path) and {once('upload_local')}")],
    exc_ensures=[("refusal_uploads_nothing", f"implies(exc == 'ValueError', {same('upload_local')})")],
    frame=[], props=["C14"],
)


# ---------------------------------------------------------------- dispatch of a pool path to the remote / link / local operation
def dispatch(name, has_cache):
    args = "cache_path, " if has_cache else ""
    ps = {"cls": __import__("pyvc.kinds", fromlist=["VClass"]).VClass("TransferOps")}
    if has_cache:
        ps["cache_path"] = STR
    ps.update({"pool_path": STR, "params": Ref("Params")})
    ops = [f"{name}_remote", f"{name}_link", f"{name}_local"]
    ov = {f"TransferOps.{o}": seam_handler(o, BOOL if name == "compare" else (Seq(STR) if name == "list" else None)) for o in ops}
    HOSTS, PATH = "pool_path.split(':')[0]", "pool_path.split(':')[1]"
    pidx = 2 if has_cache else 1      # arg0 is the class the operation is called on

    def only(op):
        return f"{once(op)} and " + " and ".join(same(o) for o in ops if o != op)
    target = "list_paths" if name == "list" else name
    return Contract(
        target=f"{POOL}::TransferOps.{target}", name=f"TransferOps.{target}[dispatch]", params=ps,
        requires=["len(pool_path.split(':')) == 2"], overrides=ov,
        ensures=[
            ("remote_iff_host_given", f"implies({HOSTS} != '', {only(ops[0])} and ghost('{ops[0]}.arg{pidx}', STR) == pool_path)"),
            ("link_iff_marked", f"implies({HOSTS} == '' and ';' in {PATH}, {only(ops[1])})"),
            ("local_otherwise", f"implies({HOSTS} == '' and ';' not in {PATH}, {only(ops[2])} and "
                                f"ghost('{ops[2]}.arg{pidx}', STR) == {PATH})"),
        ],
        frame=[], props=["C14", "C13"],
        assumes=["the concrete operations are seams here (their own contracts: lock discipline above)"])


DISPATCH = [dispatch("download", True), dispatch("upload", True), dispatch("delete", False), dispatch("compare", True),
            dispatch("list", False)]
