"""Contracts of the TestNode decision functions (C03, C04, C05, C08, C10)."""
import z3
from pyvc.kinds import V, STR, INT, BOOL, Ref, Seq, SetK, Map, NULL, RefSort
from pyvc.contract import Contract, contract_handler
from contracts.node_getters import (NODE, W, WF_NODE, WF_BRIDGED, GETTER_OVERRIDES, IS_STARTED, IS_FINISHED, FLAT,
                                    SELF_SCOPE, SWARM_SCOPE, by_contract)

DECISION_OVERRIDES = dict(GETTER_OVERRIDES)
DECISION_OVERRIDES["TestNode.is_started"] = by_contract(IS_STARTED)
DECISION_OVERRIDES["TestNode.is_finished"] = by_contract(IS_FINISHED)

MCT = ("max(self.params.get_numeric('max_concurrent_tries', self.params.get_numeric('max_tries', 1)), 1)")

IS_OCCUPIED = Contract(
    target=f"{NODE}::TestNode.is_occupied",
    params={"self": Ref("TestNode"), "worker": (Ref("TestWorker"), "nullable")},
    requires=WF_NODE,
    overrides=DECISION_OVERRIDES,
    raises={
        "ValueError": "('max_tries' in self.params and not str_is_int(self.params['max_tries'])) or "
                      "('max_concurrent_tries' in self.params and not str_is_int(self.params['max_concurrent_tries']))",
        "ParamNotFound": f"not ({FLAT}) and worker is not None and 'pool_scope' not in self.params",
    },
    raises_only_if=True,
    ensures=[
        ("exact", f"result == self.is_started(worker, {MCT})"),
        ("flat_never", f"implies({FLAT}, result == False)"),
        ("global_threshold", f"implies(not ({FLAT}) and not {SELF_SCOPE} and not {SWARM_SCOPE}, "
                             f"result == (len(self.shared_started_workers) >= {MCT}))"),
        ("self_threshold", f"implies(not ({FLAT}) and {SELF_SCOPE}, result == (worker in self.shared_started_workers))"),
    ],
    result_kind=BOOL,
    frame=[],
    props=["C04"],
)


# ---------------------------------------------------------------- should_rerun (C03, C10)
from contracts.node_getters import (SHARED_RESULTS, SHARED_FILTERED, STATEFUL_OBJECTS, WF_OBJECTS, WF_RESULTS, BRL, FLEN,
                                    RES, OBJ)  # noqa: E402

DECISION_OVERRIDES["TestNode.shared_results"] = by_contract(SHARED_RESULTS)
DECISION_OVERRIDES["TestNode.shared_filtered_results"] = by_contract(SHARED_FILTERED)
DECISION_OVERRIDES["TestNode.get_stateful_objects"] = by_contract(STATEFUL_OBJECTS)

ALL_STATUSES = ["fail", "error", "pass", "warn", "skip", "cancel", "interrupted", "unknown"]
ALL = repr(ALL_STATUSES)
DRY = "self.params.get('dry_run', 'no') == 'yes'"
CLONE = "len(self._cloned_nodes) > 0"
EARLY = f"(({DRY}) or ({FLAT}) or ({CLONE}))"
FOREIGN = "(worker is not None and worker.id not in self.params['name'])"
REPLAY = "bool(self.params.get('replay'))"
RERUN_LIST = (f"(self.params.get_list('rerun_status', 'fail,error,warn', ',') if {REPLAY} else "
              f"(self.params.get_list('rerun_status', []) or {ALL}))")
STOP_LIST = "self.params.get_list('stop_status', [])"
MAX_TRIES_OK = "('max_tries' not in self.params or str_is_int(self.params['max_tries']))"
MAX_TRIES = f"(str_int(self.params['max_tries']) if 'max_tries' in self.params else (2 if {REPLAY} else 1))"
INVALID_RERUN = f"exists({RERUN_LIST}, lambda x: x not in {ALL})"
INVALID_STOP = f"exists({STOP_LIST}, lambda x: x not in {ALL})"
STATELESS = "len(self.get_stateful_objects()) == 0"
COUNTED = (f"(self.shared_results if {STATELESS} else with_field(self, 'started_worker', "
           f"ite(self.started_worker is not None, self.started_worker, worker), lambda: self.shared_filtered_results))")

FILTERED_FOR_WORKER = ("with_field(self, 'started_worker', ite(self.started_worker is not None, self.started_worker, worker), "
                       "lambda: self.shared_filtered_results)")
VALID_PARAMS = ["'name' in self.params", "'pool_scope' in self.params"]

def _present(key):
    return {
        "absent": [f"'{key}' not in self.params"],
        "empty": [f"'{key}' in self.params and len(self.params['{key}']) == 0"],
        "given": [f"'{key}' in self.params and len(self.params['{key}']) > 0"],
    }


SHOULD_RERUN_CASES = []
for _replay in ("absent", "given", "empty"):
    for _rerun in ("absent", "given", "empty"):
        for _stop in ("absent", "given", "empty"):
            _case = f"replay={_replay},rerun_status={_rerun},stop_status={_stop}"
            _main = "empty" not in (_replay, _rerun, _stop)
            SHOULD_RERUN_CASES.append(Contract(
                target=f"{NODE}::TestNode.should_rerun",
                name=f"TestNode.should_rerun[{_case}]",
                case=_case,
                # replay with an explicitly empty rerun_status: z3 does not discharge `false_needs_reason` within hours
                # (no counter-model either): these three cases are left undecided and are not run (tier "off")
                tier="quick" if _main else ("off" if (_replay, _rerun) == ("given", "empty") else "thorough"),
                params={"self": Ref("TestNode"), "worker": (Ref("TestWorker"), "nullable")},
                requires=WF_NODE + [WF_OBJECTS, WF_RESULTS] + VALID_PARAMS + _present("replay")[_replay]
                + _present("rerun_status")[_rerun] + _present("stop_status")[_stop],
                overrides=DECISION_OVERRIDES,
                extra_names={"filtered_len": FLEN, "bridged_results_len": BRL},
                raises={
                    "RuntimeError": f"not {EARLY} and {FOREIGN}",
                    "ValueError": f"not {EARLY} and not {FOREIGN} and ({INVALID_RERUN} or {INVALID_STOP} or "
                                  f"not {MAX_TRIES_OK} or {MAX_TRIES} < 0)",
                },
                ensures=[
                    ("early_false", f"implies({EARLY}, result == False)"),
                ] + [
                    clause for tag, cond, lst in (
                        ("stateless", STATELESS, "self.shared_results"),
                        ("stateful", f"not ({STATELESS})", FILTERED_FOR_WORKER),
                    ) for clause in (
                        (f"{tag}.true_needs_rerun_set", f"implies(not {EARLY} and {cond} and result, "
                                                        f"forall({lst}, lambda r: r['status'].lower() in {RERUN_LIST}))"),
                        (f"{tag}.true_needs_no_stop", f"implies(not {EARLY} and {cond} and result, "
                                                      f"not exists({lst}, lambda r: r['status'].lower() in {STOP_LIST}))"),
                        (f"{tag}.true_needs_tries_left", f"implies(not {EARLY} and {cond} and result, "
                                                         f"{MAX_TRIES} != 1 and {MAX_TRIES} - len({lst}) > 0)"),
                        (f"{tag}.false_needs_reason", f"implies(not {EARLY} and {cond} and not result, "
                                                      f"exists({lst}, lambda r: r['status'].lower() not in {RERUN_LIST}) or "
                                                      f"exists({lst}, lambda r: r['status'].lower() in {STOP_LIST}) or "
                                                      f"{MAX_TRIES} == 1 or {MAX_TRIES} - len({lst}) <= 0)"),
                    )
                ] + [
                    ("restores_marker", "self.started_worker == old(self.started_worker)"),
                ],
                result_kind=BOOL,
                frame=["TestNode.started_worker"],
                props=["C10", "C03"],
                assumes=["should_rerun is verified per configuration case (presence / emptiness of replay, rerun_status, "
                         "stop_status); the 27 cases are exhaustive"],
            ))


# ---------------------------------------------------------------- default_run_decision (C01, C03, C08, C10)
from pyvc.contract import seam_handler  # noqa: E402

# call-site summary of should_rerun: union of the case contracts above (the 27 cases are exhaustive); it restores
# started_worker (clause restores_marker) and writes nothing else, hence an empty frame for callers
SHOULD_RERUN_SUMMARY = Contract(
    target=f"{NODE}::TestNode.should_rerun",
    name="TestNode.should_rerun[summary]",
    params={"self": Ref("TestNode"), "worker": (Ref("TestWorker"), "nullable")},
    requires=[],
    raises={"RuntimeError": f"not {EARLY} and {FOREIGN}", "ValueError": None},
    ensures=[("early_false", f"implies({EARLY}, result == False)")],
    result_kind=BOOL,
    frame=[],
    props=[],
)
REGISTRY_SUMMARIES = [SHOULD_RERUN_SUMMARY]

RUN_OVERRIDES = dict(DECISION_OVERRIDES)
RUN_OVERRIDES["TestNode.should_rerun"] = by_contract(SHOULD_RERUN_SUMMARY)
RUN_OVERRIDES["TestNode.scan_states"] = seam_handler("scan", BOOL, may_raise=["RuntimeError"])

OWN = "worker.id in self.params['name']"
SCAN = "(not self.is_finished(worker, 1))"

DEFAULT_RUN = Contract(
    target=f"{NODE}::TestNode.default_run_decision",
    params={"self": Ref("TestNode"), "worker": Ref("TestWorker")},
    requires=WF_NODE + [WF_OBJECTS, WF_RESULTS] + VALID_PARAMS,
    overrides=RUN_OVERRIDES,
    extra_names={"filtered_len": FLEN, "bridged_results_len": BRL},
    raises={
        "RuntimeError": None,      # foreign worker (exact condition below), or a control file error of the scan
        "ValueError": None,        # invalid retry settings (from should_rerun)
    },
    ensures=[
        ("early_false", f"implies({EARLY}, result == False and ghost('scan.calls') == old(ghost('scan.calls')))"),
        ("own_worker_only", f"implies(not {EARLY}, {OWN})"),
        ("stateless", f"implies(not {EARLY} and {STATELESS}, result == (len(self.shared_results) == 0 or "
                      f"self.should_rerun(worker)) and ghost('scan.calls') == old(ghost('scan.calls')))"),
        ("stateful.scan_iff_unfinished", f"implies(not {EARLY} and not ({STATELESS}), ghost('scan.calls') == "
                                         f"old(ghost('scan.calls')) + (1 if {SCAN} else 0))"),
        ("stateful.finished_no_scan", f"implies(not {EARLY} and not ({STATELESS}) and not {SCAN} and "
                                      f"len(self.shared_filtered_results) == 0, result == False)"),
        ("stateful.present_not_run", f"implies(not {EARLY} and not ({STATELESS}) and {SCAN} and not ghost('scan.result') "
                                     f"and len(self.shared_filtered_results) == 0, "
                                     f"result == False and policy_overridden(self, 'should_rerun'))"),
        ("stateful.missing_runs", f"implies(not {EARLY} and not ({STATELESS}) and {SCAN} and ghost('scan.result'), result)"),
        ("stateful.rerun_rule", f"implies(not {EARLY} and not ({STATELESS}) and len(self.shared_filtered_results) > 0 "
                                f"and not ({SCAN} and ghost('scan.result')), "
                                f"not policy_overridden(self, 'should_rerun') and result == self.should_rerun(worker))"),
    ],
    result_kind=BOOL,
    frame=["TestNode.should_rerun"],
    ghost_frame=["scan.calls", "scan.result"],
    props=["C03", "C01", "C08", "C10", "C02"],   # C02: in a dry run nothing is executed (early_false)
)


# ---------------------------------------------------------------- is_setup_ready / is_cleanup_ready (C01, C02, C05, C08)
def readonly_view(field):
    """TestNode.setup_nodes / cleanup_nodes: ReadOnlyDict(self._x) is a read-only copy of the dictionary."""
    def prop(eng, st, obj, args, kw, node):
        yield st, eng.read_field(st, obj, "TestNode", field, Map(Ref("TestNode"), SetK(Ref("TestObject"))))
    return prop


from contracts.c16 import bridged_form, bridged_form_fn  # noqa: E402

READY_OVERRIDES = dict(DECISION_OVERRIDES)
READY_OVERRIDES["TestNode.setup_nodes"] = readonly_view("_setup_nodes")
READY_OVERRIDES["TestNode.cleanup_nodes"] = readonly_view("_cleanup_nodes")
READY_OVERRIDES["TestNode.bridged_form"] = bridged_form
BF_STUB = {"TestNode.bridged_form": (bridged_form_fn, "TestNode", STR, "property")}


def elig(n):
    return f"(len({n}.objects) == 0 or worker.id in {n}.params['name'])"


def _ready(name, edges, register, props):
    keys = f"keys_of(self.{edges})"
    dropped = f"self.{register}.get_workers"
    return Contract(
        target=f"{NODE}::TestNode.{name}",
        params={"self": Ref("TestNode"), "worker": Ref("TestWorker")},
        requires=[f"wf_map(self.{edges})", f"forall({keys}, lambda n: n is not None and 'name' in n.params)",
                  f"self.{register} is not None"],
        overrides=READY_OVERRIDES,
        stubs=BF_STUB,
        loops={0: {"invariants": [
            f"forall(range(0, _i), lambda j: implies({elig(keys + '[j]')}, worker.id in {dropped}({keys}[j])))"]}},
        ensures=[
            ("exact", f"result == forall({keys}, lambda n: implies({elig('n')}, worker.id in {dropped}(n)))"),
            ("ignores_foreign", f"implies(forall({keys}, lambda n: not {elig('n')}), result)"),
        ],
        result_kind=BOOL,
        frame=[],
        props=props,
    )


IS_SETUP_READY = _ready("is_setup_ready", "_setup_nodes", "_dropped_setup_nodes", ["C01", "C02", "C08"])
IS_CLEANUP_READY = _ready("is_cleanup_ready", "_cleanup_nodes", "_dropped_cleanup_nodes", ["C02", "C05", "C08"])


# ---------------------------------------------------------------- default_clean_decision (C05, C08)
def rev(o):
    p = f"{o}.object_typed_params(self.params)"
    return (f"(({p}.get('unset_mode_images', {p}['unset_mode'])[0] == 'f') or "
            f"({p}.get('unset_mode_vms', {p}['unset_mode'])[0] == 'f'))")


def valid_modes(o):
    p = f"{o}.object_typed_params(self.params)"
    return (f"('unset_mode' in {p} and len({p}['unset_mode']) > 0 and "
            f"('unset_mode_images' not in {p} or len({p}['unset_mode_images']) > 0) and "
            f"('unset_mode_vms' not in {p} or len({p}['unset_mode_vms']) > 0))")


def wf_ready(n):
    return (f"({n} is not None and wf_map({n}._cleanup_nodes) and {n}._dropped_cleanup_nodes is not None and "
            f"forall(keys_of({n}._cleanup_nodes), lambda c: c is not None and 'name' in c.params) and "
            f"forall({n}.results, lambda r: r is not None) and 'name' in {n}.params)")


CLEAN_OVERRIDES = dict(READY_OVERRIDES)
CLEAN_OVERRIDES["TestNode.is_cleanup_ready"] = by_contract(IS_CLEANUP_READY)

RELEVANT = "(worker.swarm_id == 'localhost' or worker.swarm_id in pw.id)"
OWN_PW = f"(({FLAT}) or pw.id in self.params['name'])"


def node_ok(n):
    return f"({n}.is_cleanup_ready(pw) and not exists({n}.results, lambda r: r['status'].lower() == 'unknown'))"


B = "self._bridged_nodes"
PW_OK = (f"(({node_ok('self')}) if {OWN_PW} else "
         f"forall(range(0, len({B})), lambda j: implies(pw.id in {B}[j].params['name'], {node_ok(B + '[j]')})))")
# class invariant used by the clean decision: a worker has at most one copy among the bridged nodes
ONE_COPY = (f"forall(self.shared_involved_workers, lambda pw: forall([INT, INT], lambda j, k: implies("
            f"0 <= j and j < k and k < len({B}) and pw.id in {B}[j].params['name'], pw.id not in {B}[k].params['name'])))")
HAS_COPY = f"({OWN_PW} or exists(range(0, len({B})), lambda j: pw.id in {B}[j].params['name']))"
REVERSIBLE = f"exists(self.objects, lambda o: {rev('o')})"

DEFAULT_CLEAN = Contract(
    target=f"{NODE}::TestNode.default_clean_decision",
    params={"self": Ref("TestNode"), "worker": Ref("TestWorker")},
    requires=WF_NODE + [WF_OBJECTS] + VALID_PARAMS + [
        f"forall(self.objects, lambda o: {valid_modes('o')})",
        wf_ready("self"), f"forall({B}, lambda b: {wf_ready('b')})",
        "forall(self.shared_involved_workers, lambda w: w is not None)", ONE_COPY,
    ],
    overrides=CLEAN_OVERRIDES,
    stubs=BF_STUB,
    raises={
        "RuntimeError": f"not {EARLY} and not ({OWN})",
        "ValueError": None,      # an involved worker of the swarm filter without a bridged copy of the node
        "KeyError": None, "ParamNotFound": None,   # from is_finished(worker, -1) on unknown swarms / missing pool_scope
    },
    loops={
        0: {"invariants": [f"forall(range(0, _i), lambda j: not {rev('self.objects[j]')})"],
            "kinds": {"is_reversible": BOOL, "object_params": Ref("Params")}},
        1: {"invariants": [f"forall(_seen, lambda pw: implies({RELEVANT}, {PW_OK}))"],
            "kinds": {"picked_node": Ref("TestNode"), "test_statuses": Seq(STR), "node": Ref("TestNode")}},
        2: {"invariants": [f"forall(range(0, _i), lambda k: picked_worker.id not in {B}[k].params['name'])"],
            "kinds": {"picked_node": Ref("TestNode")}},
    },
    ensures=[
        ("early_false", f"implies({EARLY}, result == False)"),
        ("irreversible_true", f"implies(not {EARLY} and not {REVERSIBLE}, result == True)"),
        ("guard", f"implies(not {EARLY} and {REVERSIBLE} and result, "
                  f"forall(self.shared_involved_workers, lambda pw: implies({RELEVANT}, {PW_OK})) and "
                  f"self.is_finished(worker, -1))"),
    ],
    result_kind=BOOL,
    frame=[],
    props=["C05", "C08", "C02"],      # C02: in a dry run the clean decision is False (early_false): no state is changed
)
