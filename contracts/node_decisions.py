"""Contracts of the TestNode decision functions (C03, C04, C05, C08, C10)."""
import z3
from pyvc.kinds import V, STR, INT, BOOL, Ref, Seq, SetK, Map, NULL, RefSort
from pyvc.contract import Contract, contract_handler
from contracts.node_getters import (NODE, W, WF_NODE, WF_BRIDGED, GETTER_OVERRIDES, IS_STARTED, IS_FINISHED, FLAT,
                                    SELF_SCOPE, SWARM_SCOPE, by_contract)

DECISION_OVERRIDES = dict(GETTER_OVERRIDES)
DECISION_OVERRIDES["TestNode.is_started"] = by_contract(IS_STARTED)
DECISION_OVERRIDES["TestNode.is_finished"] = by_contract(IS_FINISHED)

MCT = ("max(self.params.get_numeric('max_concurrent_tries', self.params.get_numeric('max_tries', 1)), 1)")

IS_OCCUPIED = Contract(
    target=f"{NODE}::TestNode.is_occupied",
    params={"self": Ref("TestNode"), "worker": (Ref("TestWorker"), "nullable")},
    requires=WF_NODE,
    overrides=DECISION_OVERRIDES,
    raises={
        "ValueError": "('max_tries' in self.params and not str_is_int(self.params['max_tries'])) or "
                      "('max_concurrent_tries' in self.params and not str_is_int(self.params['max_concurrent_tries']))",
        "ParamNotFound": f"not ({FLAT}) and worker is not None and 'pool_scope' not in self.params",
    },
    raises_only_if=True,
    ensures=[
        ("exact", f"result == self.is_started(worker, {MCT})"),
        ("flat_never", f"implies({FLAT}, result == False)"),
        ("global_threshold", f"implies(not ({FLAT}) and not {SELF_SCOPE} and not {SWARM_SCOPE}, "
                             f"result == (len(self.shared_started_workers) >= {MCT}))"),
        ("self_threshold", f"implies(not ({FLAT}) and {SELF_SCOPE}, result == (worker in self.shared_started_workers))"),
    ],
    result_kind=BOOL,
    frame=[],
    props=["C04"],
)
