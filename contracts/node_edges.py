"""Contracts of edge bookkeeping: pick / drop / descend / bridge / clone (C02, C06, C08, C09, C16)."""
import z3
from pyvc.kinds import V, STR, INT, BOOL, Ref, Seq, SetK, Map, NULL, RefSort, VNone, fresh, fresh_name, safe_forall
from pyvc.contract import Contract, contract_handler
import pyvc.contract as _C
from contracts.node_getters import NODE, by_contract, get_workers_by_contract
from contracts.node_decisions import READY_OVERRIDES, readonly_view, BF_STUB, elig
from contracts.c16 import bridged_form, bridged_form_fn

REGISTER = [c for c in _C.REGISTRY if c.name == "EdgeRegister.register"][0]

EDGE_OVERRIDES = dict(READY_OVERRIDES)
EDGE_OVERRIDES["EdgeRegister.register"] = by_contract(REGISTER)

TN = 'Ref("TestNode")'
COUNT = "{reg}._registry.get(f, {{}}).get(w, 0)"


def count(reg):
    return COUNT.format(reg=reg)


# ---------------------------------------------------------------- drop_parent / drop_child
def _drop(name, edges, register, props):
    return Contract(
        target=f"{NODE}::TestNode.{name}",
        params={"self": Ref("TestNode"), "test_node": Ref("TestNode"), "worker": Ref("TestWorker")},
        requires=[f"self.{register} is not None"],
        overrides=EDGE_OVERRIDES,
        stubs=BF_STUB,
        raises={"ValueError": f"test_node not in self.{edges}"},
        ensures=[
            ("registered", f"forall([STR, STR], lambda f, w: ({count('self.' + register)}) == old({count('self.' + register)}) + "
                           f"(1 if f == test_node.bridged_form and w == worker.id else 0))"),
            ("edges_unchanged", f"self.{edges} == old(self.{edges})"),
        ],
        frame=["EdgeRegister._registry"],
        props=props,
    )


DROP_PARENT = _drop("drop_parent", "_setup_nodes", "_dropped_setup_nodes", ["C02", "C01", "C16"])
DROP_CHILD = _drop("drop_child", "_cleanup_nodes", "_dropped_cleanup_nodes", ["C02", "C05", "C16"])

# ---------------------------------------------------------------- descend_from_node (C06)
OBJSET = 'SetOf(Ref("TestObject"))'
DESCEND = Contract(
    target=f"{NODE}::TestNode.descend_from_node",
    params={"self": Ref("TestNode"), "test_node": Ref("TestNode"), "test_object": Ref("TestObject")},
    requires=["wf_map(self._setup_nodes)", "wf_map(test_node._cleanup_nodes)"],
    ensures=[
        ("child_side", "test_node in self._setup_nodes and test_object in self._setup_nodes[test_node]"),
        ("parent_side", "self in test_node._cleanup_nodes and test_object in test_node._cleanup_nodes[self]"),
        ("symmetric_objects", "implies(old(test_node in self._setup_nodes and self in test_node._cleanup_nodes and "
                              "self._setup_nodes[test_node] == test_node._cleanup_nodes[self]), "
                              "forall(Ref('TestObject'), lambda o: (o in self._setup_nodes[test_node]) == "
                              "(o in test_node._cleanup_nodes[self])))"),
        ("other_parents_kept", f"forall({TN}, lambda n: implies(n != test_node, (n in self._setup_nodes) == old(n in self._setup_nodes)))"),
        ("other_children_kept", f"forall({TN}, lambda n: implies(n != self, (n in test_node._cleanup_nodes) == "
                                f"old(n in test_node._cleanup_nodes)))"),
        ("objects_only_added", "forall(Ref('TestObject'), lambda o: implies(old(test_node in self._setup_nodes and "
                               "o in self._setup_nodes[test_node]), o in self._setup_nodes[test_node]))"),
    ],
    frame=["TestNode._setup_nodes", "TestNode._cleanup_nodes"],
    props=["C06"],
)

# ---------------------------------------------------------------- clone_as_source
CLONE_AS_SOURCE = Contract(
    target=f"{NODE}::TestNode.clone_as_source",
    params={"self": Ref("TestNode"), "test_nodes": Seq(Ref("TestNode"))},
    ensures=[
        ("prefix_marked", "self.prefix == '0' + old(self.prefix)"),
        ("clones_recorded", "self._cloned_nodes == test_nodes"),
    ],
    frame=["TestNode.prefix", "TestNode._cloned_nodes"],
    props=["C06", "C03"],
)


# ---------------------------------------------------------------- bridge_with_node (C09, C16)
re_search_fn = z3.Function("re_search", z3.StringSort(), z3.StringSort(), z3.BoolSort())


def re_search(eng, st, recv, args, kw, node):
    """re.search(pattern, string) as a truth value: uninterpreted predicate of (pattern, string)."""
    if not all(isinstance(a, V) for a in args[:2]):
        eng.raise_exc(st, "TypeError", node)      # re.search(pattern, None)
        return
    yield st, V(BOOL, re_search_fn(args[0].term, args[1].term))


REGS = ["_picked_by_setup_nodes", "_dropped_setup_nodes", "_picked_by_cleanup_nodes", "_dropped_cleanup_nodes"]
BRIDGE_OVERRIDES = dict(EDGE_OVERRIDES)
BRIDGE_OVERRIDES["re.search"] = re_search
MATCHES = "re_search(test_node.bridged_form, self.params['name'])"

BRIDGE = Contract(
    target=f"{NODE}::TestNode.bridge_with_node",
    params={"self": Ref("TestNode"), "test_node": Ref("TestNode")},
    requires=["'name' in self.params", "'shortname' in self.params", "'shortname' in test_node.params",
              # class invariant maintained by this function: bridging is symmetric
              "(test_node in self._bridged_nodes) == (self in test_node._bridged_nodes)"],
    overrides=BRIDGE_OVERRIDES,
    extra_names={"re_search": _C.VFunc("handler", fn=lambda e, s, a, k, n: re_search(e, s, None, a, k, n), name="re_search")},
    stubs=BF_STUB,
    raises={"ValueError": f"test_node != self and not {MATCHES}"},
    ensures=[
        ("self_noop", "implies(test_node == self, self._bridged_nodes == old(self._bridged_nodes))"),
        ("symmetric", "implies(test_node != self, test_node in self._bridged_nodes and self in test_node._bridged_nodes)"),
        ("only_added_here", f"forall({TN}, lambda n: (n in self._bridged_nodes) == (old(n in self._bridged_nodes) or "
                            "(n == test_node and test_node != self)))"),
        ("only_added_there", f"implies(test_node != self, forall({TN}, lambda n: (n in test_node._bridged_nodes) == "
                             "(old(n in test_node._bridged_nodes) or n == self)))"),
        ("no_duplicate", "implies(old(test_node in self._bridged_nodes), self._bridged_nodes == old(self._bridged_nodes) "
                         "and test_node._bridged_nodes == old(test_node._bridged_nodes))"),
        ("shares_registers", "implies(test_node != self and not old(test_node in self._bridged_nodes), " + " and ".join(
            f"self.{r} == test_node.{r}" for r in REGS) + ")"),
        ("adopts_theirs", " and ".join(f"test_node.{r} == old(test_node.{r})" for r in REGS)),
        ("third_parties_untouched", f"forall({TN}, lambda n: implies(n != self and n != test_node, "
                                    "n._bridged_nodes == old(n._bridged_nodes) and "
                                    + " and ".join(f"n.{r} == old(n.{r})" for r in REGS) + "))"),
    ],
    frame=["TestNode._bridged_nodes"] + [f"TestNode.{r}" for r in REGS],
    props=["C09", "C16"],
    assumes=["re.search(pattern, string) is an uninterpreted predicate of its two arguments"],
)


# ---------------------------------------------------------------- pick_parent / pick_child (C02, C08)
def sorted_permutation(eng, st, args, kw, node):
    """sorted(seq, key=...) as an arbitrary permutation of its argument: same length, same members.

    The order in which available nodes are tried is no part of any property; key functions are not evaluated."""
    a = eng.to_smt(args[0], st)
    K = a.kind
    r = fresh(K, "sorted")
    x = z3.Const(fresh_name("px"), K.elem.sort())
    st.assume(K.len(r.term) == K.len(a.term))
    st.assume(safe_forall([x], K.contains(r.term, x) == K.contains(a.term, x), patterns=[K.contains(r.term, x)]))
    st.assume(safe_forall([x], K.contains(r.term, x) == K.contains(a.term, x), patterns=[K.contains(a.term, x)]))
    yield st, r


SORTED = _C.VFunc("handler", fn=sorted_permutation, name="sorted")
CMP_TO_KEY = _C.VFunc("handler", fn=lambda e, s, a, k, n: iter([(s, a[0])]), name="cmp_to_key")


def _pick(name, edges, dropped, picked, props):
    keys = f"keys_of(self.{edges})"
    avail = f"(n in self.{edges} and {elig('n')} and worker.id not in self.{dropped}.get_workers(n))"
    reg = f"result.{picked}"
    return Contract(
        target=f"{NODE}::TestNode.{name}",
        params={"self": Ref("TestNode"), "worker": Ref("TestWorker")},
        requires=[f"wf_map(self.{edges})", f"forall({keys}, lambda n: n is not None and 'name' in n.params and "
                  f"n.{picked} is not None)", f"self.{dropped} is not None"],
        overrides=EDGE_OVERRIDES,
        extra_names={"sorted": SORTED, "cmp_to_key": CMP_TO_KEY},
        stubs=BF_STUB,
        raises={"RuntimeError": f"not exists({TN}, lambda n: {avail})"},
        ensures=[
            ("picks_available", f"let(result, lambda n: old({avail}))"),
            ("registered", f"forall([STR, STR], lambda f, w: ({count(reg)}) == old({count(reg)}) + "
                           f"(1 if f == self.bridged_form and w == worker.id else 0))"),
            ("edges_unchanged", f"self.{edges} == old(self.{edges})"),
        ],
        result_kind=Ref("TestNode"),
        frame=["EdgeRegister._registry"],
        props=props,
        assumes=["sorted() is an arbitrary permutation (pick priorities are not verified)"],
    )


PICK_PARENT = _pick("pick_parent", "_setup_nodes", "_dropped_setup_nodes", "_picked_by_cleanup_nodes", ["C02", "C08"])
PICK_CHILD = _pick("pick_child", "_cleanup_nodes", "_dropped_cleanup_nodes", "_picked_by_setup_nodes", ["C02", "C08"])


# ---------------------------------------------------------------- get_dependency (C06, C01): the already parsed producer
SAME_OBJECT = ("(test_object in n.objects or exists(n.objects, lambda t: t.long_suffix == test_object.long_suffix))")
PROVIDES = (f"({SAME_OBJECT} and (re_search('(\\\\.|^)' + restriction + '(\\\\.|$)', n.params['name']) or "
            f"restriction == test_object.object_typed_params(n.params).get('set_state')))")
GET_DEPENDENCY = Contract(
    target=f"{NODE}::TestNode.get_dependency",
    params={"self": Ref("TestNode"), "restriction": STR, "test_object": Ref("TestObject")},
    requires=["wf_map(self._setup_nodes)",
              "forall(keys_of(self._setup_nodes), lambda n: n is not None and forall(n.objects, lambda t: t is not None) "
              "and 'name' in n.params)",
              # the object is well formed (object_typed_params walks its composites)
              "forall(test_object.composites, lambda c: c is not None)"],
    overrides=BRIDGE_OVERRIDES,
    extra_names={"re_search": _C.VFunc("handler", fn=lambda e, s, a, k, n: re_search(e, s, None, a, k, n), name="re_search")},
    loops={0: {"invariants": [f"forall(range(0, _i), lambda j: let(keys_of(self._setup_nodes)[j], lambda n: not {PROVIDES}))"],
               "kinds": {"test_node": Ref("TestNode"), "node_object_suffices": Seq(STR), "setup_object_params": Ref("Params")}}},
    ensures=[
        ("found_is_a_parent_for_this_object", f"((result in self._setup_nodes and let(result, lambda n: {PROVIDES})) "
                                              f"if result is not None else True)"),
        ("none_only_if_no_parent_provides", f"implies(result is None, forall(keys_of(self._setup_nodes), lambda n: not {PROVIDES}))"),
    ],
    result_kind=(Ref("TestNode"), "nullable"),
    frame=[], props=["C06", "C01"],
    assumes=["re.search as an uninterpreted predicate of (pattern, string)"],
)


# ---------------------------------------------------------------- update_restrs (C11): restrictions reach the node once
import ast as _ast                                                                          # noqa: E402


def _update_restrs_body(fn):
    loops = [n for n in fn.body if isinstance(n, _ast.For)]
    return loops[0].body if len(loops) == 1 else []


OLD_R = "old(self.restrs.get(suffix, ''))"
PRESENT = f"(restriction.rstrip() in {OLD_R}.splitlines())"
UPDATE_RESTRS_STEP = Contract(
    target=f"{NODE}::TestNode.update_restrs", name="TestNode.update_restrs#suffix_step",
    block=("suffix_step", _update_restrs_body),
    params={"self": Ref("TestNode"), "suffix": STR, "restriction": STR},
    requires=["wf_map(self.restrs)"],
    ensures=[
        ("restriction_line_appended_unless_present", f"self.restrs[suffix] == ite(restriction != '' and not {PRESENT}, "
                                                     f"{OLD_R} + restriction, {OLD_R})"),
        ("other_suffixes_untouched", "forall(STR, lambda s: implies(s != suffix, (s in self.restrs) == old(s in self.restrs) and "
                                     "implies(s in self.restrs, self.restrs[s] == old(self.restrs[s]))))"),
    ],
    frame=["TestNode.restrs"], props=["C11", "C08", "C09"],
    assumes=["extracted block: body of the loop over the given restrictions; str.splitlines / rstrip uninterpreted"],
)


# ---------------------------------------------------------------- parse_node_from_object (C11): command line K=V parsed last
GRAPHF = "avocado_i2n/cartgraph/graph.py"


def _parse_step_block(fn):
    out, on = [], False
    for s in fn.body:
        if isinstance(s, _ast.Assign) and _ast.unparse(s.targets[0]) == "setup_dict":
            on = True
        if on:
            out.append(s)
        if on and isinstance(s, _ast.Expr) and "parse_next_batch" in _ast.unparse(s):
            break
    return out


def _recipe_copy(eng, st, recv, args, kw, node):
    yield st, _C.VModule("recipe")


_schema_mod = __import__("contracts.schema", fromlist=["SCHEMA"])
_schema_mod.SCHEMA["TestObject"]["fields"].setdefault("recipe", Ref("Reparsable"))
_schema_mod.SCHEMA.setdefault("Reparsable", {"fields": {}, "methods": {"get_copy": _recipe_copy}})
from pyvc.contract import seam_handler as _seam                                           # noqa: E402
from pyvc.kinds import NONE as _NONE                                                       # noqa: E402

PARSE_NODE_STEP = Contract(
    target=f"{GRAPHF}::TestGraph.parse_node_from_object", name="TestGraph.parse_node_from_object#parse_step",
    block=("parse_step", _parse_step_block),
    params={"test_object": Ref("TestObject"), "restriction": STR, "params": Ref("Params")},
    requires=["test_object.recipe is not None"],
    overrides={"recipe.parse_next_batch": _seam("parse_step", None), "param.tests_ovrwrt_file": _seam("ovrwrt_file", STR)},
    extra_names={"param": _C.VModule("param")},
    outputs={"setup_dict": Ref("Params")},
    ensures=[
        # the runtime (command line) parameters are the LAST parsing step of every composite test: they override the
        # configuration files and the user's overwrite file
        ("runtime_parameters_parsed_last", "ghost('parse_step.calls') == old(ghost('parse_step.calls')) + 1 and "
                                           "ghost('parse_step.kwnames', SeqOf(STR)) == ['base_file', 'ovrwrt_dict', 'ovrwrt_file', 'ovrwrt_str'] and "
                                           "ghost('parse_step.kw.ovrwrt_dict', Ref('Params')) == setup_dict and "
                                           "ghost('parse_step.kw.ovrwrt_str', STR) == restriction and "
                                           "ghost('parse_step.kw.base_file', STR) == 'sets.cfg'"),
        ("runtime_parameters_passed_on", "setup_dict['nets'] == test_object.suffix and forall(STR, lambda k: implies(k != 'nets' and k in params, "
                                         "k in setup_dict and setup_dict[k] == params[k]))"),
        ("callers_parameters_untouched", "forall(STR, lambda k: (k in params) == old(k in params) and implies(k in params, params[k] == old(params[k])))"),
    ],
    frame=["Params.p_has", "Params.p_val"], props=["C11"],
    assumes=["extracted block: the statements of parse_node_from_object that configure the parser of the new node; "
             "Reparsable.parse_next_batch is a seam (its step order base -> overwrite file -> string -> dict is its own contract)"],
)
