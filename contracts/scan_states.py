"""C01 / C03 (scan verdict): the part of TestNode.scan_states (avocado_i2n/cartgraph/node.py) after the loop over the
objects: the request through the door and the interpretation of its answer.  The statements are extracted mechanically
from the real source on every run (everything from the `if not is_leaf:` statement to the return).  What the extraction
drops: the loop that builds the request parameters per object (bounded stand-in sync_scan_pull B1, B4).
The door is a seam: run_subcontrol returns or raises ShellCmdError with an arbitrary output text."""
import ast
import z3
from pyvc.kinds import V, STR, INT, BOOL, Ref, Seq, NONE, VModule, VFunc, const, fresh
from pyvc.contract import Contract, seam_handler

NODE = "avocado_i2n/cartgraph/node.py"


def verdict_block(fn):
    out, on = [], False
    for s in fn.body:
        if isinstance(s, ast.If) and ast.unparse(s.test) == "not is_leaf":
            on = True
        if on:
            out.append(s)
    return out


def run_subcontrol(eng, st, recv, args, kw, node):
    n = st.ghost.get("door.calls") or V(INT, z3.Const("door.calls0", z3.IntSort()))
    st.ghost["door.calls"] = V(INT, n.term + 1)
    fails = fresh(BOOL, "door.fails")
    st.ghost["door.failed"] = fails
    for st1, f in eng.fork(st, fails.term, "door.fails"):
        if f:
            out = fresh(STR, "door.output")
            st1.ghost["door.output"] = out
            eng.raise_exc(st1, "ShellCmdError", node, [out])
        else:
            yield st1, NONE


OVERRIDES = {
    "door.set_subcontrol_parameter": seam_handler("door_param", STR),
    "door.set_subcontrol_parameter_dict": seam_handler("door_dict", STR),
    "door.run_subcontrol": run_subcontrol,
    "TestWorker.get_session": seam_handler("session", STR),
    "os.path.join": seam_handler("join", STR),
}
CALLS = "ghost('door.calls')"
VERDICT = Contract(
    target=f"{NODE}::TestNode.scan_states", name="TestNode.scan_states#verdict", block=("verdict", verdict_block),
    params={"self": Ref("TestNode"), "is_leaf": BOOL, "should_run": BOOL, "node_params": Ref("Params")},
    requires=["self.started_worker is not None"],
    overrides=OVERRIDES,
    raises={"RuntimeError": None, "ParamNotFound": "not is_leaf and 'suite_path' not in self.params"},
    ensures=[
        ("leaf_asks_nothing", f"implies(is_leaf, result == old(should_run) and {CALLS} == old({CALLS}))"),
        ("one_request_for_stateful_tests", f"implies(not is_leaf, {CALLS} == old({CALLS}) + 1)"),
        ("all_states_present_means_skip", "implies(not is_leaf and not ghost('door.failed'), result == False)"),
        ("missing_state_means_run", "implies(not is_leaf and ghost('door.failed'), result == True and "
                                    "'AssertionError' in ghost('door.output', STR))"),
    ],
    exc_ensures=[("other_door_errors_are_not_a_verdict", "implies(exc == 'RuntimeError', not is_leaf and ghost('door.failed') and "
                                                         "'AssertionError' not in ghost('door.output', STR))")],
    result_kind=BOOL, frame=[], props=["C01", "C03"],
    assumes=["extracted block: the statements of scan_states after the loop over the objects; the door is a seam"],
)


# ---------------------------------------------------------------- the per-object step of the scan request
def object_loop(fn):
    loops = [n for n in fn.body if isinstance(n, ast.For) and isinstance(n.target, ast.Name) and n.target.id == "test_object"]
    return loops[0].body if len(loops) == 1 else []


OP = "test_object.object_typed_params(self.params)"
STATE = f"old({OP}.get('set_state', ''))"
SUFFIX = "('_' + old(test_object.key) + '_' + old(test_object.long_suffix))"
KEPT = ("forall(STR, lambda k: (k in node_params) == old(k in node_params) and "
        "implies(k in node_params, node_params[k] == old(node_params[k])))")
OBJECT_STEP = Contract(
    target=f"{NODE}::TestNode.scan_states", name="TestNode.scan_states#object_step", block=("object_step", object_loop),
    params={"self": Ref("TestNode"), "test_object": Ref("TestObject"), "node_params": Ref("Params"),
            "is_leaf": BOOL, "should_run": BOOL},
    requires=["node_params != self.params"],
    raises={"ParamNotFound": None, "ValueError": None},
    ensures=[
        ("stateless_object_ignored", f"implies(len({STATE}) == 0, flow == 'continue' and {KEPT} and is_leaf == old(is_leaf) and "
                                     f"should_run == old(should_run))"),
        ("permanent_install_is_given", f"implies({STATE} == 'install' and old(test_object.is_permanent()), flow == 'break' and "
                                       f"should_run == False and {KEPT})"),
        ("state_is_checked_where_it_is_shared", f"implies(flow == 'normal', is_leaf == False and len({STATE}) > 0 and "
                                                f"node_params['check_state' + {SUFFIX}] == {STATE} and "
                                                f"node_params['show_location' + {SUFFIX}] == ':' + old({OP}['shared_pool']) and "
                                                f"node_params['check_mode' + {SUFFIX}] == old({OP}.get('check_mode', 'rf')))"),
        ("verdict_not_decided_here", "implies(flow == 'normal', should_run == old(should_run))"),
        ("node_params_of_the_test_untouched", "forall(STR, lambda k: (k in self.params) == old(k in self.params) and "
                                              "implies(k in self.params, self.params[k] == old(self.params[k])))"),
    ],
    frame=["Params.p_has", "Params.p_val"], props=["C01", "C03"],
    assumes=["extracted block: body of the loop over the node's objects"],
)
