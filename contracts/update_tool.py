"""C15: two statement blocks of the per-worker loop of update() (avocado_i2n/intertest_setup.py), extracted mechanically
from the real source on every run:

* `setup_dict`: the parameters the clean / run graphs of one worker are parsed with: the state modes are forced
  (get_mode=ra, set_mode=ff, unset_mode=fi) whatever the command line says, the vm and the worker are the current ones;
* `clean_graph_parse`: a worker that cannot host the vm variant (EmptyCartesianProduct) is skipped - the loop goes on
  with the next worker ("removes from every worker ...").
What the extraction drops: the rest of update() (bounded stand-in update_tool)."""
import ast
import z3
from pyvc.kinds import V, STR, INT, BOOL, Ref, Seq, Map, NONE, VModule, VFunc, const, fresh
from pyvc.contract import Contract, seam_handler

INTERTEST = "avocado_i2n/intertest_setup.py"


def worker_loop(fn):
    for n in ast.walk(fn):
        if isinstance(n, ast.For) and isinstance(n.target, ast.Name) and n.target.id == "worker":
            return n
    return None


def setup_dict_block(fn):
    lp = worker_loop(fn)
    if lp is None:
        return []
    out = []
    for s in lp.body:
        text = ast.unparse(s)
        if text.startswith("setup_dict") or text.startswith("setup_dict."):
            out.append(s)
        elif out:
            break
    return out


def clean_parse_block(fn):
    lp = worker_loop(fn)
    if lp is None:
        return []
    tries = [s for s in lp.body if isinstance(s, ast.Try) and "clean_graph = l.parse_object_trees" in ast.unparse(s)]
    return tries[:1]


PD = "config['param_dict']"
SETUP_DICT = Contract(
    target=f"{INTERTEST}::update", name="update#setup_dict", block=("setup_dict", setup_dict_block),
    params={"config": Map(STR, Ref("Params")), "vm_name": STR, "worker": Ref("TestWorker")},
    requires=[f"'param_dict' in config and {PD} is not None"],
    outputs={"setup_dict": Ref("Params")},
    ensures=[
        # present states are overwritten, recreated states are not removed, anything else aborts - whatever the user passes
        ("state_modes_are_forced", "setup_dict['get_mode'] == 'ra' and setup_dict['set_mode'] == 'ff' and setup_dict['unset_mode'] == 'fi'"),
        ("current_vm_and_worker", "setup_dict['main_vm'] == vm_name and setup_dict['vms'] == vm_name and setup_dict['nets'] == worker.id "
                                  "and setup_dict['create_permanent_vm'] == 'yes'"),
        ("other_parameters_passed_on", f"forall(STR, lambda k: implies(k not in ['get_mode', 'set_mode', 'unset_mode', 'main_vm', 'vms', "
                                       f"'nets', 'create_permanent_vm'] and k in {PD}, k in setup_dict and setup_dict[k] == {PD}[k]))"),
        ("shared_parameters_untouched", f"forall(STR, lambda k: (k in {PD}) == old(k in {PD}) and implies(k in {PD}, {PD}[k] == old({PD}[k])))"),
    ],
    frame=["Params.p_has", "Params.p_val"], props=["C15"],
    assumes=["extracted block: the statements of update() that build the per-worker parsing parameters"],
)


def parse_object_trees(eng, st, recv, args, kw, node):
    n = st.ghost.get("parse.calls") or V(INT, z3.Const("parse.calls0", z3.IntSort()))
    st.ghost["parse.calls"] = V(INT, n.term + 1)
    empty = fresh(BOOL, "parse.empty_product")
    st.ghost["parse.empty"] = empty
    for st1, e in eng.fork(st, empty.term, "parse.empty_product"):
        if e:
            eng.raise_exc(st1, "EmptyCartesianProduct", node)
        else:
            yield st1, fresh(Ref("TestGraph"), "clean_graph")


CLEAN_PARSE = Contract(
    target=f"{INTERTEST}::update", name="update#clean_graph_parse", block=("clean_graph_parse", clean_parse_block),
    params={"worker": Ref("TestWorker"), "setup_str": STR, "tag": STR, "i": INT, "config": Map(STR, Ref("Params")),
            "setup_dict": Ref("Params")},
    overrides={"l.parse_object_trees": parse_object_trees},
    extra_names={"l": VModule("l"), "param": VModule("param")},
    outputs={"clean_graph": Ref("TestGraph")},
    raises={"KeyError": None},
    ensures=[
        ("incompatible_worker_is_skipped_not_the_rest", "implies(ghost('parse.empty'), flow == 'continue')"),
        ("compatible_worker_goes_on", "implies(not ghost('parse.empty'), flow == 'normal')"),
        ("one_parse_per_worker", "ghost('parse.calls') == old(ghost('parse.calls')) + 1"),
    ],
    frame=[], props=["C15"],
    assumes=["extracted block: the try statement around the clean graph parse; the loader is a seam"],
)


# ---------------------------------------------------------------- bridging of the per-worker subgraphs (C04, C09)
from contracts.c16 import bridged_form, bridged_form_fn                                  # noqa: E402
from contracts.node_edges import BRIDGE                                                  # noqa: E402
from pyvc.contract import traced, contract_handler                                       # noqa: E402


def bridging_pair_block(fn):
    loops = [n for n in ast.walk(fn) if isinstance(n, ast.For) and isinstance(n.target, ast.Name) and n.target.id == "node2"]
    return loops[0].body if len(loops) == 1 else []


SAME_TEST = "(node1 != node2 and node1.bridged_form == node2.bridged_form)"
BRIDGING_PAIR = Contract(
    target=f"{INTERTEST}::update", name="update#bridging_pair", block=("bridging_pair", bridging_pair_block),
    params={"node1": Ref("TestNode"), "node2": Ref("TestNode")},
    requires=["'name' in node1.params and 'name' in node2.params"],
    overrides={"TestNode.bridged_form": bridged_form, "TestNode.bridge_with_node": seam_handler("bridge", None)},
    stubs={"TestNode.bridged_form": (bridged_form_fn, "TestNode", STR, "property")},
    raises={"ValueError": f"{SAME_TEST} and (node1.prefix + '-' + node1.params['name']) == (node2.prefix + '-' + node2.params['name'])"},
    ensures=[
        # every pair of equivalent nodes of different workers gets bridged: the scan never stops early
        ("scan_continues_over_all_nodes", "flow != 'break' and flow != 'return'"),
        ("equivalent_pair_is_bridged", f"ite({SAME_TEST}, ghost('bridge.calls') == old(ghost('bridge.calls')) + 1 and "
                                       f"ghost('bridge.arg0', Ref('TestNode')) == node1 and ghost('bridge.arg1', Ref('TestNode')) == node2, "
                                       f"ghost('bridge.calls') == old(ghost('bridge.calls')))"),
    ],
    frame=[], props=["C04", "C09", "C15"],
    assumes=["extracted block: body of the inner loop that bridges the nodes of the per-worker subgraphs in update()"],
)
