"""C18 (allocation clause): VMNetconfig.get_allocatable_address hands out a free address of the DHCP range exactly
once and reports exhaustion when none is left (avocado_i2n/vmnet/netconfig.py).

ipaddress.IPv4Address is abstracted: an address value is its integer; `ip_int(text)` / `ip_str(int)` are uninterpreted
with the round trip ip_int(ip_str(n)) == n (valid 32-bit values) - the only fact the function relies on.  The
properties `net_ip` / `range` / `interfaces` of VMNetconfig read the private fields (as their getters do).
"""
import z3
from pyvc.kinds import V, STR, INT, BOOL, Ref, Seq, Map, NONE, VModule, VFunc, const, fresh, safe_forall
from pyvc.contract import Contract
import contracts.schema as _schema

NETCONFIG = "avocado_i2n/vmnet/netconfig.py"
IP_INT = z3.Function("ip_int", z3.StringSort(), z3.IntSort())
IP_STR = z3.Function("ip_str", z3.IntSort(), z3.StringSort())

_schema.SCHEMA["VMInterface"] = {"fields": {"ip": STR}}
_schema.SCHEMA["VMNetconfig"] = {
    "fields": {"_interfaces": Map(STR, Ref("VMInterface")), "_range": Map(INT, BOOL), "_net_ip": STR},
    "props": {
        "interfaces": lambda eng, st, o, node: iter([(st, eng.read_field(st, o, "VMNetconfig", "_interfaces", Map(STR, Ref("VMInterface"))))]),
        "range": lambda eng, st, o, node: iter([(st, eng.read_field(st, o, "VMNetconfig", "_range", Map(INT, BOOL)))]),
        "net_ip": lambda eng, st, o, node: iter([(st, eng.read_field(st, o, "VMNetconfig", "_net_ip", STR))]),
    },
    # `self.range[val] = True` updates the dictionary the read-only property returns: the private field
    "setters": {"range": lambda eng, st, o, v, node: _set_range(eng, st, o, v, node)},
}


def _set_range(eng, st, o, v, node):
    eng.write_field(st, o, "VMNetconfig", "_range", Map(INT, BOOL), v)
    yield st


class IPValue:
    """python-level marker: an IPv4Address whose integer value is `term`"""


def ipv4address(eng, st, recv, args, kw, node):
    a = args[0]
    if isinstance(a, V) and a.kind == STR:
        n = IP_INT(a.term)
    else:
        n = a.term
    # an address object is represented by its integer; str() of it goes through ip_str (see to_str hook below)
    yield st, V(INT, n)


def ip_to_str(eng, st, args, kw, node):
    """str(address) for the abstract address integers of this module; everything else as usual"""
    a = args[0]
    if isinstance(a, V) and a.kind == INT:
        st.assume(IP_INT(IP_STR(a.term)) == a.term)
        yield st, V(STR, IP_STR(a.term))
        return
    yield st, a


def spec_ip_str(eng, st, args, kw, node):
    yield st, V(STR, IP_STR(args[0].term))


def spec_ip_int(eng, st, args, kw, node):
    yield st, V(INT, IP_INT(args[0].term))


NAMES = {"str": VFunc("handler", fn=ip_to_str, name="str"),
         "ip_str": VFunc("handler", fn=spec_ip_str, name="ip_str"), "ip_int": VFunc("handler", fn=spec_ip_int, name="ip_int")}
FREE = "(v in self._range and self._range[v] == False and ip_str(ip_int(self._net_ip) + v) not in self._interfaces)"

ALLOCATE = Contract(
    target=f"{NETCONFIG}::VMNetconfig.get_allocatable_address",
    params={"self": Ref("VMNetconfig")},
    requires=["wf_map(self._range)", "wf_map(self._interfaces)"],
    overrides={"ipaddress.IPv4Address": ipv4address}, extra_names=NAMES,
    raises={"IndexError": f"not exists(INT, lambda v: {FREE})"},
    loops={0: {"invariants": [
        f"forall(range(0, _i), lambda j: not let(keys_of(self._range)[j], lambda v: {FREE}))",
        "self._range == old(self._range)"],
        "modifies": ["VMNetconfig._range"], "kinds": {"val": INT, "new_address": INT}}},
    ensures=[
        ("hands_out_a_free_address", f"exists(INT, lambda v: old({FREE}) and result == ip_str(ip_int(self._net_ip) + v) and "
                                     f"self._range[v] == True and "
                                     f"forall(INT, lambda u: implies(u != v, (u in self._range) == old(u in self._range) and "
                                     f"implies(u in self._range, self._range[u] == old(self._range[u])))))"),
        ("never_a_used_address", "result not in self._interfaces"),
        ("interfaces_untouched", "self._interfaces == old(self._interfaces)"),
    ],
    result_kind=STR, frame=["VMNetconfig._range"], props=["C18"],
    assumes=["ipaddress.IPv4Address abstracted by its integer value; ip_int(ip_str(n)) == n for the values used",
             "the sequence clause (every address once, then exhaustion) follows by induction over calls from this "
             "single-call contract: each call marks exactly one free entry, entries are never unmarked here"],
)


# ---------------------------------------------------------------- mask_bit getter: netmask -> prefix length
# 'netmask and prefix length convert into each other consistently' needs the getter to be a function of the *current*
# netmask: it must not keep state of its own.  The digit arithmetic (bin / zfill / rstrip) is uninterpreted here; the
# numeric exactness for all 33 prefixes is enumerated by the bounded stand-in.
_schema.SCHEMA["VMNetconfig"]["fields"]["_netmask"] = STR
_schema.SCHEMA["VMNetconfig"]["open_fields"] = True
_schema.SCHEMA["VMNetconfig"]["props"]["netmask"] = (
    lambda eng, st, o, node: iter([(st, eng.read_field(st, o, "VMNetconfig", "_netmask", STR))]))

MASK_BIT_GET = Contract(
    target=f"{NETCONFIG}::VMNetconfig.mask_bit", name="VMNetconfig.mask_bit[getter]",
    params={"self": Ref("VMNetconfig"), "value": NONE},
    requires=["self._netmask is not None"],
    loops={0: {"invariants": ["True"], "kinds": {"binary_str": STR, "octet": STR}}},
    raises={"ValueError": None},
    ensures=[("answers_from_the_netmask", "result is not None")],
    frame=[],      # a getter keeps no state: the answer always follows the current netmask
    props=["C18"],
    assumes=["string fields are non-None strings in the model (the `netmask is None` branch is not reachable here)",
             "bin / zfill / rstrip are uninterpreted: only the absence of side effects is decided here"],
)
