"""C12: the per-object step of the state operations (avocado_i2n/states/setup.py) against the documented policy table.

get_states / set_states / unset_states iterate over the stateful objects (generator _parametric_object_iteration) and
apply one decision step per object.  The step - the body of the `for state_params in ...` loop - is extracted
mechanically from the real source on every run (pyvc.source.extract_block) and verified against the policy table for
arbitrary parameters (all mode strings, all object types, all skip/readonly settings, both answers of the existence
check).  What the extraction drops: the iteration itself (which objects are visited: bounded stand-in setup_policy).

Seams: the existence check `_state_check_chain` (an oracle answering yes/no), the back end registry BACKENDS and the
back end operations (call log in ghost state), issubclass(backend, SourcedStateBackend) (arbitrary answer `sourced`).
"""
import ast
import z3
from pyvc.kinds import V, STR, INT, BOOL, Ref, Seq, NONE, VModule, VFunc, const, fresh
from pyvc.contract import Contract, seam_handler

SETUP = "avocado_i2n/states/setup.py"


def loop_body(fn):
    loops = [n for n in fn.body if isinstance(n, ast.For)]
    return loops[0].body if len(loops) == 1 else []


OPS = ["get", "get_root", "set", "set_root", "unset", "unset_root"]


def backend_registry(eng, st, recv, args, kw, node):
    b = fresh(BOOL, "backend.unknown")
    for st1, unknown in eng.fork(st, b.term, "BACKENDS.unknown"):
        if unknown:
            eng.raise_exc(st1, "KeyError", node)
        else:
            yield st1, VModule("backend")


def is_sourced(eng, st, args, kw, node):
    v = st.ghost.get("sourced")
    if v is None:
        v = V(BOOL, z3.Const("sourced", z3.BoolSort()))
        st.ghost["sourced"] = v
    yield st, v


OVERRIDES = {"BACKENDS.__getitem__": backend_registry,
             "_state_check_chain": seam_handler("exists", BOOL),
             "backend.check_root": seam_handler("check_root", BOOL),
             "backend.show": seam_handler("show", Seq(STR))}
for _op in OPS:
    OVERRIDES[f"backend.{_op}"] = seam_handler(_op, None)
NAMES = {"BACKENDS": VModule("BACKENDS"), "issubclass": VFunc("handler", fn=is_sourced, name="issubclass")}

P = "state_params"
TYPE = f"old({P}['object_type'])"


def skip(do):
    return (f"old({P}['object_type'] in {P}.objects('skip_types') or "
            f"({P}['object_type'] == 'nets/vms/images' and {P}.get_boolean('image_readonly', False)) or "
            f"not {P}.get('{do}_state'))")


def mode(do, default):
    return f"old({P}.get('{do}_mode', '{default}'))"


def request_kept(do, but=()):
    """the step does not rewrite the request it was given: the state, location and addressing parameters the back end
    reads stay as configured (other bookkeeping parameters may be added freely)"""
    keys = [k for k in (f"{do}_state", f"{do}_location", "object_name", "object_type", "states", "vms", "images", "nets")
            if k not in but]
    return " and ".join(f"(('{k}' in {P}) == old('{k}' in {P}) and implies('{k}' in {P}, {P}['{k}'] == old({P}['{k}'])))" for k in keys)


ROOTS = "['root', '0root', 'boot', '0boot']"
E = "ghost('exists.result')"
def calls(op): return f"ghost('{op}.calls')"                                   # noqa: E704
def same(op): return f"{calls(op)} == old({calls(op)})"                        # noqa: E704
def once(op): return f"{calls(op)} == old({calls(op)}) + 1"                    # noqa: E704
def none_of(ops): return " and ".join(same(o) for o in ops)                    # noqa: E704


NO_CHANGE = none_of(OPS)
WELL_TYPED = [f"'object_name' in {P} and 'object_type' in {P}"]


def only(op, do):
    """exactly one call of `op` (on this object's parameters), nothing else"""
    return (f"{once(op)} and {none_of([o for o in OPS if o != op])} and ghost('{op}.arg0', Ref('Params')) == {P}")


def step(do, default, raises, ensures, exc_ensures):
    return Contract(
        target=f"{SETUP}::{do}_states", name=f"{do}_states#object_step",
        block=("object_step", loop_body),
        params={P: Ref("Params"), "env": NONE, "run_params": Ref("Params")},
        # the parameters of the visited object are a copy made by the iteration, never the caller's own object
        requires=WELL_TYPED + [f"run_params != {P}"], overrides=OVERRIDES, extra_names=NAMES,
        # the conditions of the two policy exceptions mention the answer of the existence oracle, which exists only
        # after the call: they are stated as postconditions of the normal and of the exceptional exits instead
        raises={"TestAbortError": None, "TestError": None, "KeyError": None, "ParamNotFound": None, "IndexError": None,
                "ValueError": None},
        ensures=ensures, exc_ensures=exc_ensures,
        frame=["Params.p_has", "Params.p_val"], props=["C12"],
        assumes=["extracted block: the iteration over the stateful objects is not part of this contract",
                 "_state_check_chain is an oracle for 'the state exists' (it only adds check_* / object type keys); the back "
                 "end calls it makes itself through check_states (root handling by check_mode, see check_states#object_step "
                 "and the known findings C12-root-created-before-abort / C12-root-recreated-before-abort) are not part of "
                 "this step's call log",
                 "env is None (no vm object is passed to the back end)"])


# ---------------------------------------------------------------- get
GM = mode("get", "ra")
G_ABORT = f"((not {E} and {GM}[1] == 'a') or ({E} and {GM}[0] == 'a'))"
G_IGNORE = f"((not {E} and {GM}[1] == 'i') or ({E} and {GM}[0] == 'i' ))"
G_REUSE = f"({E} and {GM}[0] == 'r')"
G_INVALID = f"(not {G_ABORT} and not {G_IGNORE} and not {G_REUSE})"
GET_STEP = step("get", "ra", raises={}, ensures=[
    ("no_abort_or_invalid_policy_missed", f"implies(not {skip('get')}, not {G_ABORT} and not {G_INVALID})"),
    ("skipped_untouched", f"implies({skip('get')}, flow == 'continue' and {NO_CHANGE} and {same('exists')})"),
    ("ignore_touches_nothing", f"implies(not {skip('get')} and {G_IGNORE} and not {G_ABORT}, flow == 'continue' and {NO_CHANGE})"),
    ("reuse_gets_once", f"implies(not {skip('get')} and {G_REUSE}, flow == 'normal' and "
                        f"ite(old({P}['get_state']) in {ROOTS}, {only('get_root', 'get')}, {only('get', 'get')}))"),
    ("normal_only_on_reuse", f"implies(flow == 'normal', not {skip('get')} and {G_REUSE})"),
    ("existence_checked_once", f"implies(not {skip('get')}, {once('exists')})"),
    ("request_parameters_untouched", request_kept("get")),
], exc_ensures=[
    ("abort_or_invalid_alters_nothing", f"implies(exc in ['TestAbortError', 'TestError'], {NO_CHANGE})"),
    ("abort_only_by_policy", f"implies(exc == 'TestAbortError', not {skip('get')} and {G_ABORT})"),
    ("test_error_only_for_invalid_policy", f"implies(exc == 'TestError', not {skip('get')} and {G_INVALID})"),
])

# ---------------------------------------------------------------- unset
UM = mode("unset", "fi")
U_ABORT = f"(not {E} and {UM}[1] == 'a')"
U_IGNORE = f"(not {E} and {UM}[1] == 'i')"
U_REUSE = f"({E} and {UM}[0] == 'r')"
U_FORCE = f"({E} and {UM}[0] == 'f')"
U_INVALID = f"(not {U_ABORT} and not {U_IGNORE} and not {U_REUSE} and not {U_FORCE})"
UNSET_STEP = step("unset", "fi", raises={}, ensures=[
    ("no_abort_or_invalid_policy_missed", f"implies(not {skip('unset')}, not {U_ABORT} and not {U_INVALID})"),
    ("skipped_untouched", f"implies({skip('unset')}, flow == 'continue' and {NO_CHANGE} and {same('exists')})"),
    ("ignore_or_reuse_touches_nothing", f"implies(not {skip('unset')} and ({U_IGNORE} or {U_REUSE}), flow == 'continue' and {NO_CHANGE})"),
    ("force_unsets_once", f"implies(not {skip('unset')} and {U_FORCE}, flow == 'normal' and "
                          f"ite(old({P}['unset_state']) in {ROOTS}, {only('unset_root', 'unset')}, {only('unset', 'unset')}))"),
    ("removal_only_if_forced", f"implies(not ({same('unset')} and {same('unset_root')}), not {skip('unset')} and {U_FORCE})"),
    ("request_parameters_untouched", request_kept("unset")),
], exc_ensures=[
    ("abort_or_invalid_alters_nothing", f"implies(exc in ['TestAbortError', 'TestError'], {NO_CHANGE})"),
    ("abort_only_by_policy", f"implies(exc == 'TestAbortError', not {skip('unset')} and {U_ABORT})"),
    ("test_error_only_for_invalid_policy", f"implies(exc == 'TestError', not {skip('unset')} and {U_INVALID})"),
])

# ---------------------------------------------------------------- set
SM = mode("set", "ff")
IS_ROOT = f"(old({P}['set_state']) in {ROOTS})"
S_ABORT = f"(({E} and {SM}[0] == 'a') or (not {E} and {SM}[1] == 'a'))"
S_REUSE = f"({E} and {SM}[0] == 'r')"
S_FORCE_OVER = f"({E} and {SM}[0] == 'f')"
S_FORCE_NEW = f"(not {E} and {SM}[1] == 'f')"
NO_ROOT = f"(not {IS_ROOT} and not ghost('check_root.result'))"
S_INVALID = f"(not {S_ABORT} and not {S_REUSE} and not {S_FORCE_OVER} and not {S_FORCE_NEW})"
SET_STEP = step("set", "ff", raises={}, ensures=[
    ("no_abort_or_invalid_policy_missed", f"implies(not {skip('set')}, not {S_ABORT} and not {S_INVALID} and "
                                          f"not ({S_FORCE_NEW} and {NO_ROOT}))"),
    ("skipped_untouched", f"implies({skip('set')}, flow == 'continue' and {NO_CHANGE} and {same('exists')})"),
    ("reuse_touches_nothing", f"implies(not {skip('set')} and {S_REUSE}, flow == 'continue' and {NO_CHANGE})"),
    ("force_new_sets_once", f"implies(not {skip('set')} and {S_FORCE_NEW}, flow == 'normal' and "
                            f"ite({IS_ROOT}, {only('set_root', 'set')}, {only('set', 'set')}))"),
    ("force_over_replaces", f"implies(not {skip('set')} and {S_FORCE_OVER}, flow == 'normal' and {same('get')} and {same('get_root')} and "
                            f"ite({IS_ROOT}, {once('unset_root')} and {once('set_root')} and {same('set')} and {same('unset')}, "
                            f"{once('set')} and {same('set_root')} and {same('unset_root')} and "
                            f"ite(ghost('sourced'), {same('unset')}, {once('unset')})))"),
    ("overwrite_removes_exactly_the_named_state", f"implies(not {skip('set')} and {S_FORCE_OVER}, "
                                                  f"{P}['unset_state'] == old({P}['set_state']))"),
    ("normal_only_when_forced", f"implies(flow == 'normal', not {skip('set')} and ({S_FORCE_OVER} or {S_FORCE_NEW}))"),
    ("nothing_is_fetched", f"{same('get')} and {same('get_root')}"),
    ("request_parameters_untouched", request_kept("set")),
], exc_ensures=[
    ("abort_or_invalid_alters_nothing", f"implies(exc in ['TestAbortError', 'TestError'], {NO_CHANGE})"),
    ("abort_only_by_policy", f"implies(exc == 'TestAbortError', not {skip('set')} and {S_ABORT})"),
    ("test_error_only_when_invalid_or_rootless", f"implies(exc == 'TestError', not {skip('set')} and "
                                                 f"({S_INVALID} or ({S_FORCE_NEW} and {NO_ROOT})))"),
])


# ---------------------------------------------------------------- check
CM = mode("check", "rf")
C_SKIP = skip("check")
ROOT0 = "ghost('check_root.result')"
C_ROOT_FORCED = f"((not {ROOT0} and {CM}[1] == 'f') or ({ROOT0} and {CM}[0] == 'f'))"
C_IS_ROOT = f"(old({P}['check_state']) in {ROOTS})"
CHECK_OPS = OPS
CHECK_STEP = Contract(
    target=f"{SETUP}::check_states", name="check_states#object_step",
    block=("object_step", loop_body),
    params={P: Ref("Params"), "env": NONE, "run_params": Ref("Params")},
    requires=WELL_TYPED + [f"run_params != {P}"], overrides=OVERRIDES, extra_names=NAMES,
    raises={"TestError": None, "KeyError": None, "ParamNotFound": None, "IndexError": None, "ValueError": None,
            "AttributeError": None},
    ensures=[
        ("skipped_untouched", f"implies({C_SKIP}, flow == 'normal' or flow == 'continue') and "
                              f"implies({C_SKIP}, {NO_CHANGE} and {same('check_root')} and {same('show')})"),
        ("root_checked_first", f"implies(not {C_SKIP}, {once('check_root')})"),
        ("missing_root_reused_means_absent", f"implies(not {C_SKIP} and not {ROOT0} and {CM}[1] == 'r', "
                                             f"flow == 'return' and result == False and {NO_CHANGE})"),
        ("missing_root_forced_is_created", f"implies(not {C_SKIP} and not {ROOT0} and {CM}[1] == 'f', "
                                           f"{once('set_root')} and {same('unset_root')} and {same('get_root')})"),
        ("present_root_reused_is_fetched", f"implies(not {C_SKIP} and {ROOT0} and {CM}[0] != 'f', "
                                           f"{once('get_root')} and {same('set_root')} and {same('unset_root')})"),
        ("present_root_forced_is_recreated", f"implies(not {C_SKIP} and {ROOT0} and {CM}[0] == 'f', "
                                             f"{once('unset_root')} and {once('set_root')} and {same('get_root')})"),
        # a root state that was just (re)created, or found, exists: the step must not answer "absent"
        ("root_state_exists_after_root_handling", f"implies(not {C_SKIP} and {C_IS_ROOT} and ({ROOT0} or {C_ROOT_FORCED}), "
                                                  f"flow != 'return')"),
        ("ordinary_state_by_listing", f"implies(not {C_SKIP} and not {C_IS_ROOT} and ({ROOT0} or {C_ROOT_FORCED}), "
                                      f"{once('show')} and (flow == 'return') == (old({P}['check_state']) not in ghost('show.result', SeqOf(STR))))"),
        ("answer_is_absent", "implies(flow == 'return', result == False)"),
        ("never_gets_sets_or_unsets_ordinary_states", f"{same('get')} and {same('set')} and {same('unset')}"),
    ],
    exc_ensures=[
        ("invalid_policy_alters_nothing", f"implies(exc == 'TestError', {NO_CHANGE})"),
        ("test_error_only_for_invalid_policy", f"implies(exc == 'TestError', not {C_SKIP} and not {ROOT0} and "
                                               f"{CM}[1] != 'f' and {CM}[1] != 'r')"),
    ],
    frame=["Params.p_has", "Params.p_val"], props=["C12"],
    assumes=["extracted block: the iteration over the stateful objects is not part of this contract",
             "env is None (no vm object: the vm branch of a forced root re-creation raises AttributeError here)"])
