"""C11: branches of the tokenizing loop of params_from_cmd (avocado_i2n/cmd_parser.py), extracted mechanically from the
real source on every run.  The loop reads one `key=value` argument per iteration and dispatches on the key:

* `#malformed`: an argument that does not have the form <key>=<val> is rejected with ValueError (never skipped);
* `#override`: any other key=value lands in the parameter dictionary that overrides every parsed test, with commas
  turned into spaces, and no other entry / restriction string is touched;
* `#explicit_nets`: `nets=...` conflicts with an earlier nets restriction (ValueError), otherwise it is recorded;
* `#nets_restriction`: `only_nets= / no_nets=` conflicts with earlier explicit nets (ValueError, unless the value is
  empty), otherwise the restriction is handed to the suffix resolver and its answer becomes the `nets` parameter;
* `#vms`: `vms=a,b` selects exactly the listed vms, an unknown vm is rejected with ValueError.

What the extraction drops: the primary test restriction branch (`only=` / `no=`, regular expressions over the variant
names), the per-vm restriction branch (a for / else over regular expressions) and everything after the loop (the
Cartesian parser, outside /repo); those stay with the bounded stand-in `cmdline`.  `re.match` on the argument is a seam
(None or a match object whose groups are arbitrary strings); `str.replace` with two constant arguments is an
uninterpreted function of the string (the same symbol in code and contract)."""
import ast
import z3
from pyvc.kinds import V, STR, INT, BOOL, Ref, Seq, Map, Opt, NONE, VList, VTuple, VModule, VFunc, const, fresh
from pyvc.contract import Contract
from pyvc.engine import NULL

CMD = "avocado_i2n/cmd_parser.py"


def token_loop(fn):
    for n in fn.body:
        if isinstance(n, ast.For) and isinstance(n.target, ast.Name) and n.target.id == "cmd_param":
            return n
    return None


def key_chain(fn):
    """the if / elif chain on `key` of the loop body as a list of (test source, body, is_else)"""
    lp = token_loop(fn)
    if lp is None:
        return []
    chains = [s for s in lp.body if isinstance(s, ast.If) and "key ==" in ast.unparse(s.test)]
    if len(chains) != 1:
        return []
    out, node = [], chains[0]
    while True:
        out.append((ast.unparse(node.test), node.body))
        if len(node.orelse) == 1 and isinstance(node.orelse[0], ast.If):
            node = node.orelse[0]
        else:
            out.append(("else", node.orelse))
            return out


def branch(test_text):
    def select(fn):
        found = [body for test, body in key_chain(fn) if test == test_text]
        return found[0] if len(found) == 1 else []
    return select


def malformed_block(fn):
    """the first statements of the loop body: `<m> = re.match(..., cmd_param)` and the `if <m> is None: raise`"""
    lp = token_loop(fn)
    if lp is None or len(lp.body) < 2:
        return []
    a, b = lp.body[0], lp.body[1]
    if isinstance(a, ast.Assign) and ast.unparse(a.value).startswith("re.match(") and isinstance(b, ast.If) \
            and ast.unparse(b.test).endswith(" is None"):
        return [a, b]
    return []


def re_match(eng, st, recv, args, kw, node):
    """re.match(pattern, string): None or a match object (seam); the verdict is a ghost."""
    matched = fresh(BOOL, "re.matched")
    st.ghost["re.matched"] = matched
    st.ghost["re.string"] = args[1]
    for st1, m in eng.fork(st, matched.term, "re.matched"):
        if m:
            r = fresh(Ref("Match"), "re_match")
            st1.assume(r.term != NULL)
            yield st1, r
        else:
            yield st1, NONE


def all_suffixes(eng, st, recv, args, kw, node):
    """param.all_suffixes_by_restriction(restriction): the Cartesian parser's answer, an arbitrary list of names."""
    n = st.ghost.get("suffixes.calls") or V(INT, z3.Const("suffixes.calls0", z3.IntSort()))
    st.ghost["suffixes.calls"] = V(INT, n.term + 1)
    st.ghost["suffixes.arg"] = args[0]
    r = fresh(Seq(STR), "suffixes.result")
    st.ghost["suffixes.result"] = r
    yield st, r


PARAM = VModule("param")
KEPT = ("forall(STR, lambda k: implies(k != {key}, (k in param_dict) == old(k in param_dict) "
        "and implies(k in param_dict, param_dict[k] == old(param_dict[k]))))")

MALFORMED = Contract(
    target=f"{CMD}::params_from_cmd", name="params_from_cmd#malformed", block=("malformed", malformed_block),
    params={"cmd_param": STR},
    overrides={"re.match": re_match},
    raises={"ValueError": None},
    ensures=[
        ("the_argument_itself_is_matched", "ghost('re.string', STR) == cmd_param"),
        ("well_formed_goes_on", "ghost('re.matched') and flow == 'normal'"),
    ],
    exc_ensures=[("malformed_is_rejected", "exc == 'ValueError' and not ghost('re.matched')")],
    frame=[], props=["C11"],
    assumes=["extracted block: the first two statements of the tokenizing loop body",
             "re.match is a seam: None or a match object, decided by an uninterpreted verdict"],
)

OVERRIDE = Contract(
    target=f"{CMD}::params_from_cmd", name="params_from_cmd#override", block=("override", branch("else")),
    params={"key": STR, "value": STR, "param_dict": Map(STR, STR)},
    raises={},
    ensures=[
        ("override_recorded", "key in param_dict and param_dict[key] == old(value).replace(',', ' ')"),
        ("other_overrides_kept", KEPT.format(key="key")),
        ("loop_goes_on", "flow == 'normal'"),
    ],
    frame=[], props=["C11"],
    assumes=["extracted block: the final else branch of the key dispatch",
             "str.replace(',', ' ') is an uninterpreted function of the string"],
)

EXPLICIT_NETS = Contract(
    target=f"{CMD}::params_from_cmd", name="params_from_cmd#explicit_nets", block=("explicit_nets", branch("key == 'nets'")),
    params={"key": STR, "value": STR, "param_dict": Map(STR, STR), "nets_str": STR},
    requires=["key == 'nets'"],
    outputs={"explicit_nets": STR},
    raises={"ValueError": "nets_str != ''"},
    ensures=[
        ("no_earlier_restriction", "old(nets_str) == ''"),
        ("nets_recorded", "'nets' in param_dict and param_dict['nets'] == old(value).replace(',', ' ')"),
        ("explicit_nets_remembered", "explicit_nets == old(value).replace(',', ' ')"),
        ("other_overrides_kept", KEPT.format(key="'nets'")),
        ("restriction_string_kept", "nets_str == old(nets_str)"),
    ],
    exc_ensures=[("conflict_changes_nothing", "exc == 'ValueError' and old(nets_str) != '' and "
                                              "forall(STR, lambda k: (k in param_dict) == old(k in param_dict) and "
                                              "implies(k in param_dict, param_dict[k] == old(param_dict[k])))")],
    frame=[], props=["C11"],
    assumes=["extracted block: the `nets` branch of the key dispatch"],
)


def nets_restriction_block(fn):
    body = branch("key.startswith('only_') or key.startswith('no_')")(fn)
    if len(body) == 1 and isinstance(body[0], ast.If) and "_nets" in ast.unparse(body[0].test):
        return body[0].body
    return []


def vm_restriction_block(fn):
    body = branch("key.startswith('only_') or key.startswith('no_')")(fn)
    if len(body) == 1 and isinstance(body[0], ast.If) and "_nets" in ast.unparse(body[0].test):
        return body[0].orelse
    return []


NETS_LINE = "(old(key).replace('_nets', '') + ' ' + old(value) + '\\n' if old(value) != '' else '')"
NETS_RESTRICTION = Contract(
    target=f"{CMD}::params_from_cmd", name="params_from_cmd#nets_restriction",
    block=("nets_restriction", nets_restriction_block),
    params={"key": STR, "value": STR, "param_dict": Map(STR, STR), "nets_str": STR, "explicit_nets": Opt(STR)},
    extra_names={"param": PARAM},
    overrides={"param.all_suffixes_by_restriction": all_suffixes},
    raises={"ValueError": "explicit_nets is not None and value != ''"},
    ensures=[
        ("no_explicit_nets_or_empty_value", "old(explicit_nets) is None or old(value) == ''"),
        ("restriction_line", f"nets_str == {NETS_LINE}"),
        ("resolver_gets_the_line", "ghost('suffixes.calls') == old(ghost('suffixes.calls')) + 1 and ghost('suffixes.arg', STR) == nets_str"),
        ("nets_are_the_resolved_suffixes", "'nets' in param_dict and param_dict['nets'] == ' '.join(ghost('suffixes.result', SeqOf(STR)))"),
        ("other_overrides_kept", KEPT.format(key="'nets'")),
    ],
    exc_ensures=[("conflict_changes_nothing", "exc == 'ValueError' and nets_str == old(nets_str) and "
                                              "forall(STR, lambda k: (k in param_dict) == old(k in param_dict) and "
                                              "implies(k in param_dict, param_dict[k] == old(param_dict[k])))")],
    frame=[], props=["C11"],
    assumes=["extracted block: the `(only|no)_nets` branch of the key dispatch",
             "param.all_suffixes_by_restriction is a seam returning an arbitrary list of names (Cartesian parser outside /repo)",
             "'%s %s\\n' % (a, b) with string arguments is the concatenation a + ' ' + b + '\\n'"],
)


SELECTED = "old(value).split(',')"
VMS = Contract(
    target=f"{CMD}::params_from_cmd", name="params_from_cmd#vms", block=("vms", branch("key == 'vms'")),
    params={"key": STR, "value": STR, "with_selected_vms": Seq(STR), "available_vms": Seq(STR)},
    loops={0: {"invariants": ["forall(range(0, _i), lambda j: with_selected_vms[j] in available_vms)",
                              f"with_selected_vms == {SELECTED}"],
               "kinds": {"vm_name": STR}}},
    raises={"ValueError": f"exists({SELECTED}, lambda vm: vm not in available_vms)"},
    ensures=[
        ("exactly_the_listed_vms", f"with_selected_vms == {SELECTED}"),
        ("all_selected_vms_are_supported", "forall(with_selected_vms, lambda vm: vm in available_vms)"),
        ("supported_vms_kept", "available_vms == old(available_vms)"),
    ],
    frame=[], props=["C11"],
    assumes=["extracted block: the `vms` branch of the key dispatch",
             "str.split(',') is an uninterpreted list-valued function of the string"],
)


def re_split(eng, st, recv, args, kw, node):
    """re.split(pattern, string): the variant names of a restriction value, an arbitrary list of strings (seam)."""
    st.ghost["resplit.pattern"] = args[0]
    st.ghost["resplit.string"] = args[1]
    r = fresh(Seq(STR), "resplit.result")
    st.ghost["resplit.result"] = r
    yield st, r


VARIANTS = "ghost('resplit.result', SeqOf(STR))"
PRIMARY = Contract(
    target=f"{CMD}::params_from_cmd", name="params_from_cmd#primary_restriction",
    block=("primary_restriction", branch("key == 'only' or key == 'no'")),
    params={"key": STR, "value": STR, "tests_str": STR, "use_tests_default": BOOL, "with_nontrivial_restrictions": BOOL,
            "available_restrictions": Seq(STR)},
    overrides={"re.split": re_split},
    loops={0: {"invariants": [
        f"use_tests_default == (old(use_tests_default) and not exists(range(0, _i), lambda j: {VARIANTS}[j] in available_restrictions))",
        f"with_nontrivial_restrictions == (old(with_nontrivial_restrictions) or exists(range(0, _i), lambda j: {VARIANTS}[j] not in available_restrictions))",
        "tests_str == old(tests_str)"],
        "kinds": {"variant": STR}}},
    raises={},
    ensures=[
        # restrictions are applied in the order they are given: the line is appended, earlier lines are kept as they are
        ("restriction_line_appended", "tests_str == old(tests_str) + key + ' ' + value + '\\n'"),
        ("variants_of_the_value", "ghost('resplit.string', STR) == value"),
        # the default primary set is added only when no primary restriction is given
        ("default_kept_only_without_primary_restriction",
         f"use_tests_default == (old(use_tests_default) and not exists({VARIANTS}, lambda v: v in available_restrictions))"),
        ("auxiliary_restriction_noticed",
         f"with_nontrivial_restrictions == (old(with_nontrivial_restrictions) or exists({VARIANTS}, lambda v: v not in available_restrictions))"),
        ("loop_goes_on", "flow == 'normal'"),
    ],
    frame=[], props=["C11"],
    assumes=["extracted block: the `only` / `no` branch of the key dispatch",
             "re.split is a seam returning an arbitrary list of strings (the variant names of the value)",
             "'%s %s\\n' % (a, b) with string arguments is the concatenation a + ' ' + b + '\\n'"],
)


re_match_fn = z3.Function("re_match", z3.StringSort(), z3.StringSort(), z3.BoolSort())


def re_match_pred(eng, st, recv, args, kw, node):
    """re.match(pattern, string) as a truth value: uninterpreted predicate of (pattern, string)."""
    yield st, V(BOOL, re_match_fn(args[0].term, args[1].term))


def MATCH(vm):
    return f"re_match('(only|no)_' + {vm} + '$', key)"


VM_LINE = "(key.replace('_' + vm_name, '') + ' ' + value + '\\n' if value != '' else '')"
VM_RESTRICTION = Contract(
    target=f"{CMD}::params_from_cmd", name="params_from_cmd#vm_restriction", block=("vm_restriction", vm_restriction_block),
    params={"key": STR, "value": STR, "available_vms": Seq(STR), "use_vms_default": Map(STR, BOOL), "vm_strs": Map(STR, STR)},
    requires=["forall(available_vms, lambda vm: vm in vm_strs and vm in use_vms_default)"],
    overrides={"re.match": re_match_pred},
    extra_names={"re_match": VFunc("handler", fn=lambda e, s, a, k, n: re_match_pred(e, s, None, a, k, n), name="re_match")},
    loops={0: {"invariants": [
        f"forall(range(0, _i), lambda j: not {MATCH('available_vms[j]')})",
        "forall(STR, lambda k: (k in vm_strs) == old(k in vm_strs) and implies(k in vm_strs, vm_strs[k] == old(vm_strs[k])))",
        "forall(STR, lambda k: (k in use_vms_default) == old(k in use_vms_default) and "
        "implies(k in use_vms_default, use_vms_default[k] == old(use_vms_default[k])))"],
        "kinds": {"vm_name": STR, "vm_str": STR}}},
    outputs={"vm_name": STR},
    # a restriction for an object that does not exist is an error, not a silently ignored argument
    raises={"ValueError": f"not exists(available_vms, lambda vm: {MATCH('vm')})"},
    ensures=[
        ("restricted_vm_matches_the_key", MATCH('vm_name')),
        ("restricted_vm_is_supported", "exists(range(0, len(available_vms)), lambda j: available_vms[j] == vm_name)"),
        ("first_matching_vm", f"forall(range(0, len(available_vms)), lambda j: implies({MATCH('available_vms[j]')}, "
                              "exists(range(0, j + 1), lambda i: available_vms[i] == vm_name)))"),
        ("defaults_escaped_for_that_vm", "use_vms_default[vm_name] == False"),
        # the restriction line is appended to the earlier lines of the same vm (order of restrictions preserved)
        ("restriction_line_appended", f"vm_strs[vm_name] == old(vm_strs[vm_name]) + {VM_LINE}"),
        ("other_vms_untouched", "forall(STR, lambda k: implies(k != vm_name, (k in vm_strs) == old(k in vm_strs) and "
                                "implies(k in vm_strs, vm_strs[k] == old(vm_strs[k])) and "
                                "(k in use_vms_default) == old(k in use_vms_default) and "
                                "implies(k in use_vms_default, use_vms_default[k] == old(use_vms_default[k]))))"),
    ],
    exc_ensures=[("unknown_object_changes_nothing",
                  "exc == 'ValueError' and forall(STR, lambda k: (k in vm_strs) == old(k in vm_strs) and "
                  "implies(k in vm_strs, vm_strs[k] == old(vm_strs[k])) and (k in use_vms_default) == old(k in use_vms_default) and "
                  "implies(k in use_vms_default, use_vms_default[k] == old(use_vms_default[k])))")],
    frame=[], props=["C11"],
    assumes=["extracted block: the per-vm restriction branch (for / else) of the key dispatch",
             "re.match(pattern, string) is an uninterpreted predicate of its two arguments; str.replace is an uninterpreted "
             "function of its arguments; '%s %s\\n' % (a, b) with string arguments is the concatenation a + ' ' + b + '\\n'"],
)


def selected_keys_block(fn):
    """the loop after the tokenizer that drops the restriction strings of vms that were not selected"""
    found = [s for s in fn.body if isinstance(s, ast.For) and isinstance(s.target, ast.Name) and s.target.id == "vm_name"
             and "del config['vm_strs'][vm_name]" in ast.unparse(s)]
    return found if len(found) == 1 else []


VS = "config['vm_strs']"
SELECTED_KEYS = Contract(
    target=f"{CMD}::params_from_cmd", name="params_from_cmd#selected_keys", block=("selected_keys", selected_keys_block),
    params={"config": Map(STR, Map(STR, STR)), "available_vms": Seq(STR), "with_selected_vms": Seq(STR)},
    requires=["'vm_strs' in config", f"forall(available_vms, lambda vm: vm in {VS})",
              # param.all_objects returns each vm once
              "forall(range(0, len(available_vms)), lambda i: forall(range(0, i), lambda j: available_vms[i] != available_vms[j]))"],
    loops={0: {"invariants": [
        "'vm_strs' in config",
        f"forall(STR, lambda k: (k in {VS}) == (old(k in {VS}) and not (k not in with_selected_vms and "
        "exists(range(0, _i), lambda j: available_vms[j] == k))))",
        f"forall(STR, lambda k: implies(k in {VS}, {VS}[k] == old({VS}[k])))"],
        "kinds": {"vm_name": STR}}},
    raises={},
    ensures=[
        # the keys of the vm strings are the selected vms: the restriction of a vm that was not selected is dropped,
        # every selected vm keeps its restriction string
        ("unselected_vms_dropped", f"forall(available_vms, lambda vm: (vm in {VS}) == (vm in with_selected_vms))"),
        ("selected_restrictions_kept", f"forall(STR, lambda k: implies(k in {VS}, old(k in {VS}) and {VS}[k] == old({VS}[k])))"),
        ("nothing_else_dropped", f"forall(STR, lambda k: implies(old(k in {VS}) and k not in available_vms, k in {VS}))"),
    ],
    frame=[], props=["C11"],
    assumes=["extracted block: the loop of params_from_cmd that removes the vm strings of vms not selected by vms=",
             "config is modelled as a dictionary of dictionaries (only the 'vm_strs' entry is read or written by the block)"],
)


# ---------------------------------------------------------------- defaults after the tokenizer
from pyvc.contract import seam_handler                                                  # noqa: E402


def nonnull_seam(seam, cls):
    inner = seam_handler(seam, Ref(cls))

    def h(eng, st, recv, args, kwargs, node):
        for st1, r in inner(eng, st, recv, args, kwargs, node):
            st1.assume(r.term != NULL)
            yield st1, r
    return h


CONFIG_SEAMS = {
    "param.Reparsable": nonnull_seam("reparsable", "Reparsable"),
    "Reparsable.parse_next_batch": seam_handler("batch"),
    "Reparsable.get_params": nonnull_seam("get_params", "Params"),
    "param.tests_ovrwrt_file": seam_handler("tests_ovrwrt_file", STR),
    "param.vms_ovrwrt_file": seam_handler("vms_ovrwrt_file", STR),
    "param.all_restrictions": seam_handler("all_restrictions", Seq(STR)),
    "param.all_objects": seam_handler("all_objects", Seq(STR)),
}
TP = "ghost('get_params.result', Ref('Params'))"
DEFAULT = f"{TP}.get('default_only', 'all')"
TESTS_DEFAULT = Contract(
    target=f"{CMD}::full_tests_params_and_str",
    params={"param_dict": Map(STR, STR), "tests_str": STR, "use_tests_default": BOOL},
    extra_names={"param": PARAM, "log": VModule("logging")},
    overrides=CONFIG_SEAMS,
    raises={"ValueError": None},
    ensures=[
        # every key=value of the command line is handed to the parser as an overwrite dictionary
        ("overrides_reach_the_parser", "ghost('batch.calls') == old(ghost('batch.calls')) + 1 and "
                                       "ghost('batch.kw.ovrwrt_dict', MapOf(STR, STR)) == param_dict"),
        ("parameters_are_the_parsed_ones", f"result[0] == {TP}"),
        # the default primary set is added only when none is given, after the restrictions of the command line
        ("given_restrictions_only", "implies(not use_tests_default, result[1] == old(tests_str))"),
        ("default_added_when_none_given", f"implies(use_tests_default, result[1] == old(tests_str) + 'only ' + {DEFAULT} + '\\n')"),
        ("default_is_a_primary_restriction", f"implies(use_tests_default, {DEFAULT} in ghost('all_restrictions.result', SeqOf(STR)))"),
    ],
    exc_ensures=[("invalid_default_rejected", f"exc == 'ValueError' and use_tests_default and "
                                              f"{DEFAULT} not in ghost('all_restrictions.result', SeqOf(STR))")],
    frame=[], props=["C11"],
    assumes=["param.Reparsable / parse_next_batch / get_params / all_restrictions are seams into the Cartesian parser "
             "(outside /repo): arbitrary answers, calls and keyword arguments logged",
             "'only %s\\n' % default with a string argument is the concatenation"],
)


VMS_ALL = "ghost('all_objects.result', SeqOf(STR))"
VP = "ghost('get_params.result', Ref('Params'))"


def VM_DEFAULT(vm):
    k = f"('default_only_' + {vm})"
    return (f"implies({vm} in vm_strs and {vm} in old(vm_strs), vm_strs[{vm}] == "
            f"(old(vm_strs)[{vm}] + 'only ' + {VP}[{k}] + '\\n' "
            f"if ({vm} in use_vms_default and use_vms_default[{vm}] and {k} in {VP} and {VP}[{k}] != '') else old(vm_strs)[{vm}]))")


def all_objects_distinct(eng, st, recv, args, kw, node):
    """param.all_objects(key): an arbitrary list of names without duplicates (seam)."""
    inner = seam_handler("all_objects", Seq(STR))
    for st1, r in inner(eng, st, recv, args, kw, node):
        i, j = z3.Int("ao_i"), z3.Int("ao_j")
        st1.assume(z3.ForAll([i, j], z3.Implies(z3.And(0 <= i, i < j, j < r.kind.len(r.term)),
                                                r.kind.at(r.term, i) != r.kind.at(r.term, j))))
        yield st1, r


VMS_DEFAULT = Contract(
    target=f"{CMD}::full_vm_params_and_strs",
    params={"param_dict": Map(STR, STR), "vm_strs": Map(STR, STR), "use_vms_default": Map(STR, BOOL)},
    extra_names={"param": PARAM, "log": VModule("logging")},
    overrides=dict(CONFIG_SEAMS, **{"param.all_objects": all_objects_distinct}),
    loops={0: {"invariants": [
        f"forall(range(0, _i), lambda j: {VMS_ALL}[j] in use_vms_default)",
        f"forall(range(0, _i), lambda j: {VM_DEFAULT(VMS_ALL + '[j]')})",
        f"forall(range(_i, len({VMS_ALL})), lambda j: implies({VMS_ALL}[j] in vm_strs, vm_strs[{VMS_ALL}[j]] == old(vm_strs)[{VMS_ALL}[j]]))",
        "forall(STR, lambda k: (k in vm_strs) == old(k in vm_strs))",
        f"forall(STR, lambda k: implies(k in vm_strs and k not in {VMS_ALL}, vm_strs[k] == old(vm_strs[k])))"],
        "kinds": {"vm_name": STR, "default": Opt(STR)}}},
    # a vm without an entry in one of the dictionaries is a KeyError (params_from_cmd builds both from the same list)
    raises={"KeyError": None},
    ensures=[
        ("overrides_reach_the_parser", "ghost('batch.calls') == old(ghost('batch.calls')) + 1 and "
                                       "ghost('batch.kw.ovrwrt_dict', MapOf(STR, STR)) == param_dict"),
        ("parameters_are_the_parsed_ones", f"result[0] == {VP}"),
        # the default variant of a vm is added only when the command line gave no restriction for that vm, after nothing else
        ("default_only_without_a_restriction", f"forall({VMS_ALL}, lambda vm: vm in use_vms_default and {VM_DEFAULT('vm')}) and result[1] == vm_strs"),
        ("same_vms", "forall(STR, lambda k: (k in result[1]) == old(k in vm_strs))"),
    ],
    frame=[], props=["C11"],
    assumes=["param.Reparsable / parse_next_batch / get_params / all_objects are seams into the Cartesian parser (outside /repo)",
             "the list of vm names returned by param.all_objects has no duplicates and each name has an entry in both dictionaries "
             "(they are built from the same list in params_from_cmd)"],
)
