"""C05 (request discipline): the per-object step of TestNode.sync_states (avocado_i2n/cartgraph/node.py).

The body of `for test_object in self.objects` is extracted mechanically from the real source on every run.  It decides,
for one object of the node, whether the request sent through the door will remove the object's state (`unset`), copy it
(`get`) or whether nothing is requested.  What the extraction drops: the loop over the objects (how the per-object
decisions combine: the last deciding object wins - bounded stand-in sync_scan_pull A1-A6) and the door request itself.
"""
import ast
import z3
from pyvc.kinds import V, STR, INT, BOOL, Ref, Seq, SetK, NONE, VModule, VFunc, const, fresh
from pyvc.contract import Contract, seam_handler

NODE = "avocado_i2n/cartgraph/node.py"


def object_loop(fn):
    loops = [n for n in fn.body if isinstance(n, ast.For) and isinstance(n.target, ast.Name) and n.target.id == "test_object"]
    return loops[0].body if len(loops) == 1 else []


OP = "test_object.object_typed_params(self.params)"
STATE = f"old({OP}.get('set_state', ''))"
POLICY = f"old({OP}.get('unset_mode', 'ri'))"
VM = "old(test_object.suffix if test_object.key == 'vms' else test_object.composites[0].suffix)"
SELECTED = f"({VM} in old(params['vms']))"
CONSIDERED = (f"(len({STATE}) > 0 and {POLICY}[0] in ['f', 'r'] and old(test_object.key) != 'nets' and "
              f"not ({STATE} == 'install' and old(test_object.is_permanent())) and {SELECTED})")
FILTER = "old(node_params.get('pool_filter', 'reuse'))"
SUFFIXES = ("('_' + old(test_object.key) + '_' + old(test_object.suffix) + "
            f"(('_' + {VM}) if old(test_object.key) == 'images' else ''))")
KEPT = ("forall(STR, lambda k: (k in node_params) == old(k in node_params) and "
        "implies(k in node_params, node_params[k] == old(node_params[k])))")

STEP = Contract(
    target=f"{NODE}::TestNode.sync_states", name="TestNode.sync_states#object_step", block=("object_step", object_loop),
    params={"self": Ref("TestNode"), "params": Ref("Params"), "test_object": Ref("TestObject"),
            "node_params": Ref("Params"), "should_clean": BOOL},
    requires=["'vms' in params", "node_params != self.params and node_params != params", "self.started_worker is not None",
              "len(test_object.composites) > 0 and test_object.composites[0] is not None",
              f"forall({OP}.objects('images'), lambda i: True)"],
    overrides={"params_parser.all_objects": seam_handler("all_objects", Seq(STR)), "param.all_objects": seam_handler("all_objects", Seq(STR))},
    extra_names={"param": VModule("param")},
    outputs={"do": STR, "unset_policy": STR},
    loops={0: {"invariants": [
        # the image loop only adds image_name_* / image_format_* / remove_image_* / skip_image_processing: the keys the
        # request is judged by are not among them
        "forall(STR, lambda k: implies(k.startswith('unset_') or k.startswith('get_') or k.startswith('pool_'), "
        "(k in node_params) == old(k in node_params) and implies(k in node_params, node_params[k] == old(node_params[k]))))",
        "should_clean == True",
        "forall(Ref('Params'), lambda p: implies(p != node_params, "
        "forall(STR, lambda k: (k in p) == old(k in p) and implies(k in p, p[k] == old(p[k])))))"],
        "modifies": ["Params.p_has", "Params.p_val"],
        "kinds": {"image_name": STR, "image_params": Ref("Params")}}},
    raises={"ValueError": None, "ParamNotFound": None, "IndexError": None, "KeyError": None, "AttributeError": None},
    ensures=[
        # removal is requested only for an object whose unset_mode asks for it (f.), and then with scope own
        ("unset_only_if_asked", f"implies(flow == 'normal' and do == 'unset', {CONSIDERED} and {POLICY}[0] == 'f' and "
                                f"should_clean and node_params['pool_scope'] == 'own' and "
                                f"node_params['unset_state' + {SUFFIXES}] == {STATE} and "
                                f"node_params['unset_mode' + {SUFFIXES}] == {POLICY})"),
        ("forced_object_requests_unset", f"implies({CONSIDERED} and {POLICY}[0] == 'f', flow == 'normal' and do == 'unset')"),
        # reusable states: nothing is requested unless the filter is `copy`; then a get that excludes the own scope
        ("reuse_or_block_requests_nothing", f"implies({CONSIDERED} and {POLICY}[0] == 'r' and {FILTER} in ['reuse', 'block'], "
                                            f"flow == 'break' and should_clean == False)"),
        ("get_only_if_copy_filter", f"implies(flow == 'normal' and do == 'get', {CONSIDERED} and {POLICY}[0] == 'r' and "
                                    f"{FILTER} == 'copy' and should_clean)"),
        ("get_names_the_state", f"implies(flow == 'normal' and do == 'get', node_params['get_state' + {SUFFIXES}] == {STATE})"),
        ("not_considered_changes_nothing", f"implies(not {CONSIDERED}, {KEPT} and (flow == 'continue' or flow == 'break') and "
                                           f"implies(flow == 'continue', should_clean == old(should_clean)))"),
        ("never_both", "implies(flow == 'normal', do == 'unset' or do == 'get')"),
        ("own_and_runtime_params_untouched", "forall(STR, lambda k: (k in self.params) == old(k in self.params) and "
                                             "implies(k in self.params, self.params[k] == old(self.params[k])) and "
                                             "(k in params) == old(k in params) and implies(k in params, params[k] == old(params[k])))"),
    ],
    exc_ensures=[("rejection_requests_nothing", f"implies(exc == 'ValueError', should_clean == old(should_clean) or {CONSIDERED})"),
                 # for image objects the only ValueError is the rejected pool_filter (vm objects also parse create_image)
                 ("only_invalid_filter_rejected", f"implies(exc == 'ValueError' and old(test_object.key) != 'vms', {CONSIDERED} and "
                                                  f"{POLICY}[0] == 'r' and {FILTER} not in ['reuse', 'block', 'copy'])")],
    frame=["Params.p_has", "Params.p_val"], props=["C05"],
    assumes=["extracted block: the loop over the node's objects and the door request are not part of this contract",
             "the runtime parameters name the selected vms ('vms' in params); the default (all vms) is covered by the bounded stand-in"],
)
