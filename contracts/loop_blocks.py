"""Branch-level contracts of the main traversal loop TestGraph.traverse_object_trees (C01, C02, C04, C05).

The loop body is not verified as a whole (no inductive invariant over the complete graph is attempted, DESIGN.md);
instead the statement blocks that decide a property are *extracted mechanically from the real source on every run*
(pyvc.source.extract_block: the `If` statement selected by its test expression becomes the body of a synthetic function
whose parameters are the free variables of the block) and verified against a contract.  What the extraction drops: the
rest of the loop (the surrounding `while`, the pre-parsing of flat nodes, the debug logging/visualisation statements).
"""
import ast
import z3
from pyvc.kinds import V, STR, INT, BOOL, REAL, Ref, Seq, SetK, Map, NULL, RefSort, VNone, NONE, const, fresh, fresh_name
from pyvc.contract import Contract, contract_handler, seam_handler
from contracts.node_getters import WF_NODE, by_contract
from contracts.node_decisions import IS_OCCUPIED, IS_SETUP_READY, IS_CLEANUP_READY, wf_ready
from contracts.node_edges import PICK_PARENT, PICK_CHILD, DROP_PARENT, DROP_CHILD, EDGE_OVERRIDES
from contracts.c16 import bridged_form, bridged_form_fn

GRAPH = "avocado_i2n/cartgraph/graph.py"
TARGET = f"{GRAPH}::TestGraph.traverse_object_trees"


def main_loop(fn):
    loops = [n for n in fn.body if isinstance(n, ast.While)]
    if len(loops) != 1:
        raise KeyError("traverse_object_trees: expected exactly one top-level while loop")
    return loops[0]


def if_with_test(text):
    def sel(fn):
        # by what the test is about, not by its spelling (a negated / flipped test is still the same statement)
        found = [n for n in main_loop(fn).body if isinstance(n, ast.If) and text in ast.unparse(n.test)]
        return found if len(found) == 1 else []
    return sel


def on(n, exprs):
    return [e.replace("self.", n + ".").replace("(self)", f"({n})").replace("self,", n + ",") for e in exprs]


# ---------------------------------------------------------------- the occupied branch (C04: bounce, never join in)
SLEEP = seam_handler("sleep", None)
MT = "next.params.get_numeric('test_timeout', 3600) * next.params.get_numeric('max_tries', 1)"
MCT_KEY = "'max_concurrent_tries'"

OCCUPIED_BRANCH = Contract(
    target=TARGET, name="TestGraph.traverse_object_trees#occupied_branch",
    block=("occupied_branch", if_with_test(".is_occupied(")),
    params={"next": Ref("TestNode"), "worker": Ref("TestWorker"), "root": Ref("TestNode"),
            "occupied_at": SetK(Ref("TestNode")), "occupied_wait": REAL, "traverse_path": Seq(Ref("TestNode"))},
    requires=on("next", WF_NODE) + ["occupied_wait >= 0", "root is not None"],
    overrides={"TestNode.is_occupied": by_contract(IS_OCCUPIED), "asyncio.sleep": SLEEP},
    raises={"ValueError": None, "ParamNotFound": None},
    ensures=[
        # the block is left by `continue` exactly when the node is occupied, otherwise it falls through untouched
        ("bounces_iff_occupied", "(flow == 'continue') == old(next.is_occupied(worker))"),
        ("not_occupied_untouched", "implies(flow != 'continue', traverse_path == old(traverse_path) and "
                                   "occupied_wait == old(occupied_wait) and occupied_at == old(occupied_at) and "
                                   "ghost('sleep.calls') == old(ghost('sleep.calls')) and "
                                   f"forall(STR, lambda k: (k in next.params) == old(k in next.params) and "
                                   f"implies(k in next.params, next.params[k] == old(next.params[k]))))"),
        # bouncing: path reset to the root, exactly one bounded back-off, the node is remembered
        ("bounce_resets_path", "implies(flow == 'continue', len(traverse_path) == 1 and traverse_path[0] == root)"),
        ("bounce_sleeps_once", "implies(flow == 'continue', ghost('sleep.calls') == old(ghost('sleep.calls')) + 1)"),
        ("backoff_bounded", f"implies(flow == 'continue', ghost('sleep.arg0', REAL) >= 0.095 and "
                            f"ghost('sleep.arg0', REAL) <= max(old({MT}) / 1000, 0.1) + 0.005)"),
        ("bounce_remembered", "implies(flow == 'continue', next in occupied_at and "
                              "forall(Ref('TestNode'), lambda n: implies(n != next, (n in occupied_at) == old(n in occupied_at))))"),
        # the concurrency threshold is raised only after waiting on the same node for longer than timeout x tries
        ("no_join_before_overrun", f"implies(not (old(next in occupied_at) and old(occupied_wait) > old({MT})), "
                                   f"forall(STR, lambda k: (k in next.params) == old(k in next.params) and "
                                   f"implies(k in next.params, next.params[k] == old(next.params[k]))))"),
        ("only_threshold_key_written", f"forall(STR, lambda k: implies(k != {MCT_KEY}, (k in next.params) == old(k in next.params) "
                                       f"and implies(k in next.params, next.params[k] == old(next.params[k]))))"),
        ("wait_accumulates", "implies(flow == 'continue', ite(old(next in occupied_at), occupied_wait >= old(occupied_wait), "
                             "occupied_wait == 0))"),
        ("other_params_kept", "forall(Ref('Params'), lambda p: implies(p != next.params, "
                              "forall(STR, lambda k: (k in p) == old(k in p) and implies(k in p, p[k] == old(p[k])))))"),
    ],
    frame=["Params.p_has", "Params.p_val"],
    props=["C04", "C02"],      # C02: the back-off branch must not raise (TypeError / ... are traversal errors)
    assumes=["extracted block: the surrounding loop is not part of this contract (see module docstring)",
             "round(x, 2) is within 0.005 of x (floating point treated as real arithmetic)"],
)


# ---------------------------------------------------------------- the path step (C01, C02, C05): one DFS move per iteration
from pyvc.contract import traced                                           # noqa: E402
from contracts.traversal import TRAVERSE_NODE, REVERSE_NODE, NAMES_KEPT    # noqa: E402
from contracts.node_decisions import READY_OVERRIDES                       # noqa: E402

# call-site views of the two coroutines: only what the step needs of them.  names_kept is a proved postcondition of
# traverse_node (contracts.traversal); the edge maps and registers are outside the frames of both functions.
TRAVERSE_NODE_SITE = Contract(
    target=TRAVERSE_NODE.target, name="TestGraph.traverse_node[loop call site]",
    params={"self": Ref("TestGraph"), "test_node": Ref("TestNode"), "worker": Ref("TestWorker"), "params": (Ref("Params"), "nullable")},
    ensures=[("names_kept", NAMES_KEPT)], frame=TRAVERSE_NODE.frame, props=[])
REVERSE_NODE_SITE = Contract(
    target=REVERSE_NODE.target, name="TestGraph.reverse_node[loop call site]",
    params={"self": Ref("TestGraph"), "test_node": Ref("TestNode"), "worker": Ref("TestWorker"), "params": (Ref("Params"), "nullable")},
    ensures=[], frame=REVERSE_NODE.frame, props=[])

SHOULD_RUN = seam_handler("should_run", BOOL)
STEP_OVERRIDES = dict(READY_OVERRIDES)
STEP_OVERRIDES.update({
    "TestNode.is_setup_ready": traced("setup_ready", by_contract(IS_SETUP_READY)),
    "TestNode.is_cleanup_ready": traced("cleanup_ready", by_contract(IS_CLEANUP_READY)),
    "TestNode.default_run_decision": SHOULD_RUN,
    "TestGraph.traverse_node": traced("traverse_node", by_contract(TRAVERSE_NODE_SITE), snapshot=["setup_ready.result"]),
    "TestGraph.reverse_node": traced("reverse_node", by_contract(REVERSE_NODE_SITE),
                                     snapshot=["cleanup_ready.result", "traverse_node.calls", "should_run.result", "drop_child.calls"]),
    "TestNode.drop_parent": traced("drop_parent", by_contract(DROP_PARENT), snapshot=["traverse_node.calls", "should_run.result"]),
    "TestNode.drop_child": traced("drop_child", by_contract(DROP_CHILD),
                                  snapshot=["cleanup_ready.result", "traverse_node.calls", "should_run.result"]),
    "TestNode.pick_parent": traced("pick_parent", by_contract(PICK_PARENT), snapshot=["setup_ready.result"]),
    "TestNode.pick_child": traced("pick_child", by_contract(PICK_CHILD), snapshot=["cleanup_ready.result", "should_run.result"]),
    "TestGraph.report_progress": seam_handler("report_progress", None),
})

G = "ghost('{0}')".format
CALLS = lambda s: f"ghost('{s}.calls')"                                      # noqa: E731
CALLED = lambda s: f"({CALLS(s)} != old({CALLS(s)}))"                        # noqa: E731
ONCE = lambda s: f"({CALLS(s)} == old({CALLS(s)}) + 1)"                      # noqa: E731
NOT_CALLED = lambda s: f"({CALLS(s)} == old({CALLS(s)}))"                    # noqa: E731
TN = "Ref('TestNode')"


def wf_step(n):
    return [f"{n} is not None", f"wf_map({n}._setup_nodes)", f"wf_map({n}._cleanup_nodes)",
            f"{n}._dropped_setup_nodes is not None and {n}._dropped_cleanup_nodes is not None",
            f"forall(keys_of({n}._setup_nodes), lambda s: s is not None and 'name' in s.params and "
            f"s._picked_by_cleanup_nodes is not None and s._dropped_cleanup_nodes is not None)",
            f"forall(keys_of({n}._cleanup_nodes), lambda c: c is not None and 'name' in c.params and "
            f"c._picked_by_setup_nodes is not None)"]


REVERSED = "old(previous in next._cleanup_nodes)"
FORWARD = "(not old(previous in next._cleanup_nodes) and old(previous in next._setup_nodes))"
PREFIX_KEPT = ("forall(range(0, old(len(traverse_path)) - 1), lambda i: traverse_path[i] == old(traverse_path)[i])")
POPPED = f"(len(traverse_path) == old(len(traverse_path)) - 1 and {PREFIX_KEPT})"
PUSHED = (f"(len(traverse_path) == old(len(traverse_path)) + 1 and {PREFIX_KEPT} and "
          f"traverse_path[len(traverse_path) - 2] == next)")
RESET = "(len(traverse_path) == 1 and traverse_path[0] == root)"
LAST = "traverse_path[len(traverse_path) - 1]"

PATH_STEP = Contract(
    target=TARGET, name="TestGraph.traverse_object_trees#path_step",
    block=("path_step", if_with_test(".cleanup_nodes")),
    params={"self": Ref("TestGraph"), "next": Ref("TestNode"), "previous": Ref("TestNode"), "worker": Ref("TestWorker"),
            "params": (Ref("Params"), "nullable"), "root": Ref("TestNode"), "traverse_path": Seq(Ref("TestNode")),
            "unexplored_nodes": Seq(Ref("TestNode"))},
    requires=wf_step("next") + [
        "previous is not None and root is not None",
        "previous._dropped_setup_nodes is not None and wf_map(previous._setup_nodes)",
        # every dependency is recorded on both of its ends (C06; proved for descend_from_node, checked on parsed graphs)
        "(previous in next._cleanup_nodes) == (next in previous._setup_nodes)",
        "forall(keys_of(next._setup_nodes), lambda s: next in s._cleanup_nodes)",
        # shape of the path at this point of the loop: at least [.., previous, next]
        "len(traverse_path) >= 2 and traverse_path[len(traverse_path) - 1] == next and "
        "traverse_path[len(traverse_path) - 2] == previous",
    ],
    overrides=STEP_OVERRIDES,
    stubs={"TestNode.bridged_form": (bridged_form_fn, "TestNode", STR, "property")},
    # pick_* / drop_* must never fail here: RuntimeError / ValueError are not acceptable outcomes of a step
    raises={"AssertionError": "not old(previous in next._cleanup_nodes) and not old(previous in next._setup_nodes)"},
    raises_only_if=False,
    loops={0: {"invariants": [f"{CALLS('drop_child')} == old({CALLS('drop_child')}) + _i",
                              f"implies(_i > 0, ghost('drop_child.saw.cleanup_ready.result') == True and "
                              f"ghost('drop_child.saw.should_run.result') == False and "
                              f"ghost('drop_child.saw.traverse_node.calls') == old({CALLS('traverse_node')}) + 1 and "
                              f"ghost('drop_child.arg1', {TN}) == next)",
                              f"{ONCE('traverse_node')} and {NOT_CALLED('reverse_node')} and {NOT_CALLED('drop_parent')}",
                              "traverse_path == old(traverse_path)",
                              "forall(keys_of(next._setup_nodes), lambda s: next in s._cleanup_nodes and "
                              "s._dropped_cleanup_nodes is not None)"],
               "ghost": ["drop_child.calls", "drop_child.arg0", "drop_child.arg1", "drop_child.arg2",
                         "drop_child.saw.cleanup_ready.result", "drop_child.saw.should_run.result",
                         "drop_child.saw.traverse_node.calls"],
               "modifies": ["EdgeRegister._registry"],
               "kinds": {"setup": Ref("TestNode")}}},
    ensures=[
        # C01: a test is run (traverse_node) only when this worker is done with all its parents
        ("run_only_when_setup_ready", f"implies({CALLED('traverse_node')}, {ONCE('traverse_node')} and "
                                      f"ghost('traverse_node.saw.setup_ready.result') == True and "
                                      f"ghost('traverse_node.arg1', {TN}) == next and ghost('traverse_node.arg2', Ref('TestWorker')) == worker)"),
        # C01: the parent is dropped from the child's to-do list only after the run decision said it is done
        ("drop_parent_after_run_decision", f"implies({CALLED('drop_parent')}, {ONCE('drop_parent')} and {REVERSED} and "
                                           f"ghost('drop_parent.saw.traverse_node.calls') == old({CALLS('traverse_node')}) + 1 and "
                                           f"ghost('drop_parent.saw.should_run.result') == False and "
                                           f"ghost('drop_parent.arg0', {TN}) == previous and ghost('drop_parent.arg1', {TN}) == next "
                                           f"and ghost('drop_parent.arg2', Ref('TestWorker')) == worker)"),
        # C05: cleanup of a node starts only after it was run, must not be run again, and all its children are done
        ("reverse_only_when_cleanup_ready", f"implies({CALLED('reverse_node')}, {ONCE('reverse_node')} and {FORWARD} and "
                                            f"ghost('reverse_node.saw.cleanup_ready.result') == True and "
                                            f"ghost('reverse_node.saw.should_run.result') == False and "
                                            f"ghost('reverse_node.saw.traverse_node.calls') == old({CALLS('traverse_node')}) + 1 and "
                                            f"ghost('reverse_node.arg1', {TN}) == next and "
                                            f"(len(old(next.objects)) == 0 or len(unexplored_nodes) == 0))"),
        ("drop_child_only_with_cleanup", f"implies({CALLED('drop_child')}, {ONCE('reverse_node')} and "
                                         f"ghost('drop_child.saw.cleanup_ready.result') == True and "
                                         f"ghost('drop_child.saw.should_run.result') == False and "
                                         f"ghost('drop_child.arg1', {TN}) == next)"),
        ("all_parents_released_before_cleanup", f"implies({CALLED('reverse_node')}, ghost('reverse_node.saw.drop_child.calls') == "
                                                f"old({CALLS('drop_child')}) + len(keys_of(old(next._setup_nodes))))"),
        # C02: the path stays a path: one pop, one push of an adjacent available node, or a reset to the root
        ("path_step_shape", f"{POPPED} or {PUSHED} or {RESET}"),
        ("push_parent_only_when_not_ready", f"implies({CALLED('pick_parent')}, {ONCE('pick_parent')} and {PUSHED} and "
                                            f"{LAST} in next._setup_nodes and ghost('pick_parent.saw.setup_ready.result') == False "
                                            f"and {NOT_CALLED('traverse_node')})"),
        ("push_child_only_after_run", f"implies({CALLED('pick_child')}, {ONCE('pick_child')} and {PUSHED} and {FORWARD} and "
                                      f"{LAST} in next._cleanup_nodes and ghost('pick_child.saw.cleanup_ready.result') == False "
                                      f"and ghost('pick_child.saw.should_run.result') == False and {ONCE('traverse_node')})"),
        ("pushed_is_picked", f"implies({PUSHED} and not {POPPED}, {CALLED('pick_parent')} or {CALLED('pick_child')})"),
        ("retry_pops_without_drop", f"implies({FORWARD} and {ONCE('traverse_node')} and ghost('should_run.result') == True, "
                                    f"{POPPED} and {NOT_CALLED('drop_child')} and {NOT_CALLED('reverse_node')} and flow == 'continue')"),
        ("edges_untouched", f"forall({TN}, lambda n: n._setup_nodes == old(n._setup_nodes) and n._cleanup_nodes == old(n._cleanup_nodes))"),
    ],
    frame=list(dict.fromkeys(TRAVERSE_NODE.frame + REVERSE_NODE.frame + ["EdgeRegister._registry"])),
    ghost_frame=[],
    props=["C01", "C02", "C05"],
    assumes=["extracted block: the surrounding loop is not part of this contract (see module docstring)",
             "traverse_node / reverse_node are used through call-site views (frame + names_kept, which is a proved "
             "postcondition of traverse_node); exceptions they raise propagate unchanged and are not part of the step",
             "the run policy (should_run) answers arbitrarily: the step is correct for every policy"],
)


# ---------------------------------------------------------------- the first statement of the loop body (C02)
ROOT_STEP = Contract(
    target=TARGET, name="TestGraph.traverse_object_trees#root_step",
    block=("root_step", if_with_test("len(traverse_path)")),
    params={"next": Ref("TestNode"), "worker": Ref("TestWorker"), "root": Ref("TestNode"),
            "traverse_path": Seq(Ref("TestNode"))},
    requires=wf_step("next") + [
        "root is not None",
        "len(traverse_path) >= 1 and traverse_path[len(traverse_path) - 1] == next and traverse_path[0] == root",
        # the loop guard, evaluated just before (nothing is written between the guard and this statement)
        "not root.is_cleanup_ready(worker)",
    ],
    overrides=STEP_OVERRIDES,
    stubs={"TestNode.bridged_form": (bridged_form_fn, "TestNode", STR, "property")},
    outputs={"previous": Ref("TestNode")},
    raises={},            # in particular: picking a child of the root can never fail while the root is not cleanup ready
    ensures=[
        ("deep_path_untouched", "implies(old(len(traverse_path)) > 1, flow == 'normal' and traverse_path == old(traverse_path) and "
                                f"previous == old(traverse_path)[old(len(traverse_path)) - 2] and {NOT_CALLED('pick_child')})"),
        ("at_root_picks_child", f"implies(old(len(traverse_path)) == 1, flow == 'continue' and {ONCE('pick_child')} and "
                                f"len(traverse_path) == 2 and traverse_path[0] == root and traverse_path[1] in root._cleanup_nodes)"),
    ],
    frame=["EdgeRegister._registry"],
    props=["C02"],
    assumes=["extracted block: the surrounding loop is not part of this contract (see module docstring)"],
)


# ---------------------------------------------------------------- object creation: the pre-step inherits ALL results (C10, C03)
def pre_node_results(fn):
    out = [s for s in ast.walk(fn) if isinstance(s, ast.Assign) and ast.unparse(s.targets[0]) == "pre_node.results"]
    return out[:1] if len(out) == 1 else []


PRE_NODE_RESULTS = Contract(
    target=f"{GRAPH}::TestGraph.traverse_terminal_node", name="TestGraph.traverse_terminal_node#pre_node_results",
    block=("pre_node_results", pre_node_results),
    params={"pre_node": Ref("TestNode"), "test_node": Ref("TestNode")},
    requires=["pre_node != test_node"],
    ensures=[
        # the number of results so far is what makes the identifier of the next execution distinct (uid suffix rN): the
        # configuration pre-step must count every earlier try of the installation, whatever its status
        ("pre_step_counts_every_earlier_try", "pre_node.results == test_node.results"),
        ("install_results_untouched", "test_node.results == old(test_node.results)"),
    ],
    frame=["TestNode.results"], props=["C10", "C03", "C02"],
    assumes=["extracted block: the statement of traverse_terminal_node that seeds the results of the configuration pre-step"],
)
