"""C19 (order independence): VMTunnel.connects_nodes (avocado_i2n/vmnet/tunnel.py).

The two nested side predicates are inlined; whether a node has an interface in / forwarded from an end site
(VMNode.check_interface with the netconfig's has_interface / can_add_interface) is an uninterpreted, state-independent
predicate of (node, netconfig, which test).  The properties left / right / left_net / right_net / left_params /
right_params of the tunnel are read from fields (their getters return the private attributes / derived parameters)."""
import z3
from pyvc.kinds import V, STR, INT, BOOL, Ref, Seq, NONE, VFunc, RefSort, const, fresh
from pyvc.contract import Contract
import contracts.schema as _schema

TUNNEL = "avocado_i2n/vmnet/tunnel.py"
_schema.SCHEMA.setdefault("VMNode", {"fields": {"name": STR}})
_schema.SCHEMA.setdefault("VMNetconfig", {"fields": {}})
_schema.SCHEMA["VMTunnel"] = {
    "fields": {"_left": Ref("VMNode"), "_right": Ref("VMNode"), "_left_net": Ref("VMNetconfig"), "_right_net": Ref("VMNetconfig"),
               "_left_params": Ref("Params"), "_right_params": Ref("Params")},
    "props": {},
}
for _p, _k in (("left", Ref("VMNode")), ("right", Ref("VMNode")), ("left_net", Ref("VMNetconfig")), ("right_net", Ref("VMNetconfig")),
               ("left_params", Ref("Params")), ("right_params", Ref("Params"))):
    _schema.SCHEMA["VMTunnel"]["props"][_p] = (
        lambda eng, st, o, node, _f="_" + _p, _kk=_k: iter([(st, eng.read_field(st, o, "VMTunnel", _f, _kk))]))

HAS_IFACE = z3.Function("node_has_interface", RefSort, RefSort, z3.StringSort(), z3.BoolSort())


def check_interface(eng, st, recv, args, kw, node):
    """node.check_interface(<netconfig>.<test>): an interface object or None; only its truth value is used"""
    cond = args[0]
    if not (isinstance(cond, VFunc) and cond.how == "bound"):
        raise NotImplementedError("check_interface with an unknown condition")
    yield st, V(BOOL, HAS_IFACE(recv.term, cond.recv.term, z3.StringVal(cond.name)))


def spec_has(eng, st, args, kw, node):
    yield st, V(BOOL, HAS_IFACE(args[0].term, args[1].term, args[2].term))


def side(which, n):
    net, par, end = f"self._{which}_net", f"self._{which}_params", f"self._{which}"
    return (f"({n} == {end} or ({net} is not None and has_iface({n}, {net}, 'has_interface')) or "
            f"({par}['vpnconn_lan_type'] == 'CUSTOM' and has_iface({n}, {net}, 'can_add_interface')))")


CONNECTS = Contract(
    target=f"{TUNNEL}::VMTunnel.connects_nodes",
    params={"self": Ref("VMTunnel"), "node1": Ref("VMNode"), "node2": Ref("VMNode")},
    requires=["self._left_params is not None and self._right_params is not None",
              "'vpnconn_lan_type' in self._left_params and 'vpnconn_lan_type' in self._right_params",
              # a custom (forwarded) end site always has a netconfig (set by the constructor)
              "implies(self._left_params['vpnconn_lan_type'] == 'CUSTOM', self._left_net is not None)",
              "implies(self._right_params['vpnconn_lan_type'] == 'CUSTOM', self._right_net is not None)"],
    overrides={"VMNode.check_interface": check_interface},
    extra_names={"has_iface": VFunc("handler", fn=spec_has, name="has_iface")},
    ensures=[
        ("connects_opposite_sides", f"result == (({side('left', 'node1')} and {side('right', 'node2')}) or "
                                    f"({side('right', 'node1')} and {side('left', 'node2')}))"),
    ],
    result_kind=BOOL, frame=[], props=["C19"],
    assumes=["interface membership tests are an uninterpreted predicate of (node, netconfig, test): the symmetric "
             "specification then gives order independence of the answer"],
)


# ---------------------------------------------------------------- the peer's view of an end point description (mirror table)
from pyvc.kinds import Map                                                         # noqa: E402

LL, LR, LP = "left_local", "left_remote", "left_peer"
PEER_VARIANT = Contract(
    target=f"{TUNNEL}::VMTunnel._get_peer_variant",
    params={"self": Ref("VMTunnel"), LL: Map(STR, STR), LR: Map(STR, STR), LP: Map(STR, STR)},
    requires=[f"'type' in {LL} and 'type' in {LR} and 'type' in {LP}"],
    ensures=[
        # each side's local network is the other side's remote network
        ("local_nic_becomes_remote_custom", f"((result[1]['type'] == 'custom' and result[1].get('nic', '') == {LL}.get('nic', 'lan_nic')) "
                                            f"if {LL}['type'] == 'nic' else True)"),
        ("internet_ip_becomes_external_ip", f"implies({LL}['type'] == 'internetip', result[1]['type'] == 'externalip')"),
        ("remote_custom_becomes_local", f"(((result[0]['type'] == 'custom') if {LL}['type'] == 'custom' else "
                                        f"(result[0]['type'] == 'nic' and result[0].get('nic', '') == {LR}.get('nic', 'lan_nic'))) "
                                        f"if {LR}['type'] == 'custom' else True)"),
        ("external_ip_becomes_internet_ip", f"implies({LR}['type'] == 'externalip', result[0]['type'] == 'internetip')"),
        # peer addresses point at each other: the peer of a (dynamic) ip peer is addressed by ip on the same nic
        ("peer_is_addressed_by_ip", f"result[2]['type'] == 'ip' and ((result[2].get('nic', '') == {LP}.get('nic', 'internet_nic')) "
                                    f"if {LP}['type'] in ['ip', 'dynip'] else True)"),
        ("defaults_otherwise", f"implies({LL}['type'] not in ['nic', 'internetip'], result[1]['type'] == 'custom') and "
                               f"implies({LR}['type'] not in ['custom', 'externalip'], result[0]['type'] == 'nic')"),
    ],
    frame=[], props=["C19"],
)


# ---------------------------------------------------------------- authentication parameters: pre-shared-key identities are swapped
import ast                                                                        # noqa: E402


def auth_block(fn):
    found = [n for n in ast.walk(fn) if isinstance(n, ast.If) and ast.unparse(n.test) == "auth is None"]
    return found[:1] if len(found) == 1 else []


def key(kind, node):
    return f"params['vpnconn_psk_{kind}_' + name + '_' + {node}.name]"


LEFT_T = "('IP' if auth['left_id'] == '' else 'CUSTOM')"
RIGHT_T = "('IP' if auth['right_id'] == '' else 'CUSTOM')"
AUTH_PARAMS = Contract(
    target=f"{TUNNEL}::VMTunnel.__init__", name="VMTunnel.__init__#auth_params", block=("auth_params", auth_block),
    params={"auth": Map(STR, STR), "params": Ref("Params"), "name": STR, "node1": Ref("VMNode"), "node2": Ref("VMNode")},
    requires=["'type' in auth", "node1.name != node2.name",
              # keys of the two end points differ in their last component only: names do not contain each other as suffixes
              "not (name + '_' + node1.name).endswith('_' + node2.name) and not (name + '_' + node2.name).endswith('_' + node1.name)"],
    raises={"ValueError": "auth['type'] not in ['pubkey', 'psk']", "KeyError": None},
    ensures=[
        ("key_type_follows_auth", "params['vpnconn_key_type_' + name] == ('PUBLIC' if auth['type'] == 'pubkey' else 'PSK')"),
        # each side's own identity is the other side's foreign identity, value and type
        ("psk_identities_are_swapped", f"implies(auth['type'] == 'psk', "
                                       f"{key('own_id', 'node1')} == auth['left_id'] and {key('foreign_id', 'node2')} == auth['left_id'] and "
                                       f"{key('own_id', 'node2')} == auth['right_id'] and {key('foreign_id', 'node1')} == auth['right_id'])"),
        ("psk_identity_types_are_swapped", f"implies(auth['type'] == 'psk', "
                                           f"{key('own_id_type', 'node1')} == {LEFT_T} and {key('foreign_id_type', 'node2')} == {LEFT_T} and "
                                           f"{key('own_id_type', 'node2')} == {RIGHT_T} and {key('foreign_id_type', 'node1')} == {RIGHT_T})"),
        ("shared_secret_is_common", "implies(auth['type'] == 'psk', params['vpnconn_psk_' + name] == auth['psk'])"),
    ],
    frame=["Params.p_has", "Params.p_val"], props=["C19"],
    assumes=["extracted block: the authentication branch of VMTunnel.__init__ (auth given as a dictionary; auth=None sets key type NONE)"],
)


# ---------------------------------------------------------------- the network / peer parameters of the two end points mirror each other
# VMNode.interfaces / .params / .name, VMInterface.netconfig / .ip and VMNetconfig.net_ip / .netmask are properties whose
# getters / setters read and write one private attribute each: modelled as plain fields (own class names, so that the C18
# schema of VMNetconfig is not touched).
from pyvc.kinds import NULL                                                        # noqa: E402

_schema.SCHEMA["TunnelNet"] = {"fields": {"net_ip": STR, "netmask": STR}}
_schema.SCHEMA["TunnelIface"] = {"fields": {"netconfig": Ref("TunnelNet"), "ip": STR}, "nonnull": ["netconfig"]}
_schema.SCHEMA["VMNode"]["fields"].update({"interfaces": Map(STR, Ref("TunnelIface")), "params": Ref("Params")})
_schema.SCHEMA["VMNode"].setdefault("nonnull", [])
_schema.SCHEMA["VMNode"]["nonnull"] = sorted(set(_schema.SCHEMA["VMNode"]["nonnull"]) | {"params"})


def new_netconfig(eng, st, args, kw, node):
    """VMNetconfig(): a new netconfig object, different from every object reachable before"""
    r = fresh(Ref("TunnelNet"), "new_netconfig")
    st.assume(r.term != NULL)
    n = st.ghost.get("netconfig.created") or V(INT, z3.Const("netconfig.created0", z3.IntSort()))
    st.ghost["netconfig.created"] = V(INT, n.term + 1)
    yield st, r


def init_stmts(fn, first, last):
    """top-level statements of __init__ from the one whose source starts with `first` to the one starting with `last`"""
    texts = [ast.unparse(s) for s in fn.body]
    a = [i for i, t in enumerate(texts) if t.startswith(first)]
    b = [i for i, t in enumerate(texts) if t.startswith(last)]
    if len(a) < 1 or len(b) < 1 or a[0] > b[-1]:
        return []
    return fn.body[a[0]:b[-1] + 1]


def if_on(test_prefix):
    def select(fn):
        found = [s for s in fn.body if isinstance(s, ast.If) and ast.unparse(s.test).startswith(test_prefix)]
        return found if len(found) == 1 else []
    return select


def P(kind, node):
    return f"params['vpnconn_{kind}_' + name + '_' + {node}.name]"


def HAS(kind, node):
    return f"('vpnconn_{kind}_' + name + '_' + {node}.name) in params"


DISTINCT_ENDS = ["node1.name != node2.name",
                 "not (name + '_' + node1.name).endswith('_' + node2.name) and not (name + '_' + node2.name).endswith('_' + node1.name)"]
TYPED = "'type' in local1 and 'type' in remote1 and 'type' in peer1"
NODE_WF = ["node1 != node2", "node1.params != node2.params", "params != node1.params and params != node2.params"]
LAN1 = "node1.interfaces[node1.params[local1.get('nic', 'lan_nic')]].netconfig"
LAN2 = "node2.interfaces[node2.params[remote1.get('nic', 'lan_nic')]].netconfig"

def WHEN(cond, body):
    """implication whose consequence is only evaluated when the condition holds (it dereferences optional objects)"""
    return f"(({body}) if ({cond}) else True)"


LOCAL_NET = Contract(
    target=f"{TUNNEL}::VMTunnel.__init__", name="VMTunnel.__init__#local_net", block=("local_net", if_on("local1['type'] == 'nic'")),
    params={"local1": Map(STR, STR), "params": Ref("Params"), "name": STR, "node1": Ref("VMNode"), "node2": Ref("VMNode")},
    requires=["'type' in local1"] + DISTINCT_ENDS + NODE_WF,
    outputs={"netconfig1": Ref("TunnelNet")},
    overrides={"VMNetconfig": new_netconfig},
    extra_names={"VMNetconfig": VFunc("handler", fn=new_netconfig, name="VMNetconfig")},
    # unsupported types are rejected
    raises={"ValueError": "local1['type'] not in ['nic', 'internetip', 'custom']", "KeyError": None, "ParamNotFound": None,
            "AttributeError": None},
    ensures=[
        # each side's local network is the other side's remote network
        ("left_lan_is_the_right_sides_remote_net",
         WHEN("local1['type'] == 'nic'", f"netconfig1 == {LAN1} and {P('lan_net', 'node1')} == {LAN1}.net_ip and "
              f"{P('remote_net', 'node2')} == {LAN1}.net_ip and {P('lan_netmask', 'node1')} == {LAN1}.netmask and "
              f"{P('remote_netmask', 'node2')} == {LAN1}.netmask")),
        ("point_has_no_lan", "implies(local1['type'] == 'internetip', netconfig1 is None)"),
        ("custom_lan_as_given", WHEN("local1['type'] == 'custom'",
                                     f"netconfig1 is not None and forall(Ref('TunnelNet'), lambda n: implies(n == netconfig1, "
                                     f"n.net_ip == local1['lnet'] and n.netmask == local1['lmask'])) and "
                                     f"{P('lan_net', 'node1')} == local1['lnet'] and "
                                     f"{P('lan_netmask', 'node1')} == local1['lmask']")),
        ("existing_netconfigs_untouched", f"forall(Ref('TunnelNet'), lambda n: implies(n != netconfig1 or local1['type'] != 'custom', "
                                          "n.net_ip == old(n.net_ip) and n.netmask == old(n.netmask)))"),
    ],
    frame=["Params.p_has", "Params.p_val", "TunnelNet.net_ip", "TunnelNet.netmask"], props=["C19"],
    assumes=["extracted block: the left local type branch of VMTunnel.__init__",
             "the properties of VMNode / VMInterface / VMNetconfig read and write one private attribute each (modelled as fields); "
             "VMNetconfig() returns a new object"],
)

REMOTE_NET = Contract(
    target=f"{TUNNEL}::VMTunnel.__init__", name="VMTunnel.__init__#remote_net", block=("remote_net", if_on("remote1['type'] == 'custom'")),
    params={"local1": Map(STR, STR), "remote1": Map(STR, STR), "params": Ref("Params"), "name": STR,
            "node1": Ref("VMNode"), "node2": Ref("VMNode")},
    requires=["'type' in local1 and 'type' in remote1"] + DISTINCT_ENDS + NODE_WF,
    outputs={"netconfig2": Ref("TunnelNet")},
    overrides={"VMNetconfig": new_netconfig},
    extra_names={"VMNetconfig": VFunc("handler", fn=new_netconfig, name="VMNetconfig")},
    raises={"ValueError": "remote1['type'] not in ['custom', 'externalip', 'modeconfig']", "KeyError": None, "ParamNotFound": None,
            "AttributeError": None},
    ensures=[
        ("right_lan_is_the_left_sides_remote_net",
         WHEN("remote1['type'] == 'custom'", f"netconfig2 is not None and forall(Ref('TunnelNet'), lambda n: implies(n == netconfig2, "
              f"{P('lan_net', 'node2')} == n.net_ip and {P('remote_net', 'node1')} == n.net_ip and "
              f"{P('lan_netmask', 'node2')} == n.netmask and {P('remote_netmask', 'node1')} == n.netmask))")),
        ("right_lan_of_an_existing_net", WHEN("remote1['type'] == 'custom' and local1['type'] != 'custom'", f"netconfig2 == {LAN2}")),
        ("right_lan_of_a_forwarded_net", WHEN("remote1['type'] == 'custom' and local1['type'] == 'custom'",
                                              "forall(Ref('TunnelNet'), lambda n: implies(n == netconfig2, n.net_ip == local1['rnet'] and n.netmask == local1['rmask']))")),
        ("point_has_no_lan", "implies(remote1['type'] != 'custom', netconfig2 is None)"),
        ("modeconfig_address_passed_on", WHEN("remote1['type'] == 'modeconfig'", f"{P('remote_modeconfig_ip', 'node1')} == remote1['modeconfig_ip']")),
    ],
    frame=["Params.p_has", "Params.p_val", "TunnelNet.net_ip", "TunnelNet.netmask"], props=["C19"],
    assumes=["extracted block: the left remote type branch of VMTunnel.__init__", "properties modelled as fields (see #local_net)"],
)


def peer_block(fn):
    return init_stmts(fn, "params['vpnconn_peer_type_%s_%s' % (name, node1.name)]", "params['vpnconn_activation_%s_%s' % (name, node2.name)]")


IFACE2 = "node2.interfaces[node2.params[peer1.get('nic', 'internet_nic')]]"
IFACE1 = "node1.interfaces[node1.params[peer2.get('nic', 'internet_nic')]]"
PEER_PARAMS = Contract(
    target=f"{TUNNEL}::VMTunnel.__init__", name="VMTunnel.__init__#peer_params", block=("peer_params", peer_block),
    params={"peer1": Map(STR, STR), "peer2": Map(STR, STR), "params": Ref("Params"), "name": STR,
            "node1": Ref("VMNode"), "node2": Ref("VMNode")},
    requires=["'type' in peer1 and 'type' in peer2"] + DISTINCT_ENDS + NODE_WF,
    outputs={"interface1": Ref("TunnelIface"), "interface2": Ref("TunnelIface")},
    raises={"ValueError": "peer1['type'] not in ['ip', 'dynip']", "KeyError": None, "ParamNotFound": None, "AttributeError": None},
    ensures=[
        # peer addresses point at each other
        ("end_point_interfaces", f"interface2 == {IFACE2} and interface1 == {IFACE1}"),
        ("right_peer_is_the_left_end_point", f"{P('peer_ip', 'node2')} == interface1.ip and {P('activation', 'node2')} == 'ALWAYS'"),
        ("left_peer_is_the_right_end_point", WHEN("peer1['type'] == 'ip'", f"{P('peer_ip', 'node1')} == interface2.ip and "
                                                  f"{P('activation', 'node1')} == 'ALWAYS'")),
        ("road_warrior_is_waited_for", WHEN("peer1['type'] == 'dynip'", f"{P('activation', 'node1')} == 'PASSIVE' and "
                                            f"({HAS('peer_ip', 'node1')}) == old({HAS('peer_ip', 'node1')})")),
        ("peer_types_recorded", f"{P('peer_type', 'node1')} == peer1['type'].upper() and {P('peer_type', 'node2')} == peer2['type'].upper()"),
    ],
    frame=["Params.p_has", "Params.p_val"], props=["C19"],
    assumes=["extracted block: the road warrior (peer) statements of VMTunnel.__init__", "properties modelled as fields (see #local_net)"],
)


def side_block(fn):
    return init_stmts(fn, "params['vpnconn_%s_%s' % (name, node1.name)]", "params['vpnconn_remote_type_%s_%s' % (name, node2.name)]")


SIDE_PARAMS = Contract(
    target=f"{TUNNEL}::VMTunnel.__init__", name="VMTunnel.__init__#side_params", block=("side_params", side_block),
    params={"local1": Map(STR, STR), "remote1": Map(STR, STR), "local2": Map(STR, STR), "remote2": Map(STR, STR),
            "params": Ref("Params"), "name": STR, "node1": Ref("VMNode"), "node2": Ref("VMNode")},
    requires=["'type' in local1 and 'type' in remote1 and 'type' in local2 and 'type' in remote2"] + DISTINCT_ENDS + NODE_WF,
    raises={},
    ensures=[
        ("left_and_right", f"params['vpn_side_' + name + '_' + node1.name] == 'left' and params['vpn_side_' + name + '_' + node2.name] == 'right'"),
        # the right hand side gets the derived (mirrored) configuration, the left one what was given
        ("types_per_side", f"{P('lan_type', 'node1')} == local1['type'].upper() and {P('lan_type', 'node2')} == local2['type'].upper() and "
                           f"{P('remote_type', 'node1')} == remote1['type'].upper() and {P('remote_type', 'node2')} == remote2['type'].upper()"),
    ],
    frame=["Params.p_has", "Params.p_val"], props=["C19"],
    assumes=["extracted block: the main parameter statements of VMTunnel.__init__"],
)
