"""C19 (order independence): VMTunnel.connects_nodes (avocado_i2n/vmnet/tunnel.py).

The two nested side predicates are inlined; whether a node has an interface in / forwarded from an end site
(VMNode.check_interface with the netconfig's has_interface / can_add_interface) is an uninterpreted, state-independent
predicate of (node, netconfig, which test).  The properties left / right / left_net / right_net / left_params /
right_params of the tunnel are read from fields (their getters return the private attributes / derived parameters)."""
import z3
from pyvc.kinds import V, STR, INT, BOOL, Ref, Seq, NONE, VFunc, RefSort, const, fresh
from pyvc.contract import Contract
import contracts.schema as _schema

TUNNEL = "avocado_i2n/vmnet/tunnel.py"
_schema.SCHEMA.setdefault("VMNode", {"fields": {"name": STR}})
_schema.SCHEMA.setdefault("VMNetconfig", {"fields": {}})
_schema.SCHEMA["VMTunnel"] = {
    "fields": {"_left": Ref("VMNode"), "_right": Ref("VMNode"), "_left_net": Ref("VMNetconfig"), "_right_net": Ref("VMNetconfig"),
               "_left_params": Ref("Params"), "_right_params": Ref("Params")},
    "props": {},
}
for _p, _k in (("left", Ref("VMNode")), ("right", Ref("VMNode")), ("left_net", Ref("VMNetconfig")), ("right_net", Ref("VMNetconfig")),
               ("left_params", Ref("Params")), ("right_params", Ref("Params"))):
    _schema.SCHEMA["VMTunnel"]["props"][_p] = (
        lambda eng, st, o, node, _f="_" + _p, _kk=_k: iter([(st, eng.read_field(st, o, "VMTunnel", _f, _kk))]))

HAS_IFACE = z3.Function("node_has_interface", RefSort, RefSort, z3.StringSort(), z3.BoolSort())


def check_interface(eng, st, recv, args, kw, node):
    """node.check_interface(<netconfig>.<test>): an interface object or None; only its truth value is used"""
    cond = args[0]
    if not (isinstance(cond, VFunc) and cond.how == "bound"):
        raise NotImplementedError("check_interface with an unknown condition")
    yield st, V(BOOL, HAS_IFACE(recv.term, cond.recv.term, z3.StringVal(cond.name)))


def spec_has(eng, st, args, kw, node):
    yield st, V(BOOL, HAS_IFACE(args[0].term, args[1].term, args[2].term))


def side(which, n):
    net, par, end = f"self._{which}_net", f"self._{which}_params", f"self._{which}"
    return (f"({n} == {end} or ({net} is not None and has_iface({n}, {net}, 'has_interface')) or "
            f"({par}['vpnconn_lan_type'] == 'CUSTOM' and has_iface({n}, {net}, 'can_add_interface')))")


CONNECTS = Contract(
    target=f"{TUNNEL}::VMTunnel.connects_nodes",
    params={"self": Ref("VMTunnel"), "node1": Ref("VMNode"), "node2": Ref("VMNode")},
    requires=["self._left_params is not None and self._right_params is not None",
              "'vpnconn_lan_type' in self._left_params and 'vpnconn_lan_type' in self._right_params",
              # a custom (forwarded) end site always has a netconfig (set by the constructor)
              "implies(self._left_params['vpnconn_lan_type'] == 'CUSTOM', self._left_net is not None)",
              "implies(self._right_params['vpnconn_lan_type'] == 'CUSTOM', self._right_net is not None)"],
    overrides={"VMNode.check_interface": check_interface},
    extra_names={"has_iface": VFunc("handler", fn=spec_has, name="has_iface")},
    ensures=[
        ("connects_opposite_sides", f"result == (({side('left', 'node1')} and {side('right', 'node2')}) or "
                                    f"({side('right', 'node1')} and {side('left', 'node2')}))"),
    ],
    result_kind=BOOL, frame=[], props=["C19"],
    assumes=["interface membership tests are an uninterpreted predicate of (node, netconfig, test): the symmetric "
             "specification then gives order independence of the answer"],
)


# ---------------------------------------------------------------- the peer's view of an end point description (mirror table)
from pyvc.kinds import Map                                                         # noqa: E402

LL, LR, LP = "left_local", "left_remote", "left_peer"
PEER_VARIANT = Contract(
    target=f"{TUNNEL}::VMTunnel._get_peer_variant",
    params={"self": Ref("VMTunnel"), LL: Map(STR, STR), LR: Map(STR, STR), LP: Map(STR, STR)},
    requires=[f"'type' in {LL} and 'type' in {LR} and 'type' in {LP}"],
    ensures=[
        # each side's local network is the other side's remote network
        ("local_nic_becomes_remote_custom", f"((result[1]['type'] == 'custom' and result[1].get('nic', '') == {LL}.get('nic', 'lan_nic')) "
                                            f"if {LL}['type'] == 'nic' else True)"),
        ("internet_ip_becomes_external_ip", f"implies({LL}['type'] == 'internetip', result[1]['type'] == 'externalip')"),
        ("remote_custom_becomes_local", f"(((result[0]['type'] == 'custom') if {LL}['type'] == 'custom' else "
                                        f"(result[0]['type'] == 'nic' and result[0].get('nic', '') == {LR}.get('nic', 'lan_nic'))) "
                                        f"if {LR}['type'] == 'custom' else True)"),
        ("external_ip_becomes_internet_ip", f"implies({LR}['type'] == 'externalip', result[0]['type'] == 'internetip')"),
        # peer addresses point at each other: the peer of a (dynamic) ip peer is addressed by ip on the same nic
        ("peer_is_addressed_by_ip", f"result[2]['type'] == 'ip' and ((result[2].get('nic', '') == {LP}.get('nic', 'internet_nic')) "
                                    f"if {LP}['type'] in ['ip', 'dynip'] else True)"),
        ("defaults_otherwise", f"implies({LL}['type'] not in ['nic', 'internetip'], result[1]['type'] == 'custom') and "
                               f"implies({LR}['type'] not in ['custom', 'externalip'], result[0]['type'] == 'nic')"),
    ],
    frame=[], props=["C19"],
)


# ---------------------------------------------------------------- authentication parameters: pre-shared-key identities are swapped
import ast                                                                        # noqa: E402


def auth_block(fn):
    found = [n for n in ast.walk(fn) if isinstance(n, ast.If) and ast.unparse(n.test) == "auth is None"]
    return found[:1] if len(found) == 1 else []


def key(kind, node):
    return f"params['vpnconn_psk_{kind}_' + name + '_' + {node}.name]"


LEFT_T = "('IP' if auth['left_id'] == '' else 'CUSTOM')"
RIGHT_T = "('IP' if auth['right_id'] == '' else 'CUSTOM')"
AUTH_PARAMS = Contract(
    target=f"{TUNNEL}::VMTunnel.__init__", name="VMTunnel.__init__#auth_params", block=("auth_params", auth_block),
    params={"auth": Map(STR, STR), "params": Ref("Params"), "name": STR, "node1": Ref("VMNode"), "node2": Ref("VMNode")},
    requires=["'type' in auth", "node1.name != node2.name",
              # keys of the two end points differ in their last component only: names do not contain each other as suffixes
              "not (name + '_' + node1.name).endswith('_' + node2.name) and not (name + '_' + node2.name).endswith('_' + node1.name)"],
    raises={"ValueError": "auth['type'] not in ['pubkey', 'psk']", "KeyError": None},
    ensures=[
        ("key_type_follows_auth", "params['vpnconn_key_type_' + name] == ('PUBLIC' if auth['type'] == 'pubkey' else 'PSK')"),
        # each side's own identity is the other side's foreign identity, value and type
        ("psk_identities_are_swapped", f"implies(auth['type'] == 'psk', "
                                       f"{key('own_id', 'node1')} == auth['left_id'] and {key('foreign_id', 'node2')} == auth['left_id'] and "
                                       f"{key('own_id', 'node2')} == auth['right_id'] and {key('foreign_id', 'node1')} == auth['right_id'])"),
        ("psk_identity_types_are_swapped", f"implies(auth['type'] == 'psk', "
                                           f"{key('own_id_type', 'node1')} == {LEFT_T} and {key('foreign_id_type', 'node2')} == {LEFT_T} and "
                                           f"{key('own_id_type', 'node2')} == {RIGHT_T} and {key('foreign_id_type', 'node1')} == {RIGHT_T})"),
        ("shared_secret_is_common", "implies(auth['type'] == 'psk', params['vpnconn_psk_' + name] == auth['psk'])"),
    ],
    frame=["Params.p_has", "Params.p_val"], props=["C19"],
    assumes=["extracted block: the authentication branch of VMTunnel.__init__ (auth given as a dictionary; auth=None sets key type NONE)"],
)
