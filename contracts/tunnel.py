"""C19 (order independence): VMTunnel.connects_nodes (avocado_i2n/vmnet/tunnel.py).

The two nested side predicates are inlined; whether a node has an interface in / forwarded from an end site
(VMNode.check_interface with the netconfig's has_interface / can_add_interface) is an uninterpreted, state-independent
predicate of (node, netconfig, which test).  The properties left / right / left_net / right_net / left_params /
right_params of the tunnel are read from fields (their getters return the private attributes / derived parameters)."""
import z3
from pyvc.kinds import V, STR, INT, BOOL, Ref, Seq, NONE, VFunc, RefSort, const, fresh
from pyvc.contract import Contract
import contracts.schema as _schema

TUNNEL = "avocado_i2n/vmnet/tunnel.py"
_schema.SCHEMA.setdefault("VMNode", {"fields": {"name": STR}})
_schema.SCHEMA.setdefault("VMNetconfig", {"fields": {}})
_schema.SCHEMA["VMTunnel"] = {
    "fields": {"_left": Ref("VMNode"), "_right": Ref("VMNode"), "_left_net": Ref("VMNetconfig"), "_right_net": Ref("VMNetconfig"),
               "_left_params": Ref("Params"), "_right_params": Ref("Params")},
    "props": {},
}
for _p, _k in (("left", Ref("VMNode")), ("right", Ref("VMNode")), ("left_net", Ref("VMNetconfig")), ("right_net", Ref("VMNetconfig")),
               ("left_params", Ref("Params")), ("right_params", Ref("Params"))):
    _schema.SCHEMA["VMTunnel"]["props"][_p] = (
        lambda eng, st, o, node, _f="_" + _p, _kk=_k: iter([(st, eng.read_field(st, o, "VMTunnel", _f, _kk))]))

HAS_IFACE = z3.Function("node_has_interface", RefSort, RefSort, z3.StringSort(), z3.BoolSort())


def check_interface(eng, st, recv, args, kw, node):
    """node.check_interface(<netconfig>.<test>): an interface object or None; only its truth value is used"""
    cond = args[0]
    if not (isinstance(cond, VFunc) and cond.how == "bound"):
        raise NotImplementedError("check_interface with an unknown condition")
    yield st, V(BOOL, HAS_IFACE(recv.term, cond.recv.term, z3.StringVal(cond.name)))


def spec_has(eng, st, args, kw, node):
    yield st, V(BOOL, HAS_IFACE(args[0].term, args[1].term, args[2].term))


def side(which, n):
    net, par, end = f"self._{which}_net", f"self._{which}_params", f"self._{which}"
    return (f"({n} == {end} or ({net} is not None and has_iface({n}, {net}, 'has_interface')) or "
            f"({par}['vpnconn_lan_type'] == 'CUSTOM' and has_iface({n}, {net}, 'can_add_interface')))")


CONNECTS = Contract(
    target=f"{TUNNEL}::VMTunnel.connects_nodes",
    params={"self": Ref("VMTunnel"), "node1": Ref("VMNode"), "node2": Ref("VMNode")},
    requires=["self._left_params is not None and self._right_params is not None",
              "'vpnconn_lan_type' in self._left_params and 'vpnconn_lan_type' in self._right_params",
              # a custom (forwarded) end site always has a netconfig (set by the constructor)
              "implies(self._left_params['vpnconn_lan_type'] == 'CUSTOM', self._left_net is not None)",
              "implies(self._right_params['vpnconn_lan_type'] == 'CUSTOM', self._right_net is not None)"],
    overrides={"VMNode.check_interface": check_interface},
    extra_names={"has_iface": VFunc("handler", fn=spec_has, name="has_iface")},
    ensures=[
        ("connects_opposite_sides", f"result == (({side('left', 'node1')} and {side('right', 'node2')}) or "
                                    f"({side('right', 'node1')} and {side('left', 'node2')}))"),
    ],
    result_kind=BOOL, frame=[], props=["C19"],
    assumes=["interface membership tests are an uninterpreted predicate of (node, netconfig, test): the symmetric "
             "specification then gives order independence of the answer"],
)


# ---------------------------------------------------------------- the peer's view of an end point description (mirror table)
from pyvc.kinds import Map                                                         # noqa: E402

LL, LR, LP = "left_local", "left_remote", "left_peer"
PEER_VARIANT = Contract(
    target=f"{TUNNEL}::VMTunnel._get_peer_variant",
    params={"self": Ref("VMTunnel"), LL: Map(STR, STR), LR: Map(STR, STR), LP: Map(STR, STR)},
    requires=[f"'type' in {LL} and 'type' in {LR} and 'type' in {LP}"],
    ensures=[
        # each side's local network is the other side's remote network
        ("local_nic_becomes_remote_custom", f"((result[1]['type'] == 'custom' and result[1].get('nic', '') == {LL}.get('nic', 'lan_nic')) "
                                            f"if {LL}['type'] == 'nic' else True)"),
        ("internet_ip_becomes_external_ip", f"implies({LL}['type'] == 'internetip', result[1]['type'] == 'externalip')"),
        ("remote_custom_becomes_local", f"(((result[0]['type'] == 'custom') if {LL}['type'] == 'custom' else "
                                        f"(result[0]['type'] == 'nic' and result[0].get('nic', '') == {LR}.get('nic', 'lan_nic'))) "
                                        f"if {LR}['type'] == 'custom' else True)"),
        ("external_ip_becomes_internet_ip", f"implies({LR}['type'] == 'externalip', result[0]['type'] == 'internetip')"),
        # peer addresses point at each other: the peer of a (dynamic) ip peer is addressed by ip on the same nic
        ("peer_is_addressed_by_ip", f"result[2]['type'] == 'ip' and ((result[2].get('nic', '') == {LP}.get('nic', 'internet_nic')) "
                                    f"if {LP}['type'] in ['ip', 'dynip'] else True)"),
        ("defaults_otherwise", f"implies({LL}['type'] not in ['nic', 'internetip'], result[1]['type'] == 'custom') and "
                               f"implies({LR}['type'] not in ['custom', 'externalip'], result[0]['type'] == 'nic')"),
    ],
    frame=[], props=["C19"],
)
