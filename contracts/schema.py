"""Schemas (field kinds) and trusted models of the repository's classes and their dependencies.

Everything in this file is part of the trusted base: it states how the data of the real classes is
represented in SMT and what the external dependencies (virttest Params, ...) are assumed to do.
"""
import z3

from pyvc.kinds import safe_forall
from pyvc.kinds import (V, NONE, VNone, VTuple, VList, VDict, VFunc, VClass, VModule, INT, BOOL, STR, REAL, Ref, Seq,
                        SetK, Map, Arr, Opt, PyKind, RefSort, NULL, const, concrete, fresh, fresh_name)
from pyvc.engine import Untranslatable
from pyvc.models import str_is_int, str_int, int_str, str_wsplit, str_split, str_is_float, str_float

POLICY = PyKind("policy")

P_HAS = Arr(STR, BOOL)
P_VAL = Arr(STR, STR)

SCHEMA = {
    "Params": {
        "fields": {"p_has": P_HAS, "p_val": P_VAL},
        "methods": {}, "props": {},
    },
    "Result": {   # a result dictionary {"name":..., "status":..., "time_elapsed":...}
        "fields": {"r_name": STR, "r_status": STR, "r_time": STR, "r_uid": STR},
        "methods": {}, "props": {},
    },
    "EdgeRegister": {
        "fields": {"_registry": Map(STR, Map(STR, INT))},
    },
    "TestEnvironment": {"fields": {"id": STR}},
    "TestSwarm": {"bases": ["TestEnvironment"], "fields": {"workers": Seq(Ref("TestWorker"))}},
    "TestWorker": {
        "bases": ["TestEnvironment"],
        "fields": {"net": Ref("NetObject"), "swarm_id": STR, "spawner": Ref("Spawner")},
    },
    "Spawner": {"fields": {}},
    "TestObject": {
        "fields": {"suffix": STR, "_long_suffix": STR, "key": STR, "_params_cache": Ref("Params"),
                   "composites": Seq(Ref("TestObject")), "components": Seq(Ref("TestObject")),
                   "current_state": STR, "restrs": Map(STR, STR), "dict_index": INT},
    },
    "NetObject": {"bases": ["TestObject"], "fields": {}},
    "VMObject": {"bases": ["TestObject"], "fields": {}},
    "ImageObject": {"bases": ["TestObject"], "fields": {}},
    "TestNode": {
        "fields": {
            "prefix": STR, "_params_cache": Ref("Params"),
            "started_worker": Ref("TestWorker"), "finished_worker": Ref("TestWorker"),
            "_bridged_nodes": Seq(Ref("TestNode")), "_cloned_nodes": Seq(Ref("TestNode")),
            "incompatible_workers": SetK(STR), "objects": Seq(Ref("TestObject")),
            "results": Seq(Ref("Result")),
            "_setup_nodes": Map(Ref("TestNode"), SetK(Ref("TestObject"))),
            "_cleanup_nodes": Map(Ref("TestNode"), SetK(Ref("TestObject"))),
            "_picked_by_setup_nodes": Ref("EdgeRegister"), "_picked_by_cleanup_nodes": Ref("EdgeRegister"),
            "_dropped_setup_nodes": Ref("EdgeRegister"), "_dropped_cleanup_nodes": Ref("EdgeRegister"),
            "restrs": Map(STR, STR),
            "should_run": POLICY, "should_clean": POLICY, "should_rerun": POLICY,
        },
    },
}


# ---------------------------------------------------------------------------- Params (trusted model)
def _p(eng, st, p):
    has = eng.read_field(st, p, "Params", "p_has", P_HAS).term
    val = eng.read_field(st, p, "Params", "p_val", P_VAL).term
    return has, val


def _key(eng, k, st):
    if isinstance(k, V) and k.kind == STR:
        ok, c = concrete(k)
        if ok:
            eng.accessed_param_keys.add(c)
            return z3.StringVal(c)
        eng.accessed_key_terms.append(k.term)
        return k.term
    raise Untranslatable(f"non-string Params key {k!r}")


def _as_param_str(eng, v, st):
    """Values stored into Params: strings as they are, integers through int_str (trusted rendering)."""
    if isinstance(v, V):
        if v.kind == STR:
            return v.term
        if v.kind == INT:
            ok, c = concrete(v)
            return z3.StringVal(str(c)) if ok else int_str(v.term)
        if v.kind == BOOL:
            return z3.If(v.term, z3.StringVal("True"), z3.StringVal("False"))
    if isinstance(v, VNone):
        return z3.StringVal("None")
    f = fresh(STR, "pval")
    return f.term


def params_getitem(eng, st, p, args, kw, node):
    has, val = _p(eng, st, p)
    k = _key(eng, args[0], st)
    for st1, ok in eng.fork(st, z3.Select(has, k), f"params[{args[0].term}]"):
        if ok:
            yield st1, V(STR, z3.Select(val, k))
        else:
            eng.raise_exc(st1, "ParamNotFound", node)


def params_get(eng, st, p, args, kw, node):
    has, val = _p(eng, st, p)
    k = _key(eng, args[0], st)
    dflt = args[1] if len(args) > 1 else kw.get("default", NONE)
    for st1, ok in eng.fork(st, z3.Select(has, k), f"params.get({args[0].term})"):
        if ok:
            yield st1, V(STR, z3.Select(val, k))
        else:
            yield st1, dflt


def params_setdefault(eng, st, p, args, kw, node):
    """dict.setdefault: the present value, else the default is stored and returned"""
    has, val = _p(eng, st, p)
    k = _key(eng, args[0], st)
    dflt = args[1] if len(args) > 1 else NONE
    for st1, ok in eng.fork(st, z3.Select(has, k), f"params.setdefault({args[0].term})"):
        if ok:
            yield st1, V(STR, z3.Select(val, k))
        else:
            for st2, _ in params_setitem(eng, st1, p, [args[0], dflt], {}, node):
                yield st2, dflt


def params_contains(eng, st, p, args, kw, node):
    has, val = _p(eng, st, p)
    yield st, V(BOOL, z3.Select(has, _key(eng, args[0], st)))


def params_setitem(eng, st, p, args, kw, node):
    has, val = _p(eng, st, p)
    k = _key(eng, args[0], st)
    v = _as_param_str(eng, args[1], st)
    eng.write_field(st, p, "Params", "p_has", P_HAS, V(P_HAS, z3.Store(has, k, z3.BoolVal(True))))
    eng.write_field(st, p, "Params", "p_val", P_VAL, V(P_VAL, z3.Store(val, k, v)))
    if p.term.get_id() not in st.fresh_refs:
        bump_params_version(st)
    yield st, NONE


def params_delitem(eng, st, p, args, kw, node):
    has, val = _p(eng, st, p)
    k = _key(eng, args[0], st)
    for st1, ok in eng.fork(st, z3.Select(has, k), "del params[k]"):
        if ok:
            eng.write_field(st1, p, "Params", "p_has", P_HAS, V(P_HAS, z3.Store(has, k, z3.BoolVal(False))))
            if p.term.get_id() not in st1.fresh_refs:
                bump_params_version(st1)
            yield st1, NONE
        else:
            eng.raise_exc(st1, "KeyError", node)


def params_copy(eng, st, p, args, kw, node):
    has, val = _p(eng, st, p)
    r = eng.new_object(st, "Params", "pcopy")
    eng.write_field(st, r, "Params", "p_has", P_HAS, V(P_HAS, has))
    eng.write_field(st, r, "Params", "p_val", P_VAL, V(P_VAL, val))
    yield st, r


def params_update(eng, st, p, args, kw, node):
    o = args[0]
    if isinstance(o, VDict):
        for k, v in o.items.items():
            if isinstance(k, tuple):
                k, v = v
            else:
                k = const(k)
            for _ in params_setitem(eng, st, p, [k, v], {}, node):
                pass
        yield st, NONE
        return
    if isinstance(o, V) and isinstance(o.kind, Ref) and o.kind.cls == "Params":
        has, val = _p(eng, st, p)
        has2, val2 = _p(eng, st, o)
        k = z3.Const(fresh_name("k"), z3.StringSort())
        nh = z3.Lambda([k], z3.Or(z3.Select(has, k), z3.Select(has2, k)))
        nv = z3.Lambda([k], z3.If(z3.Select(has2, k), z3.Select(val2, k), z3.Select(val, k)))
        eng.write_field(st, p, "Params", "p_has", P_HAS, V(P_HAS, nh))
        eng.write_field(st, p, "Params", "p_val", P_VAL, V(P_VAL, nv))
        if p.term.get_id() not in st.fresh_refs:
            bump_params_version(st)
        yield st, NONE
        return
    raise Untranslatable(f"Params.update with {o!r}", node)


def params_get_numeric(eng, st, p, args, kw, node):
    has, val = _p(eng, st, p)
    k = _key(eng, args[0], st)
    okk, ck = concrete(args[0])
    if okk:
        eng.numeric_param_keys.add(ck)
    dflt = args[1] if len(args) > 1 else kw.get("default", const(0))
    target = args[2] if len(args) > 2 else kw.get("target_type")
    is_float = isinstance(target, VFunc) and target.name == "float"
    for st1, ok in eng.fork(st, z3.Select(has, k), f"params.get_numeric({args[0].term})"):
        if ok:
            s = z3.Select(val, k)
            if is_float:
                for st2, isn in eng.fork(st1, str_is_float(s), "float(param)"):
                    if isn:
                        yield st2, V(REAL, str_float(s))
                    else:
                        eng.raise_exc(st2, "ValueError", node)
            else:
                for st2, isn in eng.fork(st1, str_is_int(s), "int(param)"):
                    if isn:
                        yield st2, V(INT, str_int(s))
                    else:
                        eng.raise_exc(st2, "ValueError", node)
        else:
            if isinstance(dflt, V) and dflt.kind == REAL and not is_float:
                yield from eng.models.bi_int(eng, st1, [dflt], {}, node)
            else:
                yield st1, dflt


YES = ("yes", "on", "true")
NO = ("no", "off", "false")


def params_get_boolean(eng, st, p, args, kw, node):
    has, val = _p(eng, st, p)
    k = _key(eng, args[0], st)
    dflt = args[1] if len(args) > 1 else kw.get("default", const(False))
    for st1, ok in eng.fork(st, z3.Select(has, k), f"params.get_boolean({args[0].term})"):
        if ok:
            s = z3.Select(val, k)
            yes = z3.Or([s == z3.StringVal(x) for x in YES])
            no = z3.Or([s == z3.StringVal(x) for x in NO])
            for st2, y in eng.fork(st1, yes, "bool-yes"):
                if y:
                    yield st2, const(True)
                else:
                    for st3, n in eng.fork(st2, no, "bool-no"):
                        if n:
                            yield st3, const(False)
                        else:
                            eng.raise_exc(st3, "ValueError", node)
        else:
            yield st1, V(BOOL, eng.truth(dflt, st1))


def _split_value(eng, st, s, delimiter):
    """value.split(delimiter) of a parameter value as an abstract sequence of strings."""
    if delimiter is None or isinstance(delimiter, VNone):
        return V(Seq(STR), str_wsplit(s))
    return V(Seq(STR), str_split(s, delimiter.term))


def params_get_list(eng, st, p, args, kw, node):
    has, val = _p(eng, st, p)
    k = _key(eng, args[0], st)
    dflt = args[1] if len(args) > 1 else kw.get("default", const(""))
    delim = args[2] if len(args) > 2 else kw.get("delimiter", NONE)
    for st1, ok in eng.fork(st, z3.Select(has, k), f"params.get_list({args[0].term})"):
        if ok:
            s = z3.Select(val, k)
            for st2, nonempty in eng.fork(st1, z3.Length(s) > 0, "get_list-nonempty"):
                if nonempty:
                    r = _split_value(eng, st2, s, delim)
                    yield st2, r
                else:
                    yield st2, VList([])
        else:
            # default may be a string or a list
            if isinstance(dflt, (VList, VTuple)):
                if dflt.items:
                    # `if not param_string` is False for a non-empty list and .split fails on a list
                    eng.raise_exc(st1, "AttributeError", node)
                else:
                    yield st1, VList([])
            elif isinstance(dflt, V) and dflt.kind == STR:
                okc, c = concrete(dflt)
                if okc:
                    d = None if isinstance(delim, VNone) else concrete(delim)[1]
                    yield st1, const(c.split(d) if c else [])
                else:
                    for st2, nonempty in eng.fork(st1, z3.Length(dflt.term) > 0, "get_list-default"):
                        if nonempty:
                            yield st2, _split_value(eng, st2, dflt.term, delim)
                        else:
                            yield st2, VList([])
            else:
                yield st1, VList([])


params_objects_fn = z3.Function("params_objects", z3.StringSort(), Seq(STR).sort())


def params_objects(eng, st, p, args, kw, node):
    has, val = _p(eng, st, p)
    k = _key(eng, args[0], st)
    okk, ck = concrete(args[0])
    if okk:
        if not hasattr(eng, "objects_param_keys"):
            eng.objects_param_keys = set()
        eng.objects_param_keys.add(ck)      # for the reifier: this key is read as a list of names
    s = z3.If(z3.Select(has, k), z3.Select(val, k), z3.StringVal(""))
    # objects(): whitespace split, duplicates removed, original order -> abstract duplicate-free sequence
    r = V(Seq(STR), params_objects_fn(s))
    L = Seq(STR)
    st.assume((L.len(r.term) == 0) == (L.len(str_wsplit(s)) == 0))
    st.assume(z3.Implies(s == z3.StringVal(""), L.len(r.term) == 0))
    yield st, r


def object_params_terms(has, val, name_term):
    """has'/val' of Params.object_params(name): suffixed keys override their suffix-less versions."""
    k = z3.Const(fresh_name("k"), z3.StringSort())
    suf = z3.Concat(z3.StringVal("_"), name_term)
    nh = z3.Lambda([k], z3.Or(z3.Select(has, k), z3.Select(has, z3.Concat(k, suf))))
    nv = z3.Lambda([k], z3.If(z3.Select(has, z3.Concat(k, suf)), z3.Select(val, z3.Concat(k, suf)), z3.Select(val, k)))
    return nh, nv


def params_object_params(eng, st, p, args, kw, node):
    has, val = _p(eng, st, p)
    name = args[0]
    nh, nv = object_params_terms(has, val, name.term)
    r = eng.new_object(st, "Params", "oparams")
    eng.write_field(st, r, "Params", "p_has", P_HAS, V(P_HAS, nh))
    eng.write_field(st, r, "Params", "p_val", P_VAL, V(P_VAL, nv))
    yield st, r


def params_keys(eng, st, p, args, kw, node):
    has, val = _p(eng, st, p)
    yield st, V(SetK(STR), has)


SCHEMA["Params"]["methods"].update({
    "__getitem__": params_getitem, "get": params_get, "__contains__": params_contains,
    "__setitem__": params_setitem, "__delitem__": params_delitem, "copy": params_copy,
    "update": params_update, "get_numeric": params_get_numeric, "get_boolean": params_get_boolean,
    "get_list": params_get_list, "objects": params_objects, "object_params": params_object_params,
    "setdefault": params_setdefault,
    "keys": params_keys,
})


# ---------------------------------------------------------------------------- Result dictionaries
RESULT_KEYS = {"name": "r_name", "status": "r_status", "time_elapsed": "r_time", "uid": "r_uid"}


def result_getitem(eng, st, r, args, kw, node):
    ok, k = concrete(args[0])
    if not ok or k not in RESULT_KEYS:
        raise Untranslatable(f"result key {args[0]!r}", node)
    yield st, eng.read_field(st, r, "Result", RESULT_KEYS[k], STR)


def result_setitem(eng, st, r, args, kw, node):
    ok, k = concrete(args[0])
    if not ok or k not in RESULT_KEYS:
        raise Untranslatable(f"result key {args[0]!r}", node)
    eng.write_field(st, r, "Result", RESULT_KEYS[k], STR, args[1])
    yield st, NONE


SCHEMA["Result"]["methods"].update({"__getitem__": result_getitem, "__setitem__": result_setitem})
# value pools used by the native input generator (replay/fuzz.py); they do not restrict the symbolic values
SCHEMA["Result"]["pools"] = {
    "r_status": ["PASS", "FAIL", "ERROR", "WARN", "SKIP", "CANCEL", "INTERRUPTED", "UNKNOWN", "pass", "fail", "bogus"],
    "r_time": ["0.5", "1.0", "2.0", "10.0"],
}


# ---------------------------------------------------------------------------- nodes / objects / workers
def warm_params(cls):
    def prop(eng, st, obj, node):
        # assumption: the params cache is warm (the lazily re-parsing property is not entered)
        p = eng.read_field(st, obj, cls, "_params_cache", Ref("Params"))
        st.assume(p.term != NULL)
        yield st, p
    return prop


def worker_params(eng, st, w, node):
    net = eng.read_field(st, w, "TestWorker", "net", Ref("NetObject"))
    st.assume(net.term != NULL)
    p = eng.read_field(st, net, "TestObject", "_params_cache", Ref("Params"))
    st.assume(p.term != NULL)
    yield st, p


otp_has = z3.Function("otp_has", RefSort, RefSort, z3.IntSort(), P_HAS.sort())
otp_val = z3.Function("otp_val", RefSort, RefSort, z3.IntSort(), P_VAL.sort())


def params_version(st):
    return st.ghost.get("__params_version__", 0)


def bump_params_version(st):
    st.ghost["__params_version__"] = params_version(st) + 1


def object_typed_params(eng, st, obj, args, kw, node):
    """Trusted summary: a deterministic function of the object and of the contents of the given Params.

    The contents are identified by (Params reference, write epoch): every write to any Params object on the
    path starts a new epoch, so results are never related across a modification (sound over-approximation;
    functions over array-sorted arguments make z3's array theory incomplete, hence no array arguments)."""
    p = args[0]
    ver = z3.IntVal(params_version(st))
    r = eng.new_object(st, "Params", "otp")
    eng.write_field(st, r, "Params", "p_has", P_HAS, V(P_HAS, otp_has(obj.term, p.term, ver)))
    eng.write_field(st, r, "Params", "p_val", P_VAL, V(P_VAL, otp_val(obj.term, p.term, ver)))
    yield st, r


SCHEMA["TestNode"]["nonnull"] = ["_params_cache", "_picked_by_setup_nodes", "_picked_by_cleanup_nodes",
                                 "_dropped_setup_nodes", "_dropped_cleanup_nodes"]
SCHEMA["TestObject"]["nonnull"] = ["_params_cache"]
SCHEMA["TestWorker"]["nonnull"] = ["net"]
SCHEMA["TestNode"]["props"] = {"params": warm_params("TestNode")}
SCHEMA["TestObject"]["props"] = {"params": warm_params("TestObject")}
SCHEMA["TestWorker"]["props"] = {"params": worker_params}
SCHEMA["TestObject"]["methods"] = {"object_typed_params": object_typed_params}


def run_swarms(eng, st, cls, node):
    if "TestSwarm.run_swarms" not in st.ghost:
        k = Map(STR, Ref("TestSwarm"))
        st.ghost["TestSwarm.run_swarms"] = V(k, z3.Const("run_swarms0", k.sort()))
    yield st, st.ghost["TestSwarm.run_swarms"]


SCHEMA["TestSwarm"]["classattrs"] = {"run_swarms": run_swarms}


# python-level policy slots default to the class's default decisions
def _default_policy(method):
    def dflt(eng, st, obj):
        return VFunc("bound", recv=obj, name=method, cls="TestNode")
    return dflt


SCHEMA["TestNode"]["pydefaults"] = {
    "should_run": _default_policy("default_run_decision"),
    "should_clean": _default_policy("default_clean_decision"),
    "should_rerun": None,
}


def install(eng):
    """Install repository-wide call overrides (trusted summaries of dependencies)."""
    def dict_literal_hook(items):
        # {"name": ..., "status": ...} literals are test result dictionaries
        keys = set(items.keys())
        if keys and all(isinstance(k, str) for k in keys) and keys <= set(RESULT_KEYS) and "status" in keys:
            return "Result"
        return None
    eng.dict_literal_hook = dict_literal_hook


def well_formed(eng, st):
    """Data-structure facts assumed of every initial state (and eager creation of class-level state)."""
    k = Map(STR, Ref("TestSwarm"))
    st.ghost.setdefault("TestSwarm.run_swarms", V(k, z3.Const("run_swarms0", k.sort())))


def axioms(eng):
    ax = []
    from pyvc.models import card_fn
    for tag, sort in eng.models.used_axioms:
        if tag == "card":
            c = card_fn(sort)
            S = z3.Const("ax_S", z3.ArraySort(sort, z3.BoolSort()))
            x = z3.Const("ax_x", sort)
            ax.append(safe_forall([S, x], z3.Implies(z3.Not(z3.Select(S, x)), c(z3.Store(S, x, True)) == c(S) + 1),
                                patterns=[c(z3.Store(S, x, True))]))
            ax.append(safe_forall([S, x], z3.Implies(z3.Select(S, x), c(z3.Store(S, x, True)) == c(S)),
                                patterns=[c(z3.Store(S, x, True))]))
            ax.append(c(z3.EmptySet(sort)) == 0)
            ax.append(safe_forall([S], c(S) >= 0, patterns=[c(S)]))
    return ax


# ---------------------------------------------------------------------------- runner side (job results, test ids)
SCHEMA.update({
    "TestID": {"fields": {"name": STR, "uid": STR}},
    "JobResult": {"fields": {"tid": Ref("TestID"), "j_status": STR, "j_time": STR}, "methods": {}},
    "JobResultSet": {"fields": {"tests": Seq(Ref("JobResult"))}},
    "Job": {"fields": {"result": Ref("JobResultSet")}, "nonnull": ["result"]},
    "TestRunner": {"fields": {"job": Ref("Job"), "previous_results": Seq(Ref("Result"))}, "nonnull": ["job"]},
    "TestGraph": {"fields": {"runner": Ref("TestRunner")}, "nonnull": ["runner"]},
})
SCHEMA["JobResult"]["nonnull"] = ["tid"]


def jobresult_getitem(eng, st, r, args, kw, node):
    ok, k = concrete(args[0])
    if k == "name":
        yield st, eng.read_field(st, r, "JobResult", "tid", Ref("TestID"))
    elif k == "status":
        yield st, eng.read_field(st, r, "JobResult", "j_status", STR)
    elif k == "time_elapsed":
        yield st, eng.read_field(st, r, "JobResult", "j_time", STR)
    else:
        raise Untranslatable(f"job result key {args[0]!r}", node)


def jobresult_setitem(eng, st, r, args, kw, node):
    ok, k = concrete(args[0])
    if k == "status":
        eng.write_field(st, r, "JobResult", "j_status", STR, args[1])
        yield st, NONE
    else:
        raise Untranslatable(f"job result key store {args[0]!r}", node)


def jobresult_copy_to_result(eng, st, r):
    """{key: value for key, value in test_result.items()} : a new plain dict with the same entries."""
    new = eng.new_object(st, "Result", "jobcopy")
    eng.write_field(st, new, "Result", "r_status", STR, eng.read_field(st, r, "JobResult", "j_status", STR))
    eng.write_field(st, new, "Result", "r_time", STR, eng.read_field(st, r, "JobResult", "j_time", STR))
    tid = eng.read_field(st, r, "JobResult", "tid", Ref("TestID"))
    eng.write_field(st, new, "Result", "r_uid", STR, eng.read_field(st, tid, "TestID", "uid", STR))
    return new


SCHEMA["JobResult"]["methods"].update({"__getitem__": jobresult_getitem, "__setitem__": jobresult_setitem})
SCHEMA["JobResult"]["dictcopy"] = jobresult_copy_to_result


def node_id_test(eng, st, n, node):
    """TestNode.id_test -> TestID(prefix, params['name']) ; uid is the prefix, name the test name (trusted avocado API)."""
    p = eng.read_field(st, n, "TestNode", "_params_cache", Ref("Params"))
    has = eng.read_field(st, p, "Params", "p_has", P_HAS).term
    val = eng.read_field(st, p, "Params", "p_val", P_VAL).term
    for st1, ok in eng.fork(st, z3.Select(has, z3.StringVal("name")), "id_test.name"):
        if ok:
            t = eng.new_object(st1, "TestID", "tid")
            eng.write_field(st1, t, "TestID", "uid", STR, eng.read_field(st1, n, "TestNode", "prefix", STR))
            eng.write_field(st1, t, "TestID", "name", STR, V(STR, z3.Select(val, z3.StringVal("name"))))
            yield st1, t
        else:
            eng.raise_exc(st1, "ParamNotFound", node)


SCHEMA["TestNode"]["props"]["id_test"] = node_id_test
